"""Run a property's check against a PROPERTY-PRESERVING change (a change after which the property still holds).

usage: python -m vf.benigntest <PID> <dir with patch.diff demo.py [differs.py note.md]> <name> [--skip-suite]

Steps (all in a scratch worktree of /repo's HEAD, never in /repo itself):
  1. demo.py (checks the property) must exit 0 on the pristine tree AND with the patch applied;
  2. differs.py, when present, must exit 0 pristine and != 0 patched (behaviour really changed);
  3. the test-suite must fail exactly where the pristine tree fails;
  4. VERIF_REPO=<worktree> ./check PID. Verdicts:
       quiet          exit 0, no VIOLATION line
       unproved       only `VIOLATION ... no-failing-input-found` lines (the brief allows this for a rewrite: the model
                      or correspondence no longer checks and no failing input exists)
       FALSE-ALARM    a VIOLATION line with a concrete replay although the property holds -> the check is wrong
The change is stored as /verif/benign/<PID>-<name>/ {patch.diff, demo.py, differs.py, note.md, meta.json}.
"""
import json
import os
import re
import shutil
import sys
import time

from . import core
from .seedtest import sh, suite_failures, PY, SCR


def main():
    pid, src, name = sys.argv[1], sys.argv[2], sys.argv[3]
    skip_suite = "--skip-suite" in sys.argv
    os.makedirs(SCR, exist_ok=True)
    head = sh("git -C /repo rev-parse --short HEAD")[1].strip()
    wt = os.path.join(SCR, "wtb-%s-%s" % (pid, name))
    sh("git -C /repo worktree remove --force %s" % wt)
    shutil.rmtree(wt, ignore_errors=True)
    rc, out = sh("git -C /repo worktree add --detach %s HEAD" % wt)
    if rc != 0:
        print(out)
        sys.exit(2)
    meta = {"property": pid, "name": name, "repo_head": head, "kind": "property-preserving", "ran": []}
    try:
        demo = os.path.join(src, "demo.py")
        dif = os.path.join(src, "differs.py")
        env = {"PYTHONPATH": wt, "PYTHONHASHSEED": "0"}
        rc0, _ = sh("timeout 600 %s %s" % (PY, demo), cwd=wt, env=env)
        d0 = sh("timeout 300 %s %s" % (PY, dif), cwd=wt, env=env)[0] if os.path.exists(dif) else None
        rc, out = sh("git apply %s" % os.path.join(src, "patch.diff"), cwd=wt)
        if rc != 0:
            print("patch does not apply:", out)
            sys.exit(2)
        rc1, out1 = sh("timeout 600 %s %s" % (PY, demo), cwd=wt, env=env)
        d1, dout = sh("timeout 300 %s %s" % (PY, dif), cwd=wt, env=env) if os.path.exists(dif) else (None, "")
        meta.update(demo_pristine_exit=rc0, demo_patched_exit=rc1, differs_pristine_exit=d0, differs_patched_exit=d1,
                    differs_output=dout[-400:])
        meta["ran"].append("demo.py (property as stated): pristine -> %s, patched -> %s; differs.py: pristine -> %s, patched -> %s" % (rc0, rc1, d0, d1))
        if not skip_suite:
            bfile = os.path.join(SCR, "baseline-%s.json" % head)
            base = json.load(open(bfile)) if os.path.exists(bfile) else None
            if base is None or "passed" not in base.get("summary", ""):
                wt0 = os.path.join(SCR, "wt-baseline-%d" % os.getpid())
                sh("git -C /repo worktree remove --force %s" % wt0)
                sh("git -C /repo worktree add --detach %s HEAD" % wt0)
                f0, s0 = suite_failures(wt0)
                base = {"failures": f0, "summary": s0}
                if "passed" in s0:
                    json.dump(base, open(bfile, "w"))
                sh("git -C /repo worktree remove --force %s" % wt0)
            f1, s1 = suite_failures(wt)
            meta["suite_pristine"] = base["summary"]
            meta["suite_patched"] = s1
            meta["suite_new_failures"] = sorted(set(f1) - set(base["failures"]))
        t0 = time.time()
        rc2, out2 = sh("./check %s --tier quick" % pid, cwd=core.ROOT, env={"VERIF_REPO": wt}, timeout=3600)
        viol = [l for l in out2.splitlines() if l.startswith("VIOLATION")]
        concrete = [v for v in viol if "no-failing-input-found" not in v]
        meta["check_exit"] = rc2
        meta["check_violation_lines"] = viol[:6]
        meta["check_detail"] = [l for l in out2.splitlines() if l.strip().startswith("->")][:6]
        meta["check_wall_s"] = round(time.time() - t0, 1)
        meta["verdict"] = "FALSE-ALARM" if concrete else ("unproved" if viol else ("quiet" if rc2 == 0 else "error-exit-%d" % rc2))
        for v in concrete[:3]:
            m = re.search(r"replay=(\S+)", v)
            if m and os.path.exists(m.group(1)):
                meta.setdefault("replays", []).append(json.load(open(m.group(1))).get("what", "")[:400])
        meta["valid_benign"] = rc0 == 0 and rc1 == 0 and (skip_suite or not meta.get("suite_new_failures")) and (d0 in (None, 0))
        print(out2[-1500:])
        print(json.dumps(meta, indent=1))
        dst = os.path.join(core.ROOT, "benign", "%s-%s" % (pid, name))
        os.makedirs(dst, exist_ok=True)
        for f in ("patch.diff", "demo.py", "differs.py", "note.md"):
            if os.path.exists(os.path.join(src, f)) and os.path.realpath(src) != os.path.realpath(dst):
                shutil.copy(os.path.join(src, f), os.path.join(dst, f))
        oldp = os.path.join(dst, "meta.json")
        if os.path.exists(oldp):
            old = json.load(open(oldp))
            meta["first_pass_verdict"] = old.get("first_pass_verdict", old.get("verdict"))
            if skip_suite:
                for k in ("suite_pristine", "suite_patched", "suite_new_failures"):
                    if k in old:
                        meta[k] = old[k]
        json.dump(meta, open(oldp, "w"), indent=1)
    finally:
        sh("git -C /repo worktree remove --force %s" % wt)
        shutil.rmtree(wt, ignore_errors=True)
        try:
            import importlib
            mod = importlib.import_module("vf.props." + pid)
            if hasattr(mod, "gen"):
                os.environ["VERIF_REPO"] = "/repo"
                core.REPO = "/repo"
                ctx = core.Ctx(pid)
                ctx.regen(mod)
                ctx.make(["theories/%s/Props.vo" % pid])
                shutil.rmtree(ctx.casedir, ignore_errors=True)
        except Exception as ex:  # noqa
            print("could not restore generated model:", ex)


if __name__ == "__main__":
    main()
