"""C02 - mesh construction normalises raw data, whatever its form."""
import json
import os
import sys

from .. import core
from ..core import zlit, coq_list, zlist, coq_bool
from ..translate import c02 as tr
from ..impl import c02_gen as G
from ..impl import c02_oracle as O

META = {
    "property_id": "C02",
    "design_ref": "DESIGN.md section 5, C02",
    "technique": "Coq proof over an executable model of RawMeshData.prepare / class selection / re-wrapping / from_arrays "
                 "whose decision expressions, face tables, guards and step order are regenerated from the source on every "
                 "run (fail-closed ast translator) + kernel-checked correspondence batches on generated raw inputs built "
                 "through lists, tuples, numpy rows, append and from_arrays + independent brute-force oracle",
    "level_text": "Machine-checked, unbounded Coq theorems (closed under the global context) about an executable model of "
                  "mesh_data.py / mesh.py / base.py whose edge validity predicate, keyify, face-side index formula, tetra and "
                  "hexa face tables (both copies), corner-regeneration guards, corner record argument order, hard-edge "
                  "guard/flag, attribute keep-test and default carry-over, dimensionality chain, class selection, "
                  "from_arrays tests and the order of prepare()'s steps are regenerated from /repo on every run. Proved in "
                  "full for all raw inputs, both completion switches and any dim override: C02_edges (+face_sides_spec, "
                  "sides_present, added_side_once, surviving_edges_order): edge list = valid keyified declared edges ++ each "
                  "new valid face side once, all (a,b) with 0<=a<b<n; C02_edge_attributes: a surviving edge reads its old "
                  "value at the compacted index, default kept (sparse and dense); C02_hard_edges: flagged exactly on the "
                  "declared edges; C02_faces_from_cells / tet_faces_opposite / hex_faces_shape / tables / cell_faces / "
                  "prepare_total: 4 triangles or 6 quads per cell, shared face once, face i opposite vertex i, cell_faces "
                  "ids and owners, no failure with completion on; C02_corners: one (element, owner) record per incidence in "
                  "element order; C02_class: highest non-empty dimension or override; C02_from_arrays_3d: zero padding to "
                  "3-D, rejected indices; C02_rebuild_changes_nothing (+prepared_stable, prepare_gives_prepared): "
                  "RawMeshData(mesh) -> instantiate returns the same class and containers, attributes equal as total maps "
                  "over the edges, for any number of rebuilds; C02_corner_clear_spec / C02_rebuild_after_clear_and_edit / "
                  "C02_rebuild_after_clears_changes_nothing: clear() (generated from data_container.py) empties both lists "
                  "of a corner container, and a re-wrapped mesh that was edited arbitrarily and had its corner containers "
                  "cleared is rebuilt with one (element, owner) record per incidence of the new faces and cells, while "
                  "clears alone change nothing; C02_vertices_3d: 2-D points are padded with 0 and 3-D points kept for every raw input "
                  "(containers, arrays, parsed files), other widths are left as they are; C02_corners_prefilled / "
                  "C02_face_corners_regenerated: corner containers pre-filled by the importers, or stale by count, end up as the "
                  "records of the final faces / cells; C02_edges_nodup / C02_edge_once / C02_side_once / C02_edges_members / "
                  "C02_norm_edges: the whole final edge list is duplicate-free without any guard (an edge declared more than once "
                  "is kept once, first declaration, with its attribute values), every edge and every valid face side occurs "
                  "exactly once, and the list holds exactly the valid declared edges and the valid face sides; C02_failed_prepare_left: a construction that raises leaves the raw data with every "
                  "earlier step applied and cell_faces untouched (retry on the same object). Container independence (lists / tuples / numpy rows / append "
                  "/ from_arrays) has no counterpart in the model and is only tested: kernel-checked correspondence batches "
                  "compare every route with the one model answer, and the oracle compares the routes with each other "
                  "including a script of later connectivity queries.",
    "level_note": "Trusted: Coq kernel + vm_compute; the mesh_data translator; the correspondence harness (generators, "
                  "driver canonicalisation: index rows reported as integer lists, attribute values as integers, names as "
                  "codes); CPython list/dict/set semantics, numpy integer scalars hashing/comparing like ints; cells other "
                  "than tetrahedra/hexahedra, edges of arity != 2, attributes of elem_size > 1 / complex / string type "
                  "are outside the model. Remaining limits, stated: (1) the adjacency-only branch of _generate_cell_corners "
                  "(cell_corners with elements but no owners: it appends the owners to _elem) is modelled as written but no "
                  "theorem covers that state (unreachable through append/+=); (2) stale corners whose COUNT is still right "
                  "(e.g. faces[0] = another triangle on a re-wrapped mesh without clear()) are kept: the theorems require cleared, "
                  "correct or count-mismatching incoming corners; (3) points of width 1 or > 3 given to raw containers are left as "
                  "they are; (4) file routes start from what the importer produced (parsing itself is C04); cell_faces is "
                  "never pre-filled by an importer and is covered only for an empty or previously generated container; (5) "
                  "connectivity scripts run on well-formed inputs with both switches on, container-level operations (copy, "
                  "merge, attributes, save/load, rows handed back) on every case; (6) round-5 hardening scenarios are tested, not "
                  "proved: public properties of the raw data read between the filling steps / edits and the build, repeated "
                  "prepare(), positional / keyword / explicit-None call forms and direct class constructors, numpy index types "
                  "int32 / uint8 / mixed numpy scalars, indices beyond 256, config switches given as bool / int / np.bool_, "
                  "coincident vertices, a twin mesh built from equal arguments and spoiled in place, the caller's rows and "
                  "arrays mutated after the build; decorators and non-constant default arguments on anchored callables make "
                  "the translator fail closed. Deliberately NOT constrained by the oracle (the property text is silent; a "
                  "change there is at most 'unproved' through the model, never a concrete VIOLATION): the class and message of a "
                  "refusal (whether a refusal is legitimate is decided from the INPUT: from_arrays with an index >= |V| or points "
                  "wider than 3, face completion off with a cell face not supplied; then any exception is accepted and only 'the "
                  "caller's arrays are unchanged' is required, while any exception on an input that must be built is a violation "
                  "whatever its class); warnings, log lines and stderr (the driver's answer is one marked stdout line; the "
                  "translator drops warnings.warn / print / logging statements); the order of the edge list, of the face list and of "
                  "a cell's faces inside cell_faces; the third coordinate given to a 2-D point; whether hard_edges exists and "
                  "whether every declared edge is flagged (only: no undeclared edge is flagged); extra attributes; the "
                  "representation (sparse/dense, key set, default object) and order of attributes - values are compared as (edge, "
                  "value) pairs; Vec / float / tuple-ness of vertices and rows in absolute terms (only equality across input "
                  "containers); which containers a class exposes beyond its name; object identity and aliasing of inputs (recorded "
                  "for information, C06's subject).",
}

HEADER = """From Coq Require Import ZArith List Bool.
Import ListNotations.
Require Import MV.Lib.Base MV.C02.Defs MV.C02.Gen MV.C02.Model MV.C02.Run.
Open Scope Z_scope.
"""

NAMES = {"hard_edges": 0, "w": 1, "label": 2, "second": 3}
KNOWN_DUP = "edge-list/duplicate-declared"


def name_code(n):
    if n not in NAMES:
        NAMES[n] = max(NAMES.values()) + 1   # attributes brought by a file (the model only needs distinct codes)
    return NAMES[n]
ERR = {"KeyError": 1, "Exception": 2}


def gen(ctx):
    return tr.gen()


# ---------------------------------------------------------------------- Gallina encoders
def zll(rows):
    return coq_list([zlist(r) for r in rows])


def edges_term(es):
    return coq_list(["(%s, %s)" % (zlit(a), zlit(b)) for a, b in es])


def attr_term(a):
    d = 0 if a["default"] is None else int(a["default"])
    if a["dense"]:
        return "(%s, Dense %s %s)" % (zlit(name_code(a["name"])), zlit(d), zlist(a["vals"]))
    return "(%s, Sparse %s %s)" % (zlit(name_code(a["name"])), zlit(d),
                                   coq_list(["(%s, %s)" % (zlit(i), zlit(v)) for i, v in a["set"]]))


def obs_term(o):
    if "err" in o:
        return "(OErr 0%Z)"    # a refusal; its class and message are never compared
    cls = O.CLASSES.index(o["class"]) if o["class"] in O.CLASSES else 99
    at = []
    for a in o["eattrs"]:
        keys = [a["n"]] if a["kind"] == "dense" else a["keys"]
        at.append("(%s, %s, %s, %s, %s)" % (zlit(name_code(a["name"])), coq_bool(a["kind"] == "dense"),
                                            zlit(a["default"]), zlist(keys), zlist(a["vals"])))
    g = lambda k: o[k] if o[k] is not None else []
    gc = lambda k, i: o[k][i] if o[k] is not None else []
    return "(OMesh %s %s %s %s %s %s %s %s %s %s %s %s %s %s %s)" % (
        zlit(cls), coq_bool(o["edges"] is not None), coq_bool(o["faces"] is not None), coq_bool(o["cells"] is not None),
        zll(o["verts"]), edges_term(g("edges")), coq_list(at), zll(g("faces")), zlist(gc("fc", 0)), zlist(gc("fc", 1)),
        zll(g("cells")), zlist(gc("cc", 0)), zlist(gc("cc", 1)), zlist(gc("cf", 0)), zlist(gc("cf", 1)))


def edit_term(e):
    k = e[0]
    simple = {"clear_fc": "EClearFC", "clear_cc": "EClearCC", "clear_cf": "EClearCF", "clear_edges": "EClearEdges",
              "clear_faces": "EClearFaces", "clear_cells": "EClearCells", "pop_face": "EPopFace", "pop_cell": "EPopCell"}
    if k == "peek":
        return "EPeek"
    if k in simple:
        return simple[k]
    if k == "add_vertex":
        return "(EAddVertex %s)" % zlist(e[1])
    if k == "add_edge":
        return "(EAddEdge (%s, %s))" % (zlit(e[1][0]), zlit(e[1][1]))
    if k == "add_face":
        return "(EAddFace %s)" % zlist(e[1])
    if k == "add_cell":
        return "(EAddCell %s)" % zlist(e[1])
    if k == "set_face":
        return "(ESetFace %s %s)" % (zlit(e[1]), zlist(e[2]))
    if k == "set_cell":
        return "(ESetCell %s %s)" % (zlit(e[1]), zlist(e[2]))
    raise ValueError(e)


def case_term(case, route, stages, inp_obs=None):
    cfg = "(%s, %s)" % (coq_bool(case["cfg"][0]), coq_bool(case["cfg"][1]))
    if route == "from_arrays":
        w = len(case["verts"][0]) if case["verts"] else 3
        inp = "(IArr %s %s %s %s %s)" % (zlit(w), zll(case["verts"]), edges_term(case["edges"]), zll(case["faces"]),
                                         zll(case["cells"]))
    else:
        d = inp_obs if inp_obs is not None else case   # a file route starts from what the importer produced
        corner = lambda k, i: zlist(d[k][i]) if d.get(k) else "[]"
        dim = "None" if case.get("dim") is None else "(Some %s)" % zlit(case["dim"])
        raw = "(mkRaw %s %s %s %s %s %s %s %s %s %s %s)" % (
            zll(d["verts"]), edges_term(d["edges"]), coq_list([attr_term(a) for a in d["eattrs"]]),
            zll(d["faces"]), corner("fc", 0), corner("fc", 1), zll(d["cells"]), corner("cc", 0), corner("cc", 1),
            corner("cf", 0), corner("cf", 1))
        inp = "(IRaw %s %s)" % (dim, raw)
    edits = [[]] + list(case.get("edits") or [])
    edits += [[]] * (len(stages) - len(edits))
    return "(%s, %s, %s)" % (cfg, inp, coq_list(["(%s, %s)" % (coq_list([edit_term(e) for e in es]), obs_term(o))
                                                   for es, o in zip(edits, stages)]))


# ---------------------------------------------------------------------- running the implementation
def run_impl_cases(cases, timeout=600):
    if not cases:
        return []
    nsh = max(1, min(core.NCPU, len(cases) // 20 or 1))
    res = core.run_impl_parallel("vf.impl.c02_driver", [{"cases": cases[i::nsh]} for i in range(nsh)], timeout=timeout)
    out = [None] * len(cases)
    for i, r in enumerate(res):
        for j, o in zip(range(i, len(cases), nsh), r["cases"]):
            out[j] = o
    return out


def fails(case):
    res = run_impl_cases([case], timeout=120)[0]
    return O.oracle(case, res)


def shrink(case, key):
    """Greedy structural shrinking that keeps the same failure class."""
    cur = json.loads(json.dumps(case))

    def still(c):
        try:
            m = fails(c)
        except Exception:
            return False
        return m is not None and m[0] == key

    def attempt(c):
        nonlocal cur
        if still(c):
            cur = c
            return True
        return False
    budget = 60
    changed = True
    while changed and budget > 0:
        changed = False
        for k in range(len(cur.get("edits") or [])):
            i = 0
            while i < len(cur["edits"][k]) and budget > 0:
                grp = cur["edits"][k]
                structural = [e for e in grp if e[0] not in O.QUIET]
                if grp[i][0] in O.CLEARS and structural:
                    i += 1   # keep the editors' discipline: containers are cleared whenever the data is edited
                    continue
                c = json.loads(json.dumps(cur))
                del c["edits"][k][i]
                budget -= 1
                if attempt(c):
                    changed = True
                else:
                    i += 1
        for fld in ("script", "eattrs", "edges", "faces", "cells"):
            i = 0
            while i < len(cur[fld]) and budget > 0:
                c = json.loads(json.dumps(cur))
                del c[fld][i]
                if fld == "edges":   # keep attribute payloads aligned with the edge list
                    for a in c["eattrs"]:
                        if a["dense"]:
                            del a["vals"][i]
                        else:
                            a["set"] = [[k - (k > i), v] for k, v in a["set"] if k != i]
                budget -= 1
                if attempt(c):
                    changed = True
                else:
                    i += 1
        for r in list(cur["routes"]):
            if len(cur["routes"]) > 1 and budget > 0:
                c = json.loads(json.dumps(cur))
                c["routes"].remove(r)
                budget -= 1
                if attempt(c):
                    changed = True
        if cur["rewraps"] > 0 and budget > 0:
            c = json.loads(json.dumps(cur))
            c["rewraps"] -= 1
            c["edits"] = (c.get("edits") or [])[:c["rewraps"]]
            budget -= 1
            if attempt(c):
                changed = True
    return cur


# ---------------------------------------------------------------------- the check
def run(ctx):
    quick = ctx.tier == "quick"
    n_cases = 600 if quick else 20000
    ctx.rule = ("raw inputs from small mesh seeds (triangle/quad grids, polygons of arity 1-7, fans, 1/2/5/6-tet and 1/2-hexa "
                "and mixed meshes, tet chains, polylines, point sets, random face and cell soups) plus a malformed stream "
                "(self-loops, out-of-range, negative and duplicate declared edges, sparse/dense edge attributes with or "
                "without a custom default, a caller attribute named hard_edges, both completion switches on/off, dim "
                "override); every case is built through list / tuple / numpy rows (and append, from_arrays where "
                "applicable) and re-built 0-2 times from the built mesh, with edits of the re-wrapped data in between (clear() of "
                "corner containers, appended / reassigned / removed faces and cells with the clears the subdivision editors "
                "do, mesh.save-like clears of whole containers, an added declared edge). Non-trivial = at least one face or cell and at "
                "least one declared edge; distinct = canonical JSON of the input")
    ctx.assumptions += ["attribute values are integers / booleans with one value per edge; names enter the model as codes",
                        "cells are tetrahedra (4) or hexahedra (8); declared edges are pairs; coordinates are multiples of 1/4 (exact in binary64)"]
    ctx.regen(sys.modules[__name__])
    b = ctx.build_props(extra_targets=["theories/C02/Run.vo"])
    ctx.hygiene(["Lib", "C02"])

    corpus = []
    cdir = os.path.join(core.ROOT, "corpus", "C02")
    if os.path.isdir(cdir):
        for f in sorted(os.listdir(cdir)):
            if f.endswith(".json"):
                corpus.append(json.load(open(os.path.join(cdir, f))))
    cases = corpus + [G.gen_case(ctx.rng, quick) for _ in range(n_cases)]
    ctx.log("built; running the implementation on %d cases" % len(cases))
    results = run_impl_cases(cases, timeout=1500)
    ctx.log("implementation done; oracle + encoding")

    # ---- oracle on every case (the search for a concrete failing input)
    failures = []
    terms, owner = [], []
    for idx, (c, res) in enumerate(zip(cases, results)):
        ctx.count("seed " + c.get("kind", "corpus"))
        ctx.count("cfg faces=%s edges=%s" % tuple(c["cfg"]))
        for r in c["routes"]:
            ctx.count("route " + r)
        ctx.count("rewraps %d" % c["rewraps"])
        for es in c.get("edits") or []:
            ctx.count("rebuild after " + ("no edit" if not es else "clears / peeks only" if all(e[0] in O.QUIET for e in es)
                                          else "whole-container clear" if any(e[0] in ("clear_edges", "clear_faces", "clear_cells") for e in es)
                                          else "structural edits + clears" if any(e[0] in O.CLEARS for e in es)
                                          else "added edge" if all(e[0] == "add_edge" for e in es) else "faces edited, corners not cleared"))
        for kk in ("peek", "prep_calls", "idtype", "cfgrepr"):
            if c.get(kk) not in (None, 0, "int64"):
                ctx.count("%s=%s" % (kk, c.get(kk)))
        if c.get("twin"):
            ctx.count("twin build + inputs mutated afterwards")
        ctx.count("call form %d%s" % (c.get("callform", 0) % 4, " / class constructor on unprepared data" if c.get("callform", 0) % 5 == 4 else ""))
        ctx.count("declared edges %s" % ("0" if not c["edges"] else "1-4" if len(c["edges"]) < 5 else "5+"))
        for a in c["eattrs"]:
            ctx.count("attr %s%s%s" % ("dense" if a["dense"] else "sparse", " default" if a["default"] is not None else "",
                                       " named hard_edges" if a["name"] == "hard_edges" else ""))
        if c.get("malformed"):
            ctx.count("malformed input")
        if c.get("dim") is not None:
            ctx.count("dim override")
        st0 = next(iter(res.values())).get("stages", [{}])[0] if res else {}
        ctx.count("result " + st0.get("class", "raises " + st0.get("err", "?")))
        ctx.case_seen([c.get(k) for k in ("verts", "edges", "faces", "cells", "eattrs", "cfg", "dim", "routes", "rewraps", "edits")],
                      nontrivial=bool((c["faces"] or c["cells"]) and c["edges"]),
                      sample={"input": {k: c[k] for k in ("verts", "edges", "faces", "cells", "cfg")},
                              "edges_out": st0.get("edges")} if idx % 97 == 5 else None)
        for m in O.oracle_all(c, res):
            failures.append((idx, m))
        for r in c["routes"]:
            if "skip" in (res.get(r) or {}):
                ctx.count("route %s skipped (file could not be written / read)" % r)
        # correspondence terms: one per distinct observation of the case
        seen = {}
        for r in c["routes"]:
            x = res.get(r, {})
            if "stages" not in x:
                continue
            if any(len(cc) not in (4, 8) for cc in (x.get("input") or c)["cells"]):
                continue   # cells other than tetrahedra / hexahedra are outside the model
            kind = "arr" if r == "from_arrays" else "file" + json.dumps(x["input"], sort_keys=True) if "input" in x else "raw"
            sig = kind + json.dumps(x["stages"], sort_keys=True)
            if sig in seen:
                continue
            seen[sig] = r
            terms.append(case_term(c, r, x["stages"], x.get("input")))
            owner.append((idx, r))
    unexplained = [f for f in failures if not ctx.known(f[1][0])]
    ctx.obligation("oracle: every finished object satisfies the property sentence restated by brute force (all routes agree, "
                   "no later operation raises); listed known findings excepted",
                   "oracle-on-implementation", not unexplained,
                   "%d failing observation(s), %d of them instances of listed known findings; first: %s"
                   % (len(failures), len(failures) - len(unexplained), unexplained[0][1][0] if unexplained else "-"))

    # ---- kernel-checked correspondence
    bad = []
    ctx.log("oracle: %d failing case(s); correspondence on %d terms" % (len(failures), len(terms)))
    if b["model_ok"]:
        # at most 8 shards of 200 terms are evaluated at a time (a coqc on a shard needs a few hundred MB)
        chunk = 1600
        for k in range(0, len(terms), chunk):
            r = ctx.run_cases("prepare%s" % ("" if len(terms) <= chunk else "_%02d" % (k // chunk)), HEADER,
                              terms[k:k + chunk], "check_case", case_type="(cfg * input * list (list edit * obs))", shard=200, timeout=900)
            if r is None:
                break
            bad += [k + i for i in r]
            if len(bad) > 50:
                break
    else:
        ctx.obligation("correspondence batches", "correspondence", False, "model does not compile")

    # ---- verdicts
    reported = set()
    for idx, (key, msg) in (unexplained + [f for f in failures if ctx.known(f[1][0])])[:400]:
        if key in reported:
            continue
        reported.add(key)
        if ctx.known(key):
            ctx.report_known(key, ctx.known(key)["what"])
            continue
        small = shrink(cases[idx], key)
        m2 = fails(small) or (key, msg)
        ctx.violation("C02 %s: %s" % (m2[0], m2[1][:600]), {"case": small, "class": key}, key=key)
    # the witness of the listed known finding is replayed on every run
    kd = ctx.known(KNOWN_DUP)
    if kd is not None:
        wit = {"verts": [[0, 0, 0], [4, 0, 0], [0, 4, 0]], "vints": False, "edges": [[0, 1], [1, 0]], "faces": [[0, 1, 2]],
               "cells": [], "eattrs": [], "cfg": [True, True], "dim": None, "routes": ["list"], "rewraps": 0, "edits": [],
               "script": []}
        m = fails(wit)
        if m and m[0] == KNOWN_DUP:
            ctx.report_known(KNOWN_DUP, kd["what"])
        else:
            ctx.log("known finding %s: its witness no longer fails (%s)" % (KNOWN_DUP, m))
            ctx.notes.append("the witness of known finding %s no longer fails: the code seems repaired" % KNOWN_DUP)
    if bad and not unexplained:
        for i in bad[:3]:
            idx, r = owner[i]
            ctx.log("model/implementation disagreement on case %d route %s: %s" % (idx, r, json.dumps(cases[idx])[:1500]))
            ctx.log("   observed: %s" % json.dumps(results[idx][r]["stages"])[:1500])
        ctx.notes.append("model and implementation disagree on %d case(s) although the oracle accepts the implementation's answers" % len(bad))


def replay(ctx, data):
    case = data.get("case")
    if not case:
        print("replay file names no concrete input:", json.dumps(data)[:600])
        return 1
    res = run_impl_cases([case], timeout=120)[0]
    for r in case["routes"]:
        print("route", r, "->", json.dumps(res.get(r))[:1500])
    m = O.oracle(case, res)
    print("FAILS: %s: %s" % m if m else "passes")
    return 1 if m else 0
