"""C13 - subdivision refines a mesh without changing its shape or topology; accepts every documented input;
the mesh object passed in is never left half-updated."""
import json
import os
import sys

from .. import core
from ..core import zlit, coq_list
from ..translate import c13 as tr
from ..impl import c13_gen as G
from ..impl import c13_oracle as ORA

META = {
    "property_id": "C13",
    "design_ref": "DESIGN.md section 5, C13",
    "technique": "Coq proof (per-operation list rewrites whose face/edge/cell tuples, midpoint/barycentre formulas, "
                 "arity tests and loop counts are regenerated from subdivision.py on every run; directed-edge "
                 "bookkeeping for orientation/manifoldness, counting for Euler characteristic, field identities for "
                 "area/volume; an invariant over all operation histories for acceptance) + kernel-checked "
                 "correspondence batches on generated surfaces, tetrahedral meshes and polylines + independent oracle",
    "level_text": "Machine-checked Coq theorems (coq/theories/C13/Props.v, 83, all closed under the global context) about an executable "
                  "model of subdivision.py after six fix: commits; face/edge/cell tuples, half-table keys, midpoint/barycentre "
                  "formulas, arity tests, loop counts and enter/exit plumbing are regenerated from the source on every run. "
                  "FULL (all meshes / histories): documented V/E/F/C deltas and Euler characteristic of split_edge, fan, quad "
                  "split, 3quads; per-rewrite directed-edge balance lifted to whole refinement steps; closedness; border edges "
                  "= halves of border edges (loop, 3quads) / unchanged (fan); components in bijection (loop, 3quads, fan, quad "
                  "split); oriented manifoldness preserved by fan and 3quads; original vertices are a prefix of the output and "
                  "new vertex k is the generated centre formula of edge k / face j / the cell (every operation); over any "
                  "field with 2,3 invertible: centres, quarter/third vector areas, additivity for quad split and any fan, "
                  "quarter/third signed volumes, and - on the model's OUTPUT - total vector area of loop_step and total signed "
                  "volume of the cell fan unchanged; split_cell_as_fan preserves conformity of the whole mesh; "
                  "split_tet_from_face_center as a whole loop over the adjacent cells, on the model's output: every side other "
                  "than the split one keeps exactly its owners and every new side contains the new vertex; the invariant "
                  "`vol_inv` (in-range cells, faces and cells on different vertices, no two cells on the same four vertices, "
                  "every triangle a side of at most two cells) holds for every documented input and is kept by both "
                  "tetrahedral splits, hence by EVERY history of a volume block with no guard on the operations; what both splits do NOT touch (cells not containing the split face, other faces, edge list); oriented sides of "
                  "the pieces of both tetrahedral splits; selection rule of split_double_boundary_edges_triangles; every history "
                  "with existing ids succeeds on every prepared surface / tetrahedral mesh. PARTIAL (guard in the name and "
                  "statement, NOT in the property's quantifier): loop_subdivision(n) manifold / simple / E'=2E+3F / Euler and one "
                  "round of subdivide_triangles_6 need `simple_tri` (no two triangles on the same three vertices); quad split "
                  "and whole-loop triangulate() need the cut diagonals free (`cuts_free`); argument object = result only when no "
                  "operation replaced the raw data and connectivity was not queried. REFUTED (four narrowly keyed known findings, "
                  "Coq witnesses, replayed every run): argument half-updated after a replacing operation; argument with stale "
                  "tables after an in-place edit; triangulate() on a quad whose cut is already joined; loop_subdivision on two "
                  "triangles with the same vertices. TESTED ONLY (correspondence + oracle): number of border loops as cycles, "
                  "Euler characteristic V-E+F-C of the tetrahedral splits (it needs the faces/edges prepare() adds "
                  "on exit of the volume block, which are executed, not stated), positive orientation of the pieces across a "
                  "whole volume history, subdivide_triangles_6(repeat>=2) manifold, chaining of the manifold invariants "
                  "across mixed histories (fan then loop), Python-set order effects.",
    "level_note": "RawMeshData._prepare_edges (mesh_data.py) is mirrored by hand in Model.prepare_edges except for one generated "
                  "flag (pe_drop_repeated: is an edge whose keyified pair was already kept dropped? - read from the source "
                  "shape, two forms accepted, fail closed); the theorems about prepared inputs hold for both values. "
                  "Trusted: Coq kernel + vm_compute; the subdivision.py translator; the correspondence harness "
                  "(generators, driver canonicalisation, exact rational read-back of binary64 coordinates on inputs that "
                  "are multiples of 2^10*3^5*5*7). The order of a Python set (loop_subdivision's edge set) is not "
                  "modelled: results that passed through it are compared up to the renumbering it induces on the new "
                  "vertices (computed and checked inside Coq) and as edge sets. "
                  "Deliberately left free (the oracle, which alone produces concrete violations, does not constrain them): the "
                  "exception class and message of a refusal, and whether an element id that does not exist is refused at all "
                  "(if it is refused and caught, the state left behind is judged); the order of the edge list, which end of an "
                  "edge is listed first, the order of the corner containers (compared as incidence multisets), the order and "
                  "rotation of face / cell rows and the numbering of new vertices (counts, arities, half-edge validity and "
                  "multisets of centres are compared); last-bit float differences (new positions, total area and volume are "
                  "compared with tolerance 1e-9(1+|x|), original vertices must be bit-identical); extra warnings, log lines, "
                  "attributes, dtypes of index rows; nothing is ever compared with a pristine run, only with the independent "
                  "oracle. The kernel-checked correspondence compares the model's exact lists (a property-preserving rewrite may "
                  "therefore end as `no-failing-input-found`, never as a concrete violation).",
}

HEADER = """From Coq Require Import ZArith List Bool QArith Qcanon.
Import ListNotations.
Require Import MV.Lib.Base MV.C13.Defs MV.C13.Gen MV.C13.Model MV.C13.Run.
Open Scope Z_scope.
"""

# ---- recorded known findings: each key names a mechanism / input class that the classifier below CHECKS on the failing case
KEY_ARG_REPLACED = "C13/input-object-half-updated/replacing-operation"     # Loop n>=1 / Quads3 / Tri6 r>=1 in the block
KEY_ARG_STALE = "C13/input-object-stale-tables/edited-in-place"           # containers = result, cached tables of before
KEY_CUT = "C13/non-simple-input-triangulate"                               # quad cut B-D already joined
KEY_PILLOW = "C13/two-triangles-on-same-vertices/loop-or-tri6"             # two triangles on the same three vertices
WITNESS = {"kind": "surf", "V": [[0, 0, 0], [2 * G.UNIT, 0, 0], [0, 2 * G.UNIT, 0]], "F": [[0, 1, 2]],
           "ops": [["loop", 1]], "query": False, "planar": True, "seed_kind": "witness"}
WITNESS2 = {"kind": "surf", "V": [[0, 0, 0], [3 * G.UNIT, 0, 0], [0, 3 * G.UNIT, 0]], "F": [[0, 1, 2]],
            "ops": [["fan", 0]], "query": True, "planar": True, "seed_kind": "witness"}
WITNESS_NS = {"kind": "surf",
              "V": [[-G.UNIT, 0, 0], [0, G.UNIT, 0], [0, 0, G.UNIT], [0, 0, -G.UNIT], [G.UNIT, 0, 0], [0, -G.UNIT, 0]],
              "F": [[5, 4, 2], [3, 1, 4], [4, 1, 2], [4, 5, 3], [2, 1, 0, 5], [3, 5, 0, 1]],
              "ops": [["triangulate"]], "query": False, "planar": False, "seed_kind": "witness"}
WITNESS_PILLOW = {"kind": "surf", "V": [[0, 0, 0], [4 * G.UNIT, 0, 0], [0, 4 * G.UNIT, 0]], "F": [[0, 1, 2], [2, 1, 0]],
                  "ops": [["loop", 1]], "query": False, "planar": False, "seed_kind": "witness"}

REPLACING = {"loop": lambda op: op[1] >= 1, "quads3": lambda op: True, "tri6": lambda op: op[1] >= 1}
TRIANGULATING = ("triangulate", "triface", "loop", "quads3", "tri6")


def has_replacing_op(case):
    return case["kind"] == "surf" and any(op[0] in REPLACING and REPLACING[op[0]](op) for op in case.get("ops", []))


def failure_key(case, o, cls):
    """The known-finding key this failing element belongs to, or None (= a violation).  Every key is decided by a property
    of the CASE and of what was observed, never by the failure kind alone."""
    if cls == "arg/half-updated" and o.get("status") == "ok":
        arg, res = o["arg"], o["res"]
        if has_replacing_op(case) and arg.get("corn") == [] and len(arg.get("F", [])) > 0:
            return KEY_ARG_REPLACED         # the raw data was replaced: the argument kept its containers, corners emptied on entry
        same = all(arg.get(k) == res.get(k) for k in ("V", "E", "F", "C", "corn", "ccorn") if k in res)
        edited = any(arg.get(k) != o["input"].get(k) for k in ("V", "E", "F", "C") if k in res)
        tables_before = bool(case.get("query")) or case["kind"] == "vol"     # the volume block computes cell adjacency on entry
        if same and edited and tables_before and not o.get("arg_conn_ok", True):
            return KEY_ARG_STALE
        # joined cut: triangulate_face appended the diagonal a second time; prepare() rebuilds the edge container of the
        # RESULT without the repeated edge, the argument keeps the container that holds it twice - nothing else differs
        if case["kind"] == "surf" and not has_replacing_op(case):
            ns = ORA.non_simple_surface(case["F"])
            ops = [op[0] for op in case.get("ops", [])]
            ka = [tuple(sorted(e)) for e in arg.get("E", [])]
            kr = [tuple(sorted(e)) for e in res.get("E", [])]
            others = all(arg.get(k) == res.get(k) for k in ("V", "F", "C", "corn", "ccorn") if k in res)
            if (ns and ns[0] == "joined-cut" and any(nm in TRIANGULATING for nm in ops) and others
                    and len(set(ka)) < len(ka) and set(ka) == set(kr) and len(set(kr)) == len(kr)):
                return KEY_CUT
        return None
    if cls.startswith("result/") and case["kind"] == "surf":
        ns = ORA.non_simple_surface(case["F"])
        ops = [op[0] for op in case.get("ops", [])]
        if ns and ns[0] == "joined-cut" and any(nm in TRIANGULATING for nm in ops) and cls in (
                "result/invalid", "result/counts", "result/edges", "result/topology", "result/area", "result/orientation"):
            return KEY_CUT
        if ns and ns[0] == "same-vertex-triangles" and any(
                (op[0] == "loop" and op[1] >= 1) or (op[0] == "tri6" and op[1] >= 1) for op in case.get("ops", [])) and cls in (
                "result/invalid", "result/counts", "result/edges", "result/topology", "result/area"):
            return KEY_PILLOW
    return None


def judge(case, o):
    """all failing elements of one case as (class, message, known-finding key or None).
    A block whose LAST operation raised (expected: an element id that does not exist, caught by the caller) is judged twice:
    the exception itself, and - class 'state after a caught exception' - what the block and the argument hold afterwards, which
    must be the finished result of the operations before the failing one (resp. the unchanged-or-equal argument)."""
    out = [(cls, msg, failure_key(case, o, cls)) for cls, msg in ORA.check(case, o)]
    if case.get("expect_error") and o.get("status") == "err":
        opk = "splits" if case["kind"] == "poly" else "ops"
        if "after" not in o:
            out.append(("result/after-exception", "after the caught exception the block's mesh / the argument could not be inspected: "
                        + o.get("after_error", "?"), None))
        else:
            c2 = dict(case)
            c2[opk] = case[opk][:-1]
            c2.pop("expect_error", None)
            o2 = dict(o["after"], status="ok", input=o["input"])
            for cls, msg in ORA.check(c2, o2):
                out.append((cls, "after a caught %s of the last operation: %s" % (o["err"].split(":")[0], msg), failure_key(c2, o2, cls)))
    return out


def gen(ctx):
    files = tr.gen()
    ctx.extra["source_sha256_16"] = dict(tr.LAST_SOURCE_SHA)
    return files


# ---------------------------------------------------------------------- case generators
def arity_sim(ar, op):
    """face arities after one surface operation (only to pick valid face ids / bound sizes)"""
    ar = list(ar)

    def fan(i):
        n = ar[i]
        ar[i] = 3
        ar.extend([3] * (n - 1))

    def triface(i):
        if ar[i] == 4:
            ar[i] = 3
            ar.append(3)
        elif ar[i] > 4:
            fan(i)

    def triangulate():
        for i in range(len(ar)):
            if ar[i] != 3:
                triface(i)
    nm = op[0]
    if nm == "fan":
        fan(op[1])
    elif nm == "triface":
        triface(op[1])
    elif nm == "triangulate":
        triangulate()
    elif nm == "loop":
        triangulate()
        for _ in range(op[1]):
            ar = [3] * (4 * len(ar))
    elif nm == "quads3":
        triangulate()
        ar = [4] * (3 * len(ar))
    elif nm == "tri6":
        for _ in range(op[1]):
            triangulate()
            ar = [3] * (6 * len(ar))
    return ar


def gen_simple_surface(rng, size, kind=None):
    """the random stream leaves out exactly the two input classes recorded as known findings (c13_oracle.non_simple_surface:
    two triangles on the same three vertices; a quad whose cut B-D is already joined); each is exercised by its witness"""
    while True:
        mesh = G.gen_surface(rng, size, kind)
        if ORA.non_simple_surface(mesh["F"]) is None:
            return mesh


def gen_surf_case(rng, max_faces):
    size = rng.choices(["small", "medium"], [7, 3])[0]
    mesh = gen_simple_surface(rng, size)
    ar = [len(f) for f in mesh["F"]]
    L = rng.choice([0, 1, 1, 1, 2, 2, 3, 4])
    ops = []
    levels = 0
    for _ in range(L):
        for _try in range(6):
            nm = rng.choices(["triface", "fan", "triangulate", "loop", "quads3", "tri6"], [4, 5, 2, 5, 3, 3])[0]
            if nm in ("triface", "fan"):
                op = [nm, rng.randrange(len(ar))]
                cost = 1
            elif nm == "triangulate":
                op, cost = [nm], 1
            elif nm == "loop":
                n = rng.choice([0, 1, 1, 1, 2])
                op, cost = [nm, n], n + 1
            elif nm == "quads3":
                op, cost = [nm], 2
            else:
                r = rng.choice([0, 1, 1, 2])
                op, cost = [nm, r], 2 * r + 1
            ar2 = arity_sim(ar, op)
            if levels + cost <= 5 and len(ar2) <= max_faces:
                ops.append(op)
                ar = ar2
                levels += cost
                break
    # call forms: positional / keyword / argument omitted (only where the value is the documented default 1)
    ops2 = []
    for op in ops:
        if op[0] in ("loop", "tri6"):
            form = rng.choices(["pos", "kw", "default"], [6, 2, 2])[0]
            if form == "default" and op[1] != 1:
                form = "kw"
            ops2.append([op[0], op[1], form])
        elif op[0] in ("fan", "triface"):
            ops2.append([op[0], op[1], rng.choice(["pos", "pos", "kw"])])
        else:
            ops2.append(op)
    ops = ops2
    V, F, planar = mesh["V"], mesh["F"], mesh["planar"]
    if rng.random() < 0.2:                       # the whole surface with the other orientation (clockwise if planar)
        F = [list(reversed(f)) for f in F]
        planar = False
    through_set = any(op[0] == "loop" and op[1] >= 1 for op in ops)
    if rng.random() < 0.05 and not through_set:  # valid combinatorics on degenerate geometry: all vertices coincide
        V = [[G.UNIT, 2 * G.UNIT, 3 * G.UNIT] for _ in V]
        planar = False
        mesh = dict(mesh, seed_kind=mesh["seed_kind"] + "+coincident")
    case = {"kind": "surf", "V": V, "F": F, "ops": ops, "query": rng.random() < 0.5,
            "planar": planar, "seed_kind": mesh["seed_kind"], "np_ints": rng.random() < 0.3,
            "via_geogram": rng.random() < 0.15}
    if rng.random() < 0.08:
        case["ops"] = ops + [[rng.choice(["fan", "triface"]), len(ar) + rng.randrange(3), "pos"]]
        case["expect_error"] = True
    return case


def gen_sd_case(rng):
    kind = rng.choice(["strip", "strip", "ears", "ears", "grid-tri", "triangle", "torus-tri", "octa", "holed"])
    mesh = gen_simple_surface(rng, "small", kind)
    # the function is documented for triangle meshes; fanning works for any face, keep polygons in the mix via "ears"
    return {"kind": "sd", "V": mesh["V"], "F": mesh["F"], "query": rng.random() < 0.5, "planar": mesh["planar"],
            "seed_kind": mesh["seed_kind"]}


def gen_poly_case(rng):
    mesh = G.gen_polyline(rng)
    nE = len(mesh["E"])
    k = rng.choice([0, 1, 1, 2, 3, 5])
    splits = []
    for _ in range(k):
        splits.append(rng.randrange(nE))
        nE += 1
    case = {"kind": "poly", "V": mesh["V"], "E": mesh["E"], "splits": splits, "query": rng.random() < 0.5,
            "seed_kind": mesh["seed_kind"], "np_ints": rng.random() < 0.3}
    if rng.random() < 0.1:
        case["splits"] = splits + [nE + rng.randrange(2)]
        case["expect_error"] = True
    return case


def gen_vol_case(rng):
    mesh = G.gen_volume(rng)
    nC = len(mesh["C"])
    # faces present when the block is entered: every side of every cell, once
    nF = len({tuple(sorted(c[:i] + c[i + 1:])) for c in mesh["C"] for i in range(4)})
    k = rng.choice([0, 1, 1, 1, 2, 2, 3, 4])
    ops = []
    for _ in range(k):
        if rng.random() < 0.5:
            ops.append(["cellfan", rng.randrange(nC)])
            nC += 3
        else:
            ops.append(["facecentre", rng.randrange(nF)])
            nF += 2
            nC += 2
    case = {"kind": "vol", "V": mesh["V"], "C": mesh["C"], "ops": ops, "query": rng.random() < 0.5,
            "seed_kind": mesh["seed_kind"], "np_ints": rng.random() < 0.3, "via_geogram": rng.random() < 0.2}
    if rng.random() < 0.1:
        case["ops"] = ops + [rng.choice([["cellfan", nC + 50], ["facecentre", nF + 50]])]
        case["expect_error"] = True
    return case


# ---------------------------------------------------------------------- encoders (case + observation -> Gallina)
def qterm(n, d=1):
    if d == 1:
        return "(qz %s)" % (("(%d)" % n) if n < 0 else str(n))
    return "(mkq %s %d)" % (("(%d)" % n) if n < 0 else str(n), d)


def pt_in(p):
    return "(%s, %s, %s)" % tuple(qterm(int(c)) for c in p)


def pt_out(p):
    return "(%s, %s, %s)" % tuple(qterm(n, d) for n, d in p)


def zl(l):
    return "[" + "; ".join(zlit(int(x)) for x in l) + "]"


def zll(ll):
    return "[" + "; ".join(zl(l) for l in ll) + "]"


def pairs(ll):
    return "[" + "; ".join("(%s, %s)" % (zlit(int(a)), zlit(int(b))) for a, b in ll) + "]"


ERR = {"KeyError": "KeyError", "IndexError": "IndexError", "ValueError": "ValueError", "ZeroDivisionError": "ZeroDivision"}


def err_term(name):
    return ERR.get(name.split(":")[0], "OtherError")


SOP = {"triface": "TriFace %s", "fan": "Fan %s", "triangulate": "Triangulate", "loop": "Loop %s", "quads3": "Quads3",
       "tri6": "Tri6 %s"}


def sop_term(op):
    t = SOP[op[0]]
    if len(op) > 2 and op[2] == "default":      # argument omitted in the call: the model uses the default read off the source
        return "(Loop loop_default_n)" if op[0] == "loop" else "(Tri6 t6_default_r)"
    return "(" + (t % zlit(op[1]) if "%s" in t else t) + ")"


def edges_ok(E):
    return all(len(e) == 2 for e in E)


def surf_term(case, o):
    V = "[" + "; ".join(pt_in(p) for p in case["V"]) + "]"
    ops = "[" + "; ".join(sop_term(op) for op in case["ops"]) + "]"
    if o["status"] == "err" and "after" not in o:
        out = "(SErr %s)" % err_term(o["err"])
    else:
        src = o["after"] if o["status"] == "err" else o
        r, a = src["res"], src["arg"]
        out = ("(SErrThen %s " % err_term(o["err"]) if o["status"] == "err" else "(SOk ") + "(mksobs %s %s %s %s %s %s %s %s %s))" % (
            "[" + "; ".join(pt_out(p) for p in r["V"]) + "]", pairs(r["E"]), zll(r["F"]), pairs(r["corn"]),
            "[" + "; ".join(pt_out(p) for p in a["V"]) + "]", pairs(a["E"]), zll(a["F"]), pairs(a["corn"]),
            core.coq_bool(src["arg_conn_ok"]))
    return "(%s, %s, %s, %s, %s)" % (V, zll(case["F"]), core.coq_bool(bool(case.get("query"))), ops, out)


def sd_term(case, o):
    V = "[" + "; ".join(pt_in(p) for p in case["V"]) + "]"
    if o["status"] == "err":
        out = "None"
    else:
        r = o["res"]
        out = "(Some (%s, %s, %s, %s))" % ("[" + "; ".join(pt_out(p) for p in r["V"]) + "]", pairs(r["E"]), zll(r["F"]),
                                            pairs(r["corn"]))
    return "(%s, %s, %s)" % (V, zll(case["F"]), out)


def poly_term(case, o):
    V = "[" + "; ".join(pt_in(p) for p in case["V"]) + "]"
    raised = o["status"] == "err"
    r = (o.get("after") or {}).get("res") if raised else o["res"]
    out = "None" if r is None else "(Some (%s, %s))" % ("[" + "; ".join(pt_out(p) for p in r["V"]) + "]", pairs(r["E"]))
    return "(%s, %s, %s, %s, %s)" % (V, pairs(case["E"]), zl(case["splits"]), core.coq_bool(raised), out)


def vol_term(case, o):
    V = "[" + "; ".join(pt_in(p) for p in case["V"]) + "]"
    ops = "[" + "; ".join("(%s %s)" % ("CellFan" if op[0] == "cellfan" else "FaceCentre", zlit(op[1])) for op in case["ops"]) + "]"
    raised = o["status"] == "err"
    r = (o.get("after") or {}).get("res") if raised else o["res"]
    if r is None or any(k not in r for k in ("E", "F", "C", "corn", "ccorn")):
        out = "None"
    else:
        out = "(Some (mkvobs %s %s %s %s %s %s))" % ("[" + "; ".join(pt_out(p) for p in r["V"]) + "]", pairs(r["E"]),
                                                      zll(r["F"]), zll(r["C"]), pairs(r["corn"]), pairs(r["ccorn"]))
    return "(%s, %s, %s, %s, %s)" % (V, zll(case["C"]), ops, core.coq_bool(raised), out)


ENC = {"surf": (surf_term, "check_surface", "(list pt * list (list Z) * bool * list sop * sout)"),
       "sd": (sd_term, "check_split_double", "(list pt * list (list Z) * option (list pt * list edge * list (list Z) * list (Z * Z)))"),
       "poly": (poly_term, "check_polyline", "(list pt * list edge * list Z * bool * option (list pt * list edge))"),
       "vol": (vol_term, "check_volume", "(list pt * list (list Z) * list vop * bool * option vobs)")}


def encodable(case, o):
    """observations the Coq literals can carry (an edge that is not a pair cannot be written as one)"""
    if o.get("status") == "driver-error":
        return False
    src = o if o["status"] == "ok" else o.get("after")
    if src:
        for d in (src["res"], src["arg"]):
            if not edges_ok(d.get("E", [])):
                return False
    return True


# ---------------------------------------------------------------------- running the implementation
def run_cases_impl(cases, timeout=900):
    if not cases:
        return []
    nsh = max(1, min(core.NCPU, len(cases) // 8))
    payloads = [{"cases": cases[i::nsh]} for i in range(nsh)]
    results = core.run_impl_parallel("vf.impl.c13_driver", payloads, timeout=timeout)
    obs = [None] * len(cases)
    for i, r in enumerate(results):
        for j, o in zip(range(i, len(cases), nsh), r["obs"]):
            obs[j] = o
    return obs


def run_one(case):
    return core.run_impl("vf.impl.c13_driver", {"cases": [case]}, timeout=300)["obs"][0]


def strip(case):
    return {k: v for k, v in case.items() if k not in ("seed_kind",)}


# ---------------------------------------------------------------------- shrinking
def shrink(case, cls):
    """smaller case failing with the same class key"""
    def fails(c):
        try:
            oc = run_one(c)
            return any(k == cls and kk is None for k, _, kk in judge(c, oc))
        except Exception:
            return False
    cur = dict(case)
    opk = "ops" if "ops" in cur else ("splits" if "splits" in cur else None)
    budget = 40
    if opk:
        changed = True
        while changed and budget > 0:
            changed = False
            for i in range(len(cur[opk])):
                cand = dict(cur)
                cand[opk] = cur[opk][:i] + cur[opk][i + 1:]
                budget -= 1
                if fails(cand):
                    cur = cand
                    changed = True
                    break
        # smaller repeat counts
        for i, op in enumerate(cur[opk] if opk == "ops" else []):
            if len(op) >= 2 and op[0] in ("loop", "tri6") and op[1] > 1:
                cand = dict(cur)
                cand["ops"] = cur["ops"][:i] + [[op[0], 1, "pos"]] + cur["ops"][i + 1:]
                budget -= 1
                if fails(cand):
                    cur = cand
    if cur.get("query"):
        cand = dict(cur, query=False)
        if fails(cand):
            cur = cand
    # a smaller mesh of the simplest kinds
    import random
    r = random.Random(0)
    if cur["kind"] in ("surf", "sd"):
        for kind in ("triangle", "quad", "polygon", "grid-tri", "grid-quad", "strip", "tetra"):
            m = G.gen_surface(r, "small", kind)
            if len(m["F"]) >= len(cur["F"]):
                continue
            cand = dict(cur, V=m["V"], F=m["F"], planar=m["planar"])
            if "ops" in cand:
                cand["ops"] = [op for op in cand["ops"] if len(op) == 1 or op[0] in ("loop", "tri6") or op[1] < len(m["F"])]
            budget -= 1
            if budget > 0 and fails(cand):
                cur = cand
                break
    elif cur["kind"] == "vol":
        for kind in ("tet", "two"):
            m = G.gen_volume(r, kind)
            if len(m["C"]) >= len(cur["C"]):
                continue
            cand = dict(cur, V=m["V"], C=m["C"])
            cand["ops"] = [op for op in cand["ops"] if op[1] < len(m["C"])]
            if fails(cand):
                cur = cand
                break
    return cur


# ---------------------------------------------------------------------- the check
def nontrivial(case, o):
    if o.get("status") != "ok":
        return False
    if case["kind"] == "surf":
        return len(o["res"]["V"]) > len(case["V"])
    if case["kind"] == "sd":
        return len(o["res"]["V"]) > len(case["V"])
    if case["kind"] == "poly":
        return len(case["splits"]) > 0
    return len(case["ops"]) > 0


def run(ctx):
    quick = ctx.tier == "quick"
    n_surf, n_sd, n_poly, n_vol = (210, 40, 50, 90) if quick else (3600, 600, 600, 1200)
    max_faces = 200 if quick else 500
    ctx.rule = ("surfaces from 18 seed kinds (triangle/quad/polygon faces, disks, annuli, tori, closed polyhedra, holes, "
                "two components; renumbered, rotated, shuffled) with 0-4 editor operations in one block (at most 5 levels "
                "of refinement, result <= %d faces); split_double_boundary_edges_triangles on strips/ears; polylines with "
                "0-5 edge splits; tetrahedral meshes (1-24 cells, any vertex order) with 0-4 cell/face-centre splits; "
                "connectivity queried beforehand in half of the cases. Non-trivial = the case created at least one vertex; "
                "distinct = by canonical JSON of the case" % max_faces)
    ctx.assumptions += [
        "coordinates are multiples of 2^10*3^5*5*7 so that every midpoint and barycentre of the generated histories is exact in binary64",
        "iteration order of a Python set is not modelled (results compared up to the renumbering it induces on new vertices)",
        "negative element ids (Python wrap-around indexing) are outside the documented inputs and outside the model"]
    ctx.notes += [
        "observation (outside C13's text, C02/C15 territory): loop_subdivision / subdivide_triangles_3quads list every refined edge "
        "explicitly before prepare(), so every edge of their result carries hard_edges=True (icosphere(1): 120 of 120, icosahedron: 0 of 30)",
        "observation: the docstring of subdivide_triangles_6 promises the corner-barycentre diagonal; the code cuts each quad between its two "
        "edge midpoints (counts, total area and manifoldness are unaffected; the six triangles are T/4 and T/12, not six T/6)"]
    ctx.regen(sys.modules[__name__])
    b = ctx.build_props(extra_targets=["theories/C13/Run.vo"])
    ctx.hygiene(["Lib", "C13"])

    cases = []
    cdir = os.path.join(core.ROOT, "corpus", "C13")
    if os.path.isdir(cdir):
        for f in sorted(os.listdir(cdir)):
            if f.endswith(".json"):
                d = json.load(open(os.path.join(cdir, f)))
                cases.append(d.get("case", d))
    ncorpus = len(cases)
    cases += [gen_surf_case(ctx.rng, max_faces) for _ in range(n_surf)]
    cases += [gen_sd_case(ctx.rng) for _ in range(n_sd)]
    cases += [gen_poly_case(ctx.rng) for _ in range(n_poly)]
    cases += [gen_vol_case(ctx.rng) for _ in range(n_vol)]
    ctx.log("running the implementation on %d cases (%d from the corpus)" % (len(cases), ncorpus))
    obs = run_cases_impl([strip(c) for c in cases])

    for c, o in zip(cases, obs):
        ctx.count("kind " + c["kind"])
        ctx.count("%s seed %s" % (c["kind"], c.get("seed_kind", "corpus")))
        for op in c.get("ops", []):
            ctx.count("op " + op[0])
        ctx.count("queried-before" if c.get("query") else "not-queried-before")
        if o.get("status") == "err":
            ctx.count("raised " + o["err"].split(":")[0])
        if o.get("via_geogram"):
            ctx.count("input through a geogram_ascii file: " + o["via_geogram"].split(":")[0])
        if o.get("status") == "ok" and "F" in o["res"]:
            ctx.count("result faces<=%d" % (10 ** len(str(max(1, len(o["res"]["F"]) - 1)))))
        ctx.case_seen(strip(c), nontrivial=nontrivial(c, o),
                      sample={"kind": c["kind"], "seed": c.get("seed_kind"), "ops": c.get("ops", c.get("splits")),
                              "n_faces_in": len(c.get("F", [])), "n_vertices_out": len(o.get("res", {}).get("V", []))})

    # 1. independent oracle on every case (also the search for a failing input)
    fails = []          # (index, class, message)
    for idx, (c, o) in enumerate(zip(cases, obs)):
        for cls, msg, key in judge(c, o):
            fails.append((idx, cls, msg, key))
        if c.get("expect_error"):
            ctx.count("block whose last operation raises (%s)" % c["kind"])
    harness = [f for f in fails if f[1].startswith("harness/")]
    ctx.obligation("oracle ran on every case (inputs valid, driver built them)", "oracle-on-implementation", not harness,
                   "; ".join("%d:%s" % (i, m) for i, _, m, _ in harness[:3]))
    fails = [f for f in fails if not f[1].startswith("harness/")]

    # 2. kernel-checked correspondence, per case kind
    bad = {}
    if b["model_ok"]:
        for kind, (enc, fn, ty) in ENC.items():
            idxs = [i for i, (c, o) in enumerate(zip(cases, obs)) if c["kind"] == kind and encodable(c, o)]
            terms = [enc(cases[i], obs[i]) for i in idxs]
            shard = (16 if quick else 24) if kind == "surf" else 60
            r = ctx.run_cases(kind, HEADER, terms, fn, case_type=ty, shard=shard, timeout=900)
            bad[kind] = None if r is None else [idxs[j] for j in r]
            skipped = [i for i, (c, o) in enumerate(zip(cases, obs)) if c["kind"] == kind and not encodable(c, o)]
            if skipped:
                ctx.obligation("correspondence %s: every observation could be written as a model value" % kind,
                               "correspondence", False, "cases %s produced element lists outside the model's types" % skipped[:5])
    else:
        ctx.obligation("correspondence batches", "correspondence", False, "model does not compile")

    # 3. the recorded witness of every known finding is replayed on every run (and must fall under its own key)
    wl = [(KEY_ARG_REPLACED, WITNESS), (KEY_ARG_STALE, WITNESS2), (KEY_CUT, WITNESS_NS), (KEY_PILLOW, WITNESS_PILLOW)]
    wres = core.run_impl("vf.impl.c13_driver", {"cases": [strip(w) for _, w in wl]}, timeout=300)["obs"]
    wobs = {k: o for (k, _), o in zip(wl, wres)}
    for key, w, what in ((KEY_ARG_REPLACED, WITNESS, "mesh object passed in (replacing operation)"),
                         (KEY_ARG_STALE, WITNESS2, "mesh object passed in (edited in place, tables of before)"),
                         (KEY_CUT, WITNESS_NS, "quad cut along a diagonal that is already joined"),
                         (KEY_PILLOW, WITNESS_PILLOW, "two triangles on the same three vertices")):
        ow = wobs[key]
        fw = [(k, m) for k, m, kk in judge(w, ow) if kk == key]
        other = [(k, m) for k, m, kk in judge(w, ow) if kk is None]
        if fw:
            ctx.violation("%s: %s" % (what, fw[0][1]), {"case": strip(w), "class": fw[0][0]}, key=key)
        else:
            ctx.log("known-finding witness of %s no longer fails" % key)
            ctx.notes.append("known finding %s: witness no longer reproduces" % key)
        for k, m in other[:2]:
            ctx.violation("witness of %s fails in an unrecorded way: %s: %s" % (key, k, m), {"case": strip(w), "class": k})

    # 4. verdicts: EVERY failing element is classified; unknown keys are violations and are reported first
    keyed = fails
    unknown = [f for f in keyed if f[3] is None]
    for idx, cls, msg, key in keyed:
        if key is not None:
            ctx.count("known finding observed: " + key)
    ctx.obligation("oracle: every observation of the implementation satisfies the property (failures under a recorded key excepted)",
                   "oracle-on-implementation", not unknown,
                   "%d failing elements, %d of them under no recorded key; first: %s" %
                   (len(keyed), len(unknown), "; ".join("%d:%s" % (i, c) for i, c, _, _ in unknown[:4])))
    reported = set()
    for idx, cls, msg, _ in unknown:
        if cls in reported or len(reported) >= 6:
            continue
        reported.add(cls)
        small = shrink(strip(cases[idx]), cls)
        o2 = run_one(small)
        m2 = [m for k, m, kk in judge(small, o2) if k == cls and kk is None]
        if not m2:
            small, o2, m2 = strip(cases[idx]), obs[idx], [msg]
        ctx.violation("%s: %s" % (cls, m2[0]), {"case": small, "class": cls})
    for key in sorted({k for _, _, _, k in keyed if k is not None}):
        if ctx.known(key):
            ctx.report_known(key, ctx.known(key)["what"])
        else:
            i0 = [i for i, _, _, k in keyed if k == key][0]
            ctx.violation("failure classified under %s, which is not a recorded finding" % key, {"case": strip(cases[i0]), "class": key})
    allbad = sorted(i for l in bad.values() if l for i in l)
    if allbad:
        explained = {f[0] for f in fails}
        for i in allbad[:4]:
            ctx.log("model/implementation disagreement on case %d: %s" % (i, json.dumps(strip(cases[i]))[:600]))
        if not (set(allbad) <= explained):
            ctx.notes.append("model and implementation disagree on cases %s without an oracle failure" % allbad[:8])
        os.makedirs(os.path.join(core.ROOT, "replays", "C13"), exist_ok=True)
        with open(os.path.join(core.ROOT, "replays", "C13", "last_disagreement.json"), "w") as f:
            json.dump({"case": strip(cases[allbad[0]])}, f)


def replay(ctx, data):
    case = data.get("case")
    if case is None:
        print("replay file names no concrete input:", json.dumps(data)[:400])
        return 1
    o = run_one(case)
    msgs = [(k, m) for k, m, kk in judge(case, o)]
    print("case:", json.dumps(case)[:800])
    print("status:", o.get("status"), o.get("err", ""))
    if o.get("status") == "ok":
        r = o["res"]
        print("result: %d vertices, %d edges, %d faces%s" % (len(r["V"]), len(r.get("E", [])), len(r.get("F", [])),
                                                              (", %d cells" % len(r["C"])) if "C" in r else ""))
    for k, m in msgs:
        print("FAILS [%s]: %s" % (k, m))
    if not msgs:
        print("passes")
    return 1 if msgs else 0
