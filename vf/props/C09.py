"""C09 - shortest paths are valid edge paths of minimum length (mouette/processing/paths.py)."""
import copy
import json
import math
import os
import sys

from .. import core
from ..core import zlit, coq_list, zlist
from ..translate import c09 as tr

META = {
    "property_id": "C09",
    "design_ref": "DESIGN.md section 5, C09 (+ Appendix B2)",
    "technique": "Coq proof (Dijkstra with lazy deletion and re-pushes over an abstract priority-queue contract: "
                 "settled-set invariant, cut argument with non-negative weights, fuel bound, predecessor back-tracking, "
                 "virtual-sink reduction) + translator-regenerated weight selectors / relaxation test / shortcut plumbing "
                 "+ kernel-checked correspondence batches (optimal-set relation)",
    "level_text": "Machine-checked Coq theorems, for every finite mesh graph, every start/target choice and every "
                  "non-negative integer (= scaled dyadic) weight assignment, about an executable model of shortest_path, "
                  "shortest_path_to_vertex_set and shortest_path_to_border: the returned list is an edge path from the "
                  "start to the target whose weight is the minimum over all walks - for EACH requested target connected to the "
                  "start, the others getting the empty list (any collection of vertices; a single target as int or numpy "
                  "integer) -, the set query returns a nearest member "
                  "and a shortest path to it (also for one-element sets and with the start inside the set), the loop "
                  "bound of the model is never hit; the polyline exported with export_path_mesh (build_path, its guards, index "
                  "expressions and offset update regenerated from the source) has the path vertices in order, one edge per "
                  "consecutive pair of every path and no other edge, so each of its edges joins mesh-adjacent vertices; proved against the contract 'pop returns a minimum-key entry and "
                  "removes exactly it' under a representation invariant, which is proved both for a plain list queue and "
                  "for the heapq algorithm with PriorityItem.__lt__ as generated from priority_queue.py (the instance "
                  "that is executed in the correspondence). Weight selectors, relaxation comparison, sentinel and forwarded arguments are "
                  "regenerated from paths.py on every run; the hand-written loops are tied to the code by "
                  "kernel-evaluated correspondence batches on generated polylines, surfaces and volumes.",
    "level_note": "Trusted: Coq kernel + vm_compute; the paths.py translator; the correspondence harness (generators, "
                  "driver canonicalisation, mapping of dyadic float weights to integers by a common scale); that "
                  "mesh.connectivity.vertex_to_vertices agrees with mesh.edges (checked on every case, proved in C01/C03); "
                  "CPython's heapq is modelled from Lib/heapq.py (proofs copied from the C20 development); dict/list "
                  "semantics assumed. Proved vs tested: the theorems are about the model; the code's loops are tied to it by the "
                  "correspondence batches only; the Euclidean mode is proved for integer lengths (lattice meshes, "
                  "perfect-square squared lengths) and for any fixed non-negative dyadic length table. A set query none of "
                  "whose members is connected, a start that is not a vertex (incl. the sink id -1) and target ids that are "
                  "not vertices are outside the property (modelled and compared, not specified). Deliberately left free: the class and message of any exception; the behaviour on inputs the text "
                  "does not speak about (start or targets that are not vertices, empty target set, no border, a set none of "
                  "whose members is connected: refusal or any answer); what is stored for a target that is not connected "
                  "(entry or none, any value); which of several optimal paths / nearest members is returned, also between "
                  "two identical calls; the order of the returned dict; the container and scalar types of the answer; the "
                  "order, direction and numbering of the chains of the exported polyline; new attributes left on the mesh, "
                  "reordering of the caller's collections, warnings and log lines. Floating-point round-off is outside the theorems: the 'length' mode is exercised on lattice meshes "
                  "whose edge lengths are exact integers, and on general coordinates through the exact dyadic values of "
                  "the binary64 lengths with a 1e-9 relative tolerance on path weights. The exported polyline is proved for the model of "
                  "build_path and tied to the code by the correspondence (the vertex COORDINATES it copies are matched in the "
                  "harness); the absence of side effects on other queues is only tested by the oracle.",
}

HEADER = """From Coq Require Import ZArith List Bool.
Import ListNotations.
Require Import MV.C09.Gen MV.C09.Model.
Open Scope Z_scope.
"""
CASE_TYPE = "(mesh * wspec * list (query * obs) * list (list (list Z) * list Z * list (Z * Z)))"
DRIVER = "vf.impl.c09_driver"


def gen(ctx):
    return tr.gen()


# ---------------------------------------------------------------------- generators
def is_square(k):
    r = math.isqrt(k)
    return r * r == k


def d2(p, q):
    return sum((a - b) ** 2 for a, b in zip(p, q))


def permute(rng, V, elems):
    """random renumbering of the vertices"""
    n = len(V)
    perm = list(range(n))
    rng.shuffle(perm)
    V2 = [None] * n
    for i, p in enumerate(perm):
        V2[p] = V[i]
    return V2, [[[perm[i] for i in el] for el in els] if els else els for els in elems]


def gen_polyline(rng, exact):
    n = rng.choice([2, 3, 4, 5, 6, 8, 10, 12, 16, 20])
    pts = set()
    while len(pts) < n:
        pts.add((3 * rng.randint(0, 4), 4 * rng.randint(0, 4), 12 * rng.randint(0, 1)))
    V = [list(p) for p in pts]
    rng.shuffle(V)
    if n >= 3 and rng.random() < 0.2:
        # degenerate geometry, valid combinatorics: coincident vertices (zero-length edges in the Euclidean mode)
        for _ in range(rng.randint(1, max(1, n // 3))):
            V[rng.randrange(n)] = list(V[rng.randrange(n)])
    cand = [(a, b) for a in range(n) for b in range(a + 1, n) if (not exact) or is_square(d2(V[a], V[b]))]
    rng.shuffle(cand)
    dens = rng.choice([0.15, 0.3, 0.5, 0.8])
    join = rng.choice([0.9, 0.9, 0.6, 0.3])      # below 0.9: several components / isolated vertices are likely
    E = []
    # a random spanning structure first (so that most pairs are connected), then extra edges
    comp = list(range(n))

    def find(x):
        while comp[x] != x:
            x = comp[x]
        return x
    for a, b in cand:
        ra, rb = find(a), find(b)
        if ra != rb and rng.random() < join:
            comp[ra] = rb
            E.append([a, b] if rng.random() < 0.5 else [b, a])
        elif rng.random() < dens:
            E.append([a, b] if rng.random() < 0.5 else [b, a])
    if not E:
        return None
    rng.shuffle(E)
    return {"kind": "arrays", "V": V, "E": E, "F": None, "C": None}


def gen_grid_surface(rng, big=False):
    nu, nv = rng.randint(2, 6), rng.randint(2, 6)
    if big:
        nu, nv = rng.choice([(17, 16), (16, 17), (20, 14)])     # more than 256 vertices: ids beyond the small-int range
    style = rng.choice(["tri", "quad", "mixed"])
    V = [[3 * i, 4 * j, 0] for i in range(nu) for j in range(nv)]
    hole = None
    if nu >= 4 and nv >= 4 and rng.random() < 0.4:
        hole = (rng.randint(1, nu - 3), rng.randint(1, nv - 3))
    F = []
    for i in range(nu - 1):
        for j in range(nv - 1):
            if hole == (i, j):
                continue
            a, b, c, d = i * nv + j, (i + 1) * nv + j, (i + 1) * nv + j + 1, i * nv + j + 1
            tri = style == "tri" or (style == "mixed" and rng.random() < 0.5)
            if tri:
                if rng.random() < 0.5:
                    F += [[a, b, c], [a, c, d]]
                else:
                    F += [[a, b, d], [b, c, d]]
            else:
                F.append([a, b, c, d])
    V, (F,) = permute(rng, V, [F])
    rng.shuffle(F)
    F = [f[k:] + f[:k] for f in F for k in [rng.randrange(len(f))]]     # any rotation of a face is the same face
    kind = "arrays" if all(len(f) == len(F[0]) for f in F) else "raw"
    return {"kind": kind, "V": V, "E": None, "F": F, "C": None}


BRICK = (44, 117, 240)   # Euler brick: the three face diagonals are 125, 244, 267


def gen_closed_surface(rng):
    a, b, c = BRICK
    if rng.random() < 0.5:
        V = [[0, 0, 0], [a, 0, 0], [0, b, 0], [0, 0, c]]
        F = [[0, 2, 1], [0, 1, 3], [0, 3, 2], [1, 2, 3]]
    else:
        V = [[x, y, z] for x in (0, 3) for y in (0, 4) for z in (0, 12)]
        idx = lambda x, y, z: x * 4 + y * 2 + z
        F = [[idx(0, 0, 0), idx(0, 0, 1), idx(0, 1, 1), idx(0, 1, 0)], [idx(1, 0, 0), idx(1, 1, 0), idx(1, 1, 1), idx(1, 0, 1)],
             [idx(0, 0, 0), idx(1, 0, 0), idx(1, 0, 1), idx(0, 0, 1)], [idx(0, 1, 0), idx(0, 1, 1), idx(1, 1, 1), idx(1, 1, 0)],
             [idx(0, 0, 0), idx(0, 1, 0), idx(1, 1, 0), idx(1, 0, 0)], [idx(0, 0, 1), idx(1, 0, 1), idx(1, 1, 1), idx(0, 1, 1)]]
    V, (F,) = permute(rng, V, [F])
    return {"kind": "arrays", "V": V, "E": None, "F": F, "C": None}


def gen_volume(rng):
    """k Euler-brick boxes in a row, each split into 5 tetrahedra (alternating so that the mesh is conforming):
    only box edges and face diagonals occur, so every edge length is an integer"""
    k = rng.randint(1, 3)
    a, b, c = BRICK
    V = [[a * i, b * y, c * z] for i in range(k + 1) for y in (0, 1) for z in (0, 1)]
    vid = lambda i, y, z: i * 4 + y * 2 + z
    C = []
    for i in range(k):
        p = {(dx, y, z): vid(i + dx, y, z) for dx in (0, 1) for y in (0, 1) for z in (0, 1)}
        if i % 2 == 0:
            even = [(0, 0, 0), (1, 1, 0), (1, 0, 1), (0, 1, 1)]
        else:
            even = [(1, 0, 0), (0, 1, 0), (0, 0, 1), (1, 1, 1)]
        C.append([p[e] for e in even])
        for corner in p:
            if corner not in even:
                nb = [e for e in even if sum(abs(e[t] - corner[t]) for t in range(3)) == 1]
                C.append([p[corner]] + [p[e] for e in nb])
    V, (C,) = permute(rng, V, [C])
    return {"kind": "raw", "V": V, "E": None, "F": None, "C": C}


PROC = [
    ("unit_grid", lambda r: [r.randint(2, 5)] * 2, lambda r: {"triangulate": r.random() < 0.5}),
    ("torus", lambda r: [r.randint(3, 6), r.randint(3, 5)], lambda r: {"triangulate": r.random() < 0.5}),
    ("icosahedron", lambda r: [], lambda r: {}),
    ("octahedron", lambda r: [], lambda r: {}),
    ("dodecahedron", lambda r: [], lambda r: {}),
    ("sphere_uv", lambda r: [r.randint(2, 4), r.randint(3, 6)], lambda r: {}),
    ("cylinder", lambda r: [[0, 0, 0], [0, 0, 1]], lambda r: {"N": r.randint(3, 7), "fill_caps": r.random() < 0.5}),
    ("ring", lambda r: [r.randint(3, 8), 0.0], lambda r: {}),
    ("axis_aligned_cube", lambda r: [], lambda r: {"triangulate": r.random() < 0.5}),
]


def gen_proc(rng):
    name, fa, fk = rng.choice(PROC)
    return {"kind": "proc", "name": name, "args": fa(rng), "kwargs": fk(rng)}


def gen_case(rng):
    """One mesh + one weight mode; the queries are added once the mesh is known (gen_queries)."""
    mode = rng.choice(["one", "length", "length", "dict", "dict", "attr"])
    r = rng.random()
    exact = mode == "length"
    if r < 0.32:
        b = gen_polyline(rng, exact)
        if b is None:
            b = gen_grid_surface(rng)
    elif r < 0.60:
        b = gen_grid_surface(rng, big=rng.random() < 0.06)
    elif r < 0.66:
        b = gen_closed_surface(rng)
    elif r < 0.78:
        b = gen_volume(rng)
    else:
        b = gen_proc(rng)      # general coordinates: "length" is then checked by the oracle only, with a tolerance
    style = rng.choice(["small", "ties", "zeros", "dyadic", "spread"])
    npool = rng.randint(1, 40)
    if style == "small":
        pool, den = [rng.randint(1, 4) for _ in range(npool)], 1
    elif style == "ties":
        pool, den = [rng.choice([1, 1, 2]) for _ in range(npool)], 1
    elif style == "zeros":
        pool, den = [rng.choice([0, 0, 1, 2, 3]) for _ in range(npool)], 1
    elif style == "dyadic":
        pool, den = [rng.randint(0, 40) for _ in range(npool)], rng.choice([2, 4, 8])
    else:
        pool, den = [rng.randint(0, 10 ** 6) for _ in range(npool)], 1
    wrepr = "pyfloat"
    if mode == "dict":
        # the machine representation of the caller's weights: the answer depends on their VALUES only. Magnitudes are
        # chosen so that route sums leave the range of the small integer types (an accumulator of that type would wrap)
        # but stay exactly representable in the accumulator the code uses (binary64: < 2^53; binary32 weights: < 2^24)
        wrepr = rng.choice(["pyfloat", "pyint", "f64", "f32", "i8", "u8", "u8", "i16", "u16", "i32", "u32", "i64", "u64", "bool"])
        top = {"i8": 127, "u8": 255, "i16": 32767, "u16": 65535, "i32": 2 ** 31 - 1, "u32": 2 ** 32 - 1,
               "i64": 2 ** 40, "u64": 2 ** 40}.get(wrepr)
        if top is not None:
            style = "dtype-range"
            pool, den = [rng.choice([0, 1, rng.randint(1, top), rng.randint(top // 3, top), rng.randint(top // 2, top), top])
                         for _ in range(npool)], 1
        elif wrepr == "bool":
            style, pool, den = "bool", [rng.choice([0, 1, 1]) for _ in range(npool)], 1
        elif wrepr == "pyint":
            den = 1
        elif wrepr == "f32" and style == "spread":
            pool = [rng.randint(0, 10 ** 5) for _ in range(npool)]
    wexp = rng.choice([0, 0, 0, -40, 90, 127]) if (mode == "dict" and wrepr in ("pyfloat", "f64")) else 0
    # scale class: tiny / huge units (exactly representable scalings), for custom weights and for the coordinates of the
    # Euclidean mode alike: an absolute tolerance anywhere in the code shows at these scales
    cexp = 0
    if rng.random() < 0.22:
        ex = rng.choice([-30, -33, -36, -40, -40, 30])
        if mode == "dict":
            if wrepr not in ("pyfloat", "f64"):
                wrepr = rng.choice(["pyfloat", "f64"])
                if style in ("dtype-range", "bool"):
                    style = "small"
                    pool, den = [rng.randint(1, 4) for _ in range(npool)], 1
            wexp = ex
        elif mode == "attr":
            wexp = ex
        elif mode == "length" and b["kind"] in ("arrays", "raw"):
            cexp = ex
    case = {"build": b, "mode": mode, "wpool": pool, "wden": den, "unset": rng.choice([0, 0, 2, 3, 5]),
            "wstyle": style, "wrepr": wrepr, "wexp": wexp, "cexp": cexp, "queries": []}
    # session scenarios: the answers must depend on the current mesh and the arguments only
    if rng.random() < 0.3:
        case["ambient"] = [[[rng.randrange(0, 12), rng.choice(AMBIENT_PRIOS)] for _ in range(rng.randint(1, 4))]
                           for _ in range(rng.randint(1, 2))]
    if rng.random() < 0.35:
        case["pre"] = gen_pre(rng, b)
    return case


AMBIENT_PRIOS = [-2.0, -0.5, 0.0, 0.05, 0.1, 0.25, 1.0, 3.5]
ATTR_NAMES = ["length", "length", "weights", "weight", "one", "distance", "w", "d"]


def gen_pre(rng, b):
    """Steps played on the mesh before the queries: geometric attributes stored and then made stale by moving the
    vertices (the build coordinates become the OLD geometry, the model sees the new one), earlier queries, attributes
    with colliding names holding arbitrary values."""
    steps = []
    r = rng.random()
    if r < 0.6:
        steps.append({"op": "edge_length", "name": rng.choice(["length", "length", "length", "l"]),
                      "persistent": rng.random() < 0.85})
        if rng.random() < 0.6:
            steps.append({"op": "warm", "f": rng.choice(["sp", "set"]), "start": rng.randrange(50), "target": rng.randrange(50),
                          "weights": rng.choice(["length", "length", "one"])})
        sc = rng.choice([(1, 2, 3), (2, 1, 1), (1, 3, 1), (5, 1, 2)])
        if b["kind"] in ("arrays", "raw"):
            final = b["V"]
            b["V"] = [[p[0] * sc[0], p[1] * sc[1], p[2] * sc[2]] for p in final]
            steps.append({"op": "move", "V": final})
        else:
            steps.append({"op": "scale", "s": list(sc)})
    if r >= 0.45:
        for _ in range(rng.randint(1, 2)):
            steps.append({"op": "attr", "on": rng.choice(["edges", "edges", "vertices"]), "name": rng.choice(ATTR_NAMES),
                          "values": [rng.choice([0, 0.5, 1, 7, 100, 0.001]) for _ in range(rng.randint(1, 5))]})
    return steps


def reach(n, edges, s):
    adj = [[] for _ in range(n)]
    for a, b in edges:
        adj[a].append(b)
        adj[b].append(a)
    seen = {s}
    st = [s]
    while st:
        x = st.pop()
        for y in adj[x]:
            if y not in seen:
                seen.add(y)
                st.append(y)
    return seen


def gen_queries(rng, info, k):
    """Queries for a mesh whose shape (n, edges, border) is known. Mostly valid (connected pairs), a few malformed."""
    n, edges, border = info["n"], info["edges"], info["border"]
    qs = []
    for _ in range(k):
        s = rng.randrange(n)
        R = sorted(reach(n, edges, s))
        r = rng.random()
        export = rng.random() < 0.15
        pick = lambda m: [rng.choice(R) for _ in range(m)]
        others_all = [v for v in range(n) if v not in R]
        if others_all and rng.random() < 0.3:
            # several components: every connected pair keeps its answer when other requested targets are unconnected
            t = pick(rng.randint(1, 3)) + [rng.choice(others_all) for _ in range(rng.randint(1, 2))]
            rng.shuffle(t)
            q = {"f": rng.choice(["sp", "sp", "set"]), "start": s,
                 "targets": {"form": rng.choice(["list", "set", "nplist", "tuple"]), "v": t}, "export": export}
            qs.append(q)
            continue
        if r < 0.14:
            q = {"f": "sp", "start": s, "targets": {"form": rng.choice(["int", "npint"]), "v": rng.choice(R)}}
        elif r < 0.32:
            q = {"f": "sp", "start": s, "targets": {"form": rng.choice(["list", "set", "tuple", "nplist"]), "v": pick(rng.randint(1, 5))}}
        elif r < 0.38:
            q = {"f": "sp", "start": s, "targets": {"form": rng.choice(["list", "set"]), "v": pick(1)}}
        elif r < 0.43:
            q = {"f": "sp", "start": s, "targets": {"form": "list", "v": R if len(R) <= 12 else rng.sample(R, 12)}}
        elif r < 0.58:
            q = {"f": "set", "start": s, "targets": {"form": rng.choice(["list", "set", "tuple", "nplist", "frozenset"]), "v": pick(rng.randint(2, 5))}}
        elif r < 0.70:
            q = {"f": "set", "start": s, "targets": {"form": rng.choice(["list", "set", "tuple", "nplist"]), "v": pick(1)}}
        elif r < 0.78:
            t = pick(rng.randint(1, 3)) + [s]
            rng.shuffle(t)
            q = {"f": "set", "start": s, "targets": {"form": rng.choice(["list", "set"]), "v": t}}
        elif r < 0.81:
            q = {"f": "set", "start": s, "targets": {"form": "list", "v": [s]}}
        elif r < 0.86:
            # mixed reachability (each connected pair keeps its answer) and the malformed stream
            others = [v for v in range(n) if v not in R]
            w = rng.random()
            if others and w < 0.45:
                t = pick(rng.randint(1, 3)) + [rng.choice(others) for _ in range(rng.randint(1, 2))]
                rng.shuffle(t)
                q = {"f": "sp", "start": s, "targets": {"form": rng.choice(["list", "set", "nplist"]), "v": t}}
            elif others and w < 0.65:
                t = pick(rng.randint(1, 2)) + [rng.choice(others)]
                rng.shuffle(t)
                q = {"f": "set", "start": s, "targets": {"form": rng.choice(["list", "set"]), "v": t}}
            elif others and w < 0.75:
                q = {"f": "sp", "start": s, "targets": {"form": rng.choice(["list", "int", "npint"]), "v": rng.choice(others)}}
                if q["targets"]["form"] == "list":
                    q["targets"]["v"] = [q["targets"]["v"]]
            elif w < 0.75:
                q = {"f": "sp", "start": s, "targets": {"form": rng.choice(["list", "set", "tuple"]), "v": pick(rng.randint(2, 6))}}
            elif w < 0.85:
                q = {"f": "set", "start": s, "targets": {"form": rng.choice(["list", "set"]), "v": []}}
            elif w < 0.93:
                q = {"f": "set", "start": -1, "targets": {"form": "list", "v": pick(rng.randint(1, 3))}}   # the sink id as start
            else:
                q = {"f": "sp", "start": s, "targets": {"form": "list", "v": pick(1) + [n + rng.randint(0, 3)]}}  # not a vertex
        elif border is not None and (border or rng.random() < 0.15):
            q = {"f": "border", "start": s}
        else:
            q = {"f": "set", "start": s, "targets": {"form": "list", "v": pick(rng.randint(2, 4))}}
        q["export"] = export
        qs.append(q)
    for q in qs:
        decorate_query(rng, q, n)
    return qs


LISTLIKE = ["list", "tuple", "nplist", "np32list", "nparray", "gen", "iter", "keys"]


def decorate_query(rng, q, n):
    """call form, numeric type of the start, other representations of the target collection, vertex 0 in a key role,
    repetition after vandalising the first answer"""
    if 0 <= q["start"] < n:
        if rng.random() < 0.12 and q["f"] != "border":
            q["start"] = 0                                   # index 0 as the start ...
        q["startform"] = rng.choice(["int", "int", "np64", "np32", "u8"])
        if q["startform"] == "u8" and q["start"] > 255:
            q["startform"] = "np64"
    tg = q.get("targets")
    if tg and isinstance(tg["v"], list) and tg["v"] and all(0 <= t < n for t in tg["v"]):
        if rng.random() < 0.12 and q["start"] != 0:
            tg["v"][rng.randrange(len(tg["v"]))] = 0         # ... or among the targets (possibly the nearest one)
        if tg["form"] in ("list", "tuple", "nplist") and rng.random() < 0.45:
            tg["form"] = rng.choice(LISTLIKE)
        if tg["form"] == "list" and rng.random() < 0.1 and max(tg["v"]) < 256:
            tg["form"] = "u8list"
    q["call"] = rng.choice(["pos", "pos", "kw", "omit"])
    q["repeat"] = rng.random() < 0.25



# ---------------------------------------------------------------------- what the model is told
def model_targets(spec):
    form, v = spec["form"], spec["v"]
    if form in ("int", "npint"):
        return [v]
    if form in ("set", "frozenset"):
        return list(set(v))          # the collection the code sees has no duplicates
    if form == "keys":
        return list(dict.fromkeys(v))
    return list(v)


def edge_weights(case, info):
    """integer weight of each edge in the model's unit (None if the mode has no exact integer weights)"""
    mode = case["mode"]
    if mode == "one":
        return [1] * len(info["edges"])
    if mode == "length":
        P = info["coords"]
        out = []
        for a, b in info["edges"]:
            if any(c != int(c) for c in P[a] + P[b]):
                return None
            k = d2([int(c) for c in P[a]], [int(c) for c in P[b]])
            if not is_square(k):
                return None
            out.append(math.isqrt(k))
        return out
    pool = case["wpool"]
    w = [pool[e % len(pool)] for e in range(len(info["edges"]))]
    if mode == "attr" and case.get("unset"):
        w = [0 if e % case["unset"] == 0 else x for e, x in enumerate(w)]
    return w


FLOAT_SCALE = 80     # binary64 lengths (exact dyadics) are handed to Coq as integer multiples of 2^-80


def float_scaled(info):
    from fractions import Fraction
    out = []
    for L in float_lengths(info):
        fr = Fraction(L) * (1 << FLOAT_SCALE)
        if fr.denominator != 1:
            return None          # a length below 2^-27: not produced by the generators
        out.append(int(fr))
    return out


def ws_term(case, info):
    mode = case["mode"]
    if mode == "one":
        return "WOne"
    if mode == "length" and edge_weights(case, info) is None:
        return "(WFloat %s)" % zlist(float_scaled(info))     # general coordinates: tolerance relation
    if mode == "length":
        return "(WLength %s)" % coq_list(["(%s, %s, %s)" % tuple(zlit(int(c)) for c in p) for p in info["coords"]])
    return "(WCustom %s)" % zlist(edge_weights(case, info))


def obs_term(o):
    k = o[0]
    if k == "paths":     # an entry that is not a vertex list is free for an unconnected target, condemned by the oracle otherwise
        return "(OPaths %s)" % coq_list(["(%s, %s)" % (zlit(t), zlist(p)) for t, p in o[1] if p is not None])
    if k == "set":
        return "(OSet %s %s)" % (zlit(o[1]), zlist(o[2]))
    if k == "border":
        return "(OBorder %s)" % zlist(o[1])
    return "ORefused" if k == "refused" else "OOther"


def query_term(q):
    if q["f"] == "sp" and q["targets"]["form"] in ("int", "npint"):
        return "(QPath1 %s %s %s)" % (zlit(q["start"]), "TPy" if q["targets"]["form"] == "int" else "TNp", zlit(q["targets"]["v"]))
    if q["f"] == "sp":
        return "(QPath %s %s)" % (zlit(q["start"]), zlist(model_targets(q["targets"])))
    if q["f"] == "set":
        return "(QSet %s %s)" % (zlit(q["start"]), zlist(model_targets(q["targets"])))
    return "(QBorder %s)" % zlit(q["start"])


def case_term(case, info):
    m = "(mkmesh %s %s %s %s)" % (zlit(info["n"]), coq_list(["(%s, %s)" % (zlit(a), zlit(b)) for a, b in info["edges"]]),
                                  coq_list([zlist(l) for l in info["adj"]]), zlist(info["border"] or []))
    qs = coq_list(["(%s, %s)" % (query_term(q), obs_term(o)) for q, o in zip(case["queries"], info["obs"])])
    pls = coq_list([t for t in (polyline_term(info, o) for o in info["obs"]) if t])
    return "(%s, %s, %s, %s)" % (m, ws_term(case, info), qs, pls)


def polyline_term(info, o):
    """an exported polyline for the model of build_path: the paths handed to it (values of the returned dict, in its order),
    the mesh vertex each polyline vertex copies (found through the coordinates, -1 if none fits), its edges"""
    if o[0] == "paths" and len(o) > 2:
        paths, pl = [p for _, p in o[1]], o[2]
    elif o[0] == "set" and len(o) > 3:
        paths, pl = [o[2]], o[3]
    elif o[0] == "border" and len(o) > 2:
        paths, pl = [o[1]], o[2]
    else:
        return None
    if any(p is None for p in paths):
        return None
    P = info["coords"]
    flat = [v for p in paths for v in p]
    ids = []
    for j, c in enumerate(pl["vertices"]):
        if j < len(flat) and 0 <= flat[j] < len(P) and P[flat[j]] == c:
            ids.append(flat[j])
        else:
            ids.append(next((v for v in range(len(P)) if P[v] == c), -1))
    return "(%s, %s, %s)" % (coq_list([zlist(p) for p in paths]), zlist(ids),
                             coq_list(["(%s, %s)" % (zlit(a), zlit(b)) for a, b in pl["edges"]]))


# ---------------------------------------------------------------------- independent oracle (property restated)
def bellman_ford(n, edges, w, s):
    INF = None
    d = [INF] * n
    d[s] = 0
    for _ in range(n):
        ch = False
        for (a, b), x in zip(edges, w):
            for u, v in ((a, b), (b, a)):
                if d[u] is not None and (d[v] is None or d[u] + x < d[v]):
                    d[v] = d[u] + x
                    ch = True
        if not ch:
            break
    return d


def path_problem(info, wmap, s, t, p):
    if not p:
        return "empty path"
    if p[0] != s:
        return "path %s does not begin at the start %d" % (p, s)
    if p[-1] != t:
        return "path %s does not end at the target %d" % (p, t)
    for a, b in zip(p, p[1:]):
        if (min(a, b), max(a, b)) not in wmap:
            return "path %s steps from %d to %d which is not a mesh edge" % (p, a, b)
    return None


def path_weight(wmap, p):
    return sum(wmap[(min(a, b), max(a, b))] for a, b in zip(p, p[1:]))


def polyline_problem(info, paths, pl):
    """the exported polyline draws the returned paths: as a graph it is a disjoint union of chains, one per path, whose
    vertex coordinates are those of the path in order (which chain comes first, its direction and the vertex numbering are free)"""
    if pl is None:
        return None
    P = info["coords"]
    nv = len(pl["vertices"])
    adj = [[] for _ in range(nv)]
    for a, b2 in pl["edges"]:
        if not (0 <= a < nv and 0 <= b2 < nv) or a == b2:
            return "exported polyline has an ill-formed edge (%s, %s)" % (a, b2)
        adj[a].append(b2)
        adj[b2].append(a)
    if any(len(x) > 2 for x in adj):
        return "exported polyline is not a union of chains"
    seen, chains = set(), []
    for v0 in [v for v in range(nv) if len(adj[v]) <= 1] + list(range(nv)):
        if v0 in seen:
            continue
        ch, prev, cur = [], None, v0
        while cur is not None and cur not in seen:
            seen.add(cur)
            ch.append(cur)
            nxt = [x for x in adj[cur] if x != prev]
            prev, cur = cur, (nxt[0] if nxt else None)
        if cur is not None and len(ch) > 2 and cur == v0:
            return "exported polyline contains a closed loop"
        chains.append([tuple(pl["vertices"][v]) for v in ch])

    def canon(seq):
        return min(tuple(seq), tuple(reversed(seq)))
    want = sorted(canon([tuple(P[v]) for v in p]) for p in paths if p)
    got = sorted(canon(c) for c in chains)
    if got != want:
        return "exported polyline does not draw the returned paths (chains %s, paths %s)" % (str(got)[:160], str(want)[:160])
    return None


def float_lengths(info):
    P = info["coords"]
    return [math.dist(P[a], P[b]) for a, b in info["edges"]]


def same_weight(a, b, exact):
    return a == b if exact else abs(a - b) <= 1e-9 * (1 + abs(b))


def oracle_query(case, info, q, o):
    """None, or a sentence saying how the observed answer violates the property."""
    n, edges = info["n"], info["edges"]
    w = edge_weights(case, info)
    exact = w is not None
    if not exact:
        w = float_lengths(info)      # "length" on general coordinates: binary64 sums, compared with a tolerance
    s = q["start"]
    wmap = {}
    for (a, b), x in zip(edges, w):
        wmap[(min(a, b), max(a, b))] = x     # edges of a mesh are distinct
    d = bellman_ford(n, edges, w, s)
    if q["f"] == "sp":
        T = sorted(set(model_targets(q["targets"])))
        if s < 0 or s >= n or any(t < 0 or t >= n for t in T):
            return None                      # not vertices: the property says nothing
        if o[0] != "paths":
            return "shortest_path(start=%d, targets=%s, weights=%s) answered %s" % (s, q["targets"], case["mode"], o[:2])
        got = dict((t, p) for t, p in o[1])
        if not set(got) <= set(T) or any(t not in got for t in T if d[t] is not None):
            return "returned keys %s, requested targets %s" % (sorted(got), T)
        for t in T:
            if d[t] is None:                 # not a connected pair: what is stored for it is free
                continue
            if got[t] is None:
                return "target %d is connected to %d but its entry is not a vertex list" % (t, s)
            m = path_problem(info, wmap, s, t, got[t])
            if m:
                return m
            if not same_weight(path_weight(wmap, got[t]), d[t], exact):
                return "path %s to %d has weight %s, the minimum is %s" % (got[t], t, path_weight(wmap, got[t]), d[t])
        return polyline_problem(info, [p for t, p in o[1] if p and d[t] is not None], o[2] if len(o) > 2 else None)
    if q["f"] == "set":
        T = sorted(set(model_targets(q["targets"])))
        kind = "shortest_path_to_vertex_set"
    else:
        T = sorted(set(info["border"] or []))
        kind = "shortest_path_to_border"
    if s < 0 or s >= n or not T or any(t < 0 or t >= n for t in T):
        return None
    R = [t for t in T if d[t] is not None]
    if not R:
        return None                          # no member is connected to the start: the property says nothing
    best = min(d[t] for t in R)
    if q["f"] == "set":
        if o[0] != "set":
            return "%s(start=%d, targets=%s, weights=%s) answered %s" % (kind, s, q["targets"], case["mode"], o[:2])
        ind, p = o[1], o[2]
        pl = o[3] if len(o) > 3 else None
    else:
        if o[0] != "border":
            return "%s(start=%d, weights=%s) answered %s" % (kind, s, case["mode"], o[:2])
        p = o[1]
        ind = p[-1] if p else None
        pl = o[2] if len(o) > 2 else None
    if ind not in T:
        return "%s: the returned end %s is not a member of the set %s" % (kind, ind, T)
    m = path_problem(info, wmap, s, ind, p)
    if m:
        return kind + ": " + m
    if not same_weight(path_weight(wmap, p), best, exact):
        return "%s: path %s has weight %s but the nearest member is at %s" % (kind, p, path_weight(wmap, p), best)
    return polyline_problem(info, [p], pl)


def ambient_problem(case, info, qi):
    """the other priority queues of the session must hold exactly what was pushed into them"""
    amb = case.get("ambient")
    if not amb:
        return None
    want = [sorted(([float(p), x] for x, p in items), key=lambda t: (t[0], repr(t[1]))) for items in amb]
    got = info.get("ambient_after", [])
    got = got[qi] if qi < len(got) else None
    if got != want:
        return ("side effect on other objects: the session's other PriorityQueue objects held %s before the call and hold %s "
                "after it" % (want, got))
    return None


def extras_problem(case, info, qi):
    """the same call repeated (after the caller modified the first answer in place) must again satisfy the property;
    it need not be the same answer. New attributes on the mesh / reordered argument collections are left free (counted)."""
    ex = (info.get("extras") or [])
    ex = ex[qi] if qi < len(ex) else {}
    if ex.get("repeat") is not None:
        m = oracle_query(case, info, case["queries"][qi], ex["repeat"])
        if m:
            return "repeated call (the first answer had been modified in place by the caller): " + m
    return None


def judge(case, info, qi):
    q, o = case["queries"][qi], info["obs"][qi]
    return oracle_query(case, info, q, o) or ambient_problem(case, info, qi) or extras_problem(case, info, qi)


def category(msg):
    """which clause of the property the oracle's sentence is about"""
    for pat, cat in (("repeated call", "repeated-call"), ("side effect", "side-effect"), ("polyline", "polyline"), ("not a mesh edge", "not-an-edge-path"),
                     ("does not begin", "wrong-start"), ("does not end", "wrong-end"), ("is not a member", "end-not-in-set"),
                     ("the minimum is", "not-minimal"), ("nearest member is at", "not-nearest"), ("not connected", "unconnected-target"),
                     ("returned keys", "wrong-keys"), ("answered", "no-answer")):
        if pat in (msg or ""):
            return cat
    return "other"


def classify(case, q, o, msg=None):
    """failure class = call site / weight mode / target form / export / answer kind (+ exception text) / violated clause /
    session scenario: specific enough that a recorded finding masks nothing else"""
    scen = ("+ambient" if case.get("ambient") else "") + ("+pre" if case.get("pre") else "")
    detail = ""
    if o[0] in ("refused", "other", "timeout") and len(o) > 1:
        detail = ":" + str(o[1])[:48]
    return "%s/%s%s/%s%s" % (classify_core(case, q, o), q.get("targets", {}).get("form", "-"), detail, category(msg), scen)


def classify_core(case, q, o):
    form = q.get("targets", {}).get("form", "-")
    single = q["f"] == "set" and len(model_targets(q["targets"])) == 1
    return "%s/%s/%s/%s" % (q["f"] + ("-single" if single else ""), case["mode"] if case["mode"] in ("one", "length") else "custom",
                            "export" if q.get("export") else "plain", o[0])


# ---------------------------------------------------------------------- running the implementation
def run_driver(cases, timeout=600):
    nsh = max(1, min(core.NCPU, len(cases) // 8))
    payloads = [{"cases": cases[i::nsh]} for i in range(nsh)]
    res = core.run_impl_parallel(DRIVER, payloads, timeout=timeout)
    out = [None] * len(cases)
    for i, r in enumerate(res):
        for j, x in zip(range(i, len(cases), nsh), r["cases"]):
            out[j] = x
    return out


def fails_single(case, qi):
    """re-run one query of a case on the implementation; returns (info, message|None)"""
    c = dict(case, queries=[case["queries"][qi]])
    inf = core.run_impl(DRIVER, {"cases": [c]}, timeout=120)["cases"][0]
    if "error" in inf:
        return inf, None
    return inf, judge(c, inf, 0)


def shrink(case, qi, budget=20):
    """keep only the failing query, then drop mesh elements while the oracle still fails"""
    cur = dict(copy.deepcopy(case), queries=[case["queries"][qi]])
    b = cur["build"]
    inf0, m0 = fails_single(cur, 0)
    if not m0:
        return cur
    want = classify_core(cur, cur["queries"][0], inf0["obs"][0])     # only accept reductions failing the same way
    if inf0["obs"][0][0] == "timeout":
        budget = min(budget, 6)

    def still(cand):
        try:
            inf, m = fails_single(cand, 0)
        except Exception:  # noqa
            return False
        return bool(m) and classify_core(cand, cand["queries"][0], inf["obs"][0]) == want
    # scenario parts that are not needed for the failure go first
    if cur.get("ambient"):
        cand = dict(cur)
        cand.pop("ambient")
        if still(cand):
            cur = cand
        elif len(cur["ambient"]) > 1:
            for k in range(len(cur["ambient"])):
                cand = dict(cur, ambient=[cur["ambient"][k]])
                if still(cand):
                    cur = cand
                    break
    if cur.get("pre"):
        i = 0
        while i < len(cur["pre"]):
            if cur["pre"][i]["op"] == "move":        # the move defines the geometry the case is about
                i += 1
                continue
            cand = dict(cur, pre=cur["pre"][:i] + cur["pre"][i + 1:])
            if still(cand):
                cur = cand
            else:
                i += 1
    b = cur["build"]
    msg0 = inf0["obs"][0][1:]
    if b["kind"] not in ("arrays", "raw"):
        return cur
    key = "C" if b.get("C") else ("F" if b.get("F") else "E")
    if b["kind"] == "arrays" and key != "E":
        return cur       # element removal may change the mesh class; keep it
    i = 0
    while budget > 0 and i < len(b[key]) and len(b[key]) > 1:
        cand = copy.deepcopy(cur)
        del cand["build"][key][i]
        budget -= 1
        try:
            inf, m = fails_single(cand, 0)
        except Exception:
            inf, m = None, None
        if m and classify_core(cand, cand["queries"][0], inf["obs"][0]) == want \
                and (inf["obs"][0][0] in ("paths", "set", "border") or inf["obs"][0][1:] == msg0):
            cur, b = cand, cand["build"]
        else:
            i += 1
    return cur


# ---------------------------------------------------------------------- the check
def run(ctx):
    quick = ctx.tier == "quick"
    n_cases = 200 if quick else 3400
    k_queries = 5 if quick else 6
    ctx.rule = ("meshes: lattice polylines (2-20 vertices, possibly disconnected), 3-4-5 grid surfaces (tri/quad/mixed, "
                "optional hole), closed Euler-brick tetrahedron / box surface, 5-tet Euler-brick volume rows, mouette.procedural "
                "surfaces; random vertex renumbering; modes one / length (exact integer lengths) / dict / Attribute (with unset "
                "entries) with small, tied, zero, dyadic and spread weights; dict weights given as python int/float/bool, np.float32/64, "
                "np.int8..64, np.uint8..64 with magnitudes whose route sums leave the small types' ranges; queries: single int, list/set/tuple/np.int64 list, "
                "one-element collections, all reachable vertices, vertex sets (also containing the start, one-element, "
                "duplicates), border, a few malformed (empty set, other component); 15% with export_path_mesh; session scenarios: "
                "other PriorityQueue objects alive with pending items (their content must be unchanged afterwards), stored "
                "edge-length attributes made stale by moving the vertices, earlier queries, attributes with colliding names; every "
                "query in one of the call forms positional / keyword / optional arguments omitted, start as int / np.int64 / "
                "np.int32 / np.uint8, target collections also as np.int32 / np.uint8 lists, numpy arrays, generators, iterators "
                "and dict key views, vertex 0 forced into the start or target role in a fraction, 25% repeated after the first "
                "answer was modified in place (same answer expected), attribute names of the mesh, the weights dict and the "
                "target collection compared before/after each call; a few grids with more than 256 vertices, coincident "
                "vertices, faces in any rotation, float weights scaled by 2^-40 .. 2^127. "
                "Non-trivial = some returned path has >= 3 vertices; distinct = by canonical JSON of mesh+weights+queries")
    ctx.assumptions += ["path sums stay exactly representable in the float accumulator (below 2^53; below 2^24 when the weights "
                        "are np.float32): the model adds the VALUES of the weights exactly",
                        "weights are non-negative and dyadic: mapped to integers by a common scale (the theorems are over Z)",
                        "vertex_to_vertices(v) lists exactly the other ends of the mesh edges at v (checked per case: adj_ok)",
                        "'length' mode: lattice meshes whose edge lengths are exact integers (checked per case: weights_ok)"]
    ctx.regen(sys.modules[__name__])
    b = ctx.build_props()
    ctx.hygiene(["Lib", "C09"])

    corpus = []
    cdir = os.path.join(core.ROOT, "corpus", "C09")
    if os.path.isdir(cdir):
        for f in sorted(os.listdir(cdir)):
            if f.endswith(".json"):
                corpus.append(json.load(open(os.path.join(cdir, f))))
    fresh = []
    for _ in range(n_cases):
        c = gen_case(ctx.rng)
        c["qseed"] = ctx.rng.getrandbits(48)     # the driver draws the queries once it knows the mesh (gen_queries)
        c["k"] = k_queries
        fresh.append(c)
    cases = [c for c in corpus if c.get("queries")] + fresh
    infos = run_driver(cases)
    ok_cases, ok_infos = [], []
    n_generated, n_err, n_empty = len(cases), 0, 0
    for c, inf in zip(cases, infos):
        if "error" in inf:
            n_err += 1
            ctx.count("DROPPED: mesh could not be built / driver error: " + (c["build"].get("name") or c["build"]["kind"]))
            if n_err <= 5:
                ctx.log("driver error:", inf["error"])
            continue
        if not inf["queries"]:
            n_empty += 1
            ctx.count("DROPPED: mesh without edges (no query possible)")
            continue
        c["queries"] = inf["queries"]
        c.pop("qseed", None)
        c.pop("k", None)
        ok_cases.append(c)
        ok_infos.append(inf)
    cases, infos = ok_cases, ok_infos
    ctx.log("%d meshes, %d queries" % (len(cases), sum(len(c["queries"]) for c in cases)))

    fails = []
    for ci, (c, inf) in enumerate(zip(cases, infos)):
        ctx.count("mesh " + inf["type"])
        ctx.count("build " + (c["build"].get("name") or c["build"]["kind"]))
        ctx.count("mode " + c["mode"])
        if c.get("wexp") or c.get("cexp"):
            ctx.count("scale class: %s scaled by 2^%d" % ("weights" if c.get("wexp") else "coordinates", c.get("wexp") or c.get("cexp")))
        if c["mode"] == "dict":
            ctx.count("custom weights given as " + c.get("wrepr", "pyfloat"))
        ctx.count("vertices<=%d" % (10 * ((inf["n"] + 9) // 10)))
        if c.get("ambient"):
            ctx.count("scenario: other PriorityQueue objects alive with pending items")
        for st in c.get("pre") or []:
            ctx.count("scenario step " + st["op"] + ((" " + st["name"]) if st["op"] == "attr" else ""))
        for pe in inf.get("pre_errors") or []:
            ctx.count("scenario step failed: " + pe[0])
        longest = 0
        for qi, (q, o) in enumerate(zip(c["queries"], inf["obs"])):
            ctx.count("query %s %s" % (q["f"], q.get("targets", {}).get("form", "")))
            ctx.count("answer " + o[0])
            ctx.count("call form " + q.get("call", "pos"))
            ctx.count("start given as " + q.get("startform", "int"))
            if q.get("repeat"):
                ctx.count("query repeated after vandalising the first answer")
            exi = (inf.get("extras") or [{}] * (qi + 1))[qi] if qi < len(inf.get("extras") or []) else {}
            for flag in ("attrs_changed", "weights_mutated", "targets_mutated"):
                if exi.get(flag):
                    ctx.count("free behaviour observed: " + flag)
            if q["start"] == 0 or ("targets" in q and 0 in model_targets(q["targets"])):
                ctx.count("vertex 0 is the start or a target")
            if q["f"] == "set" and len(model_targets(q["targets"])) == 1:
                ctx.count("set query with one target")
            if q["f"] == "set" and q["start"] in q["targets"]["v"]:
                ctx.count("set query containing the start")
            if q["f"] in ("sp", "set") and 0 <= q["start"] < inf["n"]:
                comp = reach(inf["n"], inf["edges"], q["start"])
                tl = model_targets(q["targets"])
                if tl and all(0 <= t < inf["n"] for t in tl) and any(t not in comp for t in tl):
                    ctx.count("%s query with an unconnected target%s" % (q["f"], " among connected ones" if any(t in comp for t in tl) else ""))
            if o[0] == "paths":
                longest = max([longest] + [len(p) for _, p in o[1]])
            elif o[0] == "set":
                longest = max(longest, len(o[2]))
            elif o[0] == "border":
                longest = max(longest, len(o[1]))
            m = judge(c, inf, qi)
            if m:
                fails.append((ci, qi, m))
        ctx.case_seen([c["build"], c["mode"], c["wpool"], c["wden"], c["unset"], c.get("wrepr"), c["queries"], c.get("ambient"),
                       c.get("pre")],
                      nontrivial=longest >= 3,
                      sample={"mesh": inf["type"], "n": inf["n"], "edges": inf["edges"][:8], "mode": c["mode"],
                              "query": c["queries"][0], "observed": inf["obs"][0][:3]})
    # every failing element is classified; the verdict of the oracle obligation is the real one
    keyed = [(classify(cases[ci], cases[ci]["queries"][qi], infos[ci]["obs"][qi], msg), ci, qi, msg) for ci, qi, msg in fails]
    unknown = [k for k in keyed if not ctx.known(k[0])]
    ctx.obligation("oracle: every returned path is an edge path start->target of minimum weight (Bellman-Ford), set queries end "
                   "at a nearest member, unconnected targets get the empty path, other queues are untouched",
                   "oracle-on-implementation", not unknown,
                   "%d failing queries (%d in listed known-finding classes); classes: %s"
                   % (len(fails), len(keyed) - len(unknown), sorted(set(k[0] for k in keyed))[:12]))

    bad = []
    # "length" on general coordinates enters the correspondence through WFloat (exact dyadic lengths, answers compared
    # with the relative tolerance 1e-9); only a mesh with a degenerate (sub-2^-27) length would be left to the oracle
    cidx = [i for i, (c, inf) in enumerate(zip(cases, infos))
            if edge_weights(c, inf) is not None or float_scaled(inf) is not None]
    ctx.count("cases in the kernel-checked correspondence", len(cidx))
    ctx.count("of which length mode on general coordinates (tolerance relation)",
              sum(1 for i in cidx if edge_weights(cases[i], infos[i]) is None))
    ctx.count("cases judged by the oracle only", len(cases) - len(cidx))
    n_timeout = sum(1 for inf in infos for o in inf["obs"] if o[0] == "timeout")
    dropped = n_err + (len(cases) - len(cidx))
    harness_ok = ctx.evaluations > 0 and len(cidx) > 0 and dropped <= max(2, 0.03 * n_generated) \
        and n_empty <= 0.10 * n_generated
    ctx.obligation("harness: generated cases were evaluated (driver errors, unencodable cases and empty meshes within bounds)",
                   "harness", harness_ok,
                   "%d generated, %d evaluated, %d in the Coq batch, %d driver errors, %d without edges, %d query time-outs"
                   % (n_generated, ctx.evaluations, len(cidx), n_err, n_empty, n_timeout))
    if b["model_ok"]:
        bad = ctx.run_cases("paths", HEADER, [case_term(cases[i], infos[i]) for i in cidx], "check_case",
                            case_type=CASE_TYPE, shard=(12 if quick else 60))
        bad = [cidx[i] for i in (bad or [])]
    else:
        ctx.obligation("correspondence batches", "correspondence", False, "model does not compile")

    reported = set()
    n_shrunk = 0
    for key, ci, qi, msg in unknown + [k for k in keyed if ctx.known(k[0])]:      # unknown classes first
        c, inf = cases[ci], infos[ci]
        if key in reported:
            continue
        reported.add(key)
        if ctx.known(key):
            ctx.report_known(key, ctx.known(key)["what"])
            continue
        n_shrunk += 1
        if n_shrunk > 10:        # further classes are reported unshrunk (bounded run time)
            ctx.violation("shortest paths: " + msg, {"case": dict(c, queries=[c["queries"][qi]]), "observed": [inf["obs"][qi]],
                                                     "class": key}, key=key)
            continue
        try:
            small = shrink(c, qi)
            inf2, m2 = fails_single(small, 0)
        except Exception as ex:  # noqa
            small, inf2, m2 = dict(c, queries=[c["queries"][qi]]), inf, None
        ctx.violation("shortest paths: " + (m2 or msg), {"case": small, "observed": (inf2 or {}).get("obs"), "class": key}, key=key)
    if bad and not fails:
        ctx.notes.append("model and implementation disagree on cases %s although the oracle accepts the implementation's answers" % bad[:6])
        for i in bad[:3]:
            ctx.log("disagreement on case", i, json.dumps(cases[i])[:600], json.dumps(infos[i]["obs"])[:600])


def replay(ctx, data):
    case = data.get("case")
    if not case:
        print("replay file names no concrete input:", json.dumps(data)[:400])
        return 1
    inf = core.run_impl(DRIVER, {"cases": [case]}, timeout=120)["cases"][0]
    if "error" in inf:
        print("driver error:", inf["error"])
        return 1
    rc = 0
    for qi, (q, o) in enumerate(zip(case["queries"], inf["obs"])):
        m = judge(case, inf, qi)
        print("query:", json.dumps(q))
        print("observed:", json.dumps(o)[:600])
        print("FAILS: " + m if m else "passes")
        rc |= 1 if m else 0
    return rc
