"""C07 - geometric quantities match their definitions, invariant under rigid motion; angle sums and Gauss-Bonnet;
interpolation of constants."""
import json
import math
import os
import random
import sys
import time
from fractions import Fraction as Fr

from .. import core
from ..core import zlit, coq_list, zlist, coq_bool
from ..translate import c07 as tr
from ..impl import c07_gen as G

META = {
    "property_id": "C07",
    "design_ref": "DESIGN.md section 5, C07 (+ Appendix B7)",
    "technique": "Coq proof over R of ONE model of every quantity, parametric in a bare operations record, whose formulas "
                 "(cross, norm, distance, triangle/quad/n-gon area, cotangent, angle pair, Sarrus determinant, face basis, "
                 "circumcentre, /2 and /6, corner index arithmetic first+3-iA-iB, border constants 2pi/pi/0, every weighting "
                 "formula of interpolate.py, the means of glob.py) are regenerated from geometry.py / attributes/*.py by a "
                 "fail-closed translator on every run; the same definitions are executed in exact rationals and in binary64 "
                 "inside Coq against the real library on generated meshes (kernel-checked batches); an independent Python "
                 "oracle (fractions/math) restates the textbook definitions, invariance inside families of transformed "
                 "meshes, angle sums, Gauss-Bonnet and constant preservation on the implementation's outputs",
    "level_text": "Machine-checked, unbounded theorems over R about the model (Props.v). PROVED: C07_definitions (every "
                  "geometry formula = its textbook expression; textbook areas of planar CONVEX quads (|AC x BD|/2) and n-gons "
                  "(shoelace vector area), hypotheses convex_quad / convex_fan visible; means with divisor and clamp, total area, "
                  "barycentres, degree, unit vertex normals, per-vertex angle defect, mesh-level cotangent weight), "
                  "C07_rigid_invariance (every rotation matrix + translation, every well-formed mesh, all attributes incl. "
                  "circumcentres), C07_scaling (every formula and every attribute of the scaled mesh, circumcentres and the "
                  "relative parallelism guard included), C07_angle_sum (pairs compose to (-1,0) and atan2 of them sums to PI), "
                  "C07_gauss_bonnet (every triangulation satisfying an explicit boolean-checkable manifold condition), "
                  "C07_interpolate_constant (all six functions), C07_interpolation_average (vertices->faces, faces->vertices "
                  "with its four weightings and corners->vertices with its three + the refused one ARE the defining weighted "
                  "averages: closed forms of the generated bodies, any mesh, any attribute), C07_circumcenter (equidistant + "
                  "in-plane WHEN a point is returned; no totality). PARTIAL: C07_renumbering_partial (vertex renumbering that "
                  "keeps the order of the face list and of each face: EVERY modelled quantity incl. cotan weights, means, Euler "
                  "number, circumcentres, barycentre, all six interpolations/scatters; the order and orientation of the stored "
                  "edge list is irrelevant to degree / border flags / angle defects; face rotation for areas / triangle "
                  "normals; face-list permutation for the faces->vertices accumulation with weights carried along - remaining "
                  "gaps, listed in Props.v: model-computed corner angles / normals of a ROTATED general polygon, and angle "
                  "defects / cotan weights / corners->vertices / total area under reordering of the FACE list). REFUTED (recorded "
                  "findings): C07_face_normal_rotation_refuted (skew quads), C07_nonconvex_face_refuted (planar non-convex "
                  "faces: area, normal orientation, reflex corner angles). TESTED ONLY: everything about caches (persistent "
                  "attributes reused after the vertices moved: recorded stale-cache findings, keyed by consumer and attribute), "
                  "raising paths (non-triangular cotangent/defects, isolated vertices, n=0), non-manifold meshes (never "
                  "generated), float round-off beyond 1e-9. The model is tied to the code by the translator and by "
                  "kernel-evaluated correspondence batches; a disagreement is never forgiven.",
    "level_note": "Trusted: Coq kernel + vm_compute + PrimFloat; the C07 translator; the correspondence harness "
                  "(generators, driver, tolerance 1e-9(1+|x|) on exactly representable inputs, Python's math.cos/sin used "
                  "to relate an atan2 output to the model's (cos,sin) pair, math.atan2 itself identified with the angle in "
                  "(0,pi) of that pair); numpy/CPython float semantics; the per-element loops, caches (persistent "
                  "attributes reused by later calls) and the mesh connectivity are modelled by hand and tied by the "
                  "correspondence only. Theorems over R use the axioms of Coq's Reals (and classic, through the "
                  "trigonometry library). Deliberately left free: the class and message of every refusal; whether inputs the "
                  "text does not speak about are refused or answered (triangulation-only functions on quad / polygon meshes, an "
                  "'area' weight for corner averages, undocumented spellings of vertex_normals' mode - if answered the answer "
                  "must still satisfy the property); which attributes a call leaves on the mesh and under which name (recorded "
                  "in the evidence, never condemned); the order of mesh.edges (the implementation's own list is used); Python / "
                  "numpy types of the returned numbers and containers, dense or sparse storage of results, warnings and log "
                  "output; last-bit float differences (house tolerance 1e-9(1+|x|), vectors relative to their size); how results "
                  "are cached (a call that recomputes instead of reusing a cache is always right). Nothing is compared with a "
                  "pristine run: only with the independent oracle and the Coq model. Stale-cache findings: no `fix:` was made - "
                  "mouette has no hook on vertex writes, so the only small patch (consumers stop reading persistent attributes) "
                  "removes a documented feature; the 16 narrow keys stay. Every run also carries 3 (thorough 24) families at "
                  "scales 2^-23 and 2^130 with every scale-sensitive call (absolute epsilons hidden in a formula).",
}

HEADER = """From Coq Require Import ZArith List Bool.
Import ListNotations.
Require Import MV.C07.Model MV.C07.Gen MV.C07.Mesh MV.C07.Run.
Open Scope Z_scope.
"""

TOL = 1e-9


def gen(ctx):
    return tr.gen()


# ====================================================================== encoding
def dy(x):
    x = float(x)
    if x == 0:
        return "(0, 0)"
    m, e = math.frexp(x)
    mi = int(m * (1 << 53))
    e -= 53
    while mi % 2 == 0:
        mi //= 2
        e += 1
    return "(%s, %s)" % (zlit(mi), zlit(e))


def dy3(p):
    return "(%s, %s, %s)" % (dy(p[0]), dy(p[1]), dy(p[2]))


WTAG = {"uniform": "WUniform", "area": "WArea", "angle": "WAngle", "sum": "WSum"}


def optz(n):
    return "None" if n is None else "(Some %s)" % zlit(n)


def finite(x):
    if isinstance(x, (list, tuple)):
        return all(finite(y) for y in x)
    return isinstance(x, int) or (isinstance(x, float) and math.isfinite(x))


def obs_term(call, res):
    """Gallina `obs` for one call and its result, or None when it is not sent to Coq"""
    nm = call[0]
    if (nm in ("c2v", "c2f") and call[1] == "area") or (nm == "vnormals" and call[1] not in ("uniform", "area", "angle")):
        return None       # input the property text does not speak about (refusal or answer): judged by the oracle only
    if "err" in res:
        if nm in ("c2v", "c2f") and call[1] == "area":
            vals = call[2]
            comps = [[x[j] for x in vals] for j in range(3)] if vals and isinstance(vals[0], list) else [vals]
            return "; ".join("(O_%s WArea %s None)" % (nm, coq_list([dy(x) for x in vi])) for vi in comps)
        return None
    v = res["ok"]
    if not finite(v):
        return None
    sl = lambda l: coq_list([dy(x) for x in l])  # noqa: E731
    vl = lambda l: coq_list([dy3(x) for x in l])  # noqa: E731
    if nm == "edge_length":
        return "(O_edge_length %s)" % sl(v)
    if nm == "edge_middle":
        return "(O_edge_middle %s)" % vl(v)
    if nm == "face_area":
        return "(O_face_area %s)" % sl(v)
    if nm == "face_normals":
        return "(O_face_normals %s)" % vl(v)
    if nm == "face_bary":
        return "(O_face_bary %s)" % vl(v)
    if nm == "circum":
        return "(O_circum %s)" % vl(v)
    if nm == "angles":
        return None  # carried by c_ang (the reference run) and by the oracle
    if nm == "cot":
        return "(O_cot %s)" % sl(v)
    if nm == "cw":
        return "(O_cw %s)" % sl(v)
    if nm == "degree":
        return "(O_degree %s)" % zlist(v)
    if nm == "defects":
        return "(O_defects %s %s)" % (coq_bool(call[1]), sl(v))
    if nm == "vnormals":
        return "(O_vnormals %s %s)" % (WTAG[call[1]], vl(v))
    if nm == "vnormals_c":
        return "(O_vnormals_c %s %s %s)" % (WTAG[call[1]], vl(call[2]), vl(v))
    if nm == "cell_volume":
        return "(O_cell_volume %s)" % sl(v)
    if nm == "cell_bary":
        return "(O_cell_bary %s)" % vl(v)
    if nm == "euler":
        return "(O_euler %s)" % zlit(v)
    if nm == "mean_edge":
        return "(O_mean_edge %s %s)" % (optz(call[1]), dy(v))
    if nm == "mean_area":
        return "(O_mean_area %s %s)" % (optz(call[1]), dy(v))
    if nm == "mean_vol":
        return "(O_mean_vol %s %s)" % (optz(call[1]), dy(v))
    if nm == "total_area":
        return "(O_total_area %s)" % dy(v)
    if nm == "bary":
        return "(O_bary %s)" % dy3(v)
    if nm in ("v2f", "f2v", "sv2c", "sf2c", "c2v", "c2f"):
        vals = call[2]
        if vals and isinstance(vals[0], list):
            comps = [([x[j] for x in vals], [y[j] for y in v]) for j in range(3)]
        else:
            comps = [(vals, v)]
        terms = []
        for vi, vo in comps:
            if nm == "v2f":
                terms.append("(O_v2f %s %s)" % (sl(vi), sl(vo)))
            elif nm == "f2v":
                terms.append("(O_f2v %s %s %s)" % (WTAG[call[1]], sl(vi), sl(vo)))
            elif nm == "sv2c":
                terms.append("(O_sv2c %s %s)" % (sl(vi), sl(vo)))
            elif nm == "sf2c":
                terms.append("(O_sf2c %s %s)" % (sl(vi), sl(vo)))
            else:
                terms.append("(O_%s %s %s (Some %s))" % (nm, WTAG[call[1]], sl(vi), sl(vo)))
        return "; ".join(terms)
    raise RuntimeError("no encoding for " + nm)


def segments(case, out):
    """split a script at its `move` calls: each segment has its own coordinates and reference corner angles"""
    segs = [{"V": case["V"], "angles": out["angles"], "items": []}]
    for k, (call, res) in enumerate(zip(case["script"], out["out"])):
        if call[0] == "move":
            if "ok" not in res:
                segs[-1]["items"].append((k, call, res))
                break
            segs.append({"V": call[1], "angles": res["ok"]["angles"], "items": []})
        else:
            segs[-1]["items"].append((k, call, res))
    return segs


def case_terms(case, out):
    """one Coq case per geometry segment.  Calls that read an attribute cached before the vertices moved are NOT sent:
    the model describes the functions on the current coordinates, not mouette's caches (they are judged by the oracle
    and the narrowly keyed stale-cache findings only)."""
    stale = stale_reads(case["script"])
    terms = []
    for sg in segments(case, out):
        items = [(k, c, r) for k, c, r in sg["items"] if not stale[k]]
        if items or len(case["script"]) == 0:
            terms.append(case_term(dict(case, V=sg["V"], script=[c for _, c, _ in items]),
                                   dict(out, angles=sg["angles"], out=[r for _, _, r in items])))
    return terms


def dropped_observations(case, out):
    """(sent, deliberately not sent, dropped) observation counts of a case - for the harness-coverage obligation"""
    stale = stale_reads(case["script"])
    sent = skipped = dropped = 0
    for k, (c, r) in enumerate(zip(case["script"], out.get("out", []))):
        if c[0] in ("move", "angles"):
            skipped += 1          # moves are not observations; corner angles travel in c_ang
        elif stale[k] or (c[0] == "vnormals" and c[1] not in ("uniform", "area", "angle")) or (c[0] in ("c2v", "c2f") and c[1] == "area") \
                or (c[0] in ("cot", "cw", "defects", "circum") and case.get("F") and any(len(f) != 3 for f in case["F"])):
            skipped += 1          # stale-cache reads; calls that must be (and are checked to be) rejected
        elif obs_term(c, r) is None:
            dropped += 1          # an error result or a non-finite number: only the oracle sees it
        else:
            sent += 1
    dropped += max(0, len(case["script"]) - len(out.get("out", [])))
    return sent, skipped, dropped


def case_term(case, out):
    obs = [obs_term(c, r) for c, r in zip(case["script"], out["out"])]
    obs = [o for o in obs if o is not None]
    ang = out["angles"] or []
    return "(mkcase %s %s %s %s %s %s)" % (
        coq_list([dy3(p) for p in case["V"]]),
        coq_list(["(%s, %s)" % (zlit(a), zlit(b)) for a, b in out["edges"]]),
        coq_list([zlist(f) for f in out["faces"]]),
        coq_list([zlist(c) for c in out["cells"]]),
        coq_list([dy3(a) for a in ang]),
        coq_list(obs))


# ====================================================================== independent oracle (textbook definitions)
def fsqrt(fr):
    return math.sqrt(fr) if not isinstance(fr, Fr) else math.sqrt(fr.numerator) / math.sqrt(fr.denominator)


def close(a, b, scale=1.0, tol=TOL):
    return abs(a - b) <= tol * (scale + abs(b))


def closev(a, b, scale=1.0):
    return len(a) == len(b) and all(close(x, y, scale) for x, y in zip(a, b))


class Truth:
    """Textbook quantities of a mesh given by exact coordinates (Fractions) and its face / cell lists."""

    def __init__(self, V, F, C):
        self.V = [[Fr(x) for x in p] for p in V]
        self.C = C or []
        if C:
            fs = {}
            for c in C:
                v0, v1, v2, v3 = c
                for f in [(v1, v3, v2), (v0, v2, v3), (v3, v1, v0), (v0, v1, v2)]:
                    fs.setdefault(tuple(sorted(f)), f)
            self.F = None  # face order of a volume mesh is the library's business: taken from its report
        else:
            self.F = [list(f) for f in F]

    def set_faces(self, F):
        self.F = [list(f) for f in F]

    # ---- elementary
    def P(self, v):
        return self.V[v]

    def length(self, a, b):
        d = G.sub(self.P(a), self.P(b))
        return fsqrt(G.dot(d, d))

    def tri_area(self, pa, pb, pc):
        n = G.cross(G.sub(pb, pa), G.sub(pc, pa))
        return fsqrt(G.dot(n, n)) / 2

    def face_area(self, f):
        pts = [self.P(v) for v in f]
        if len(f) == 3:
            return self.tri_area(*pts)
        if G.is_planar(pts):
            n = G.vector_area2(pts)
            return fsqrt(G.dot(n, n)) / 2
        if len(f) == 4:  # skew quad: the mean of its two triangulations
            a, b, c, d = pts
            return (self.tri_area(a, b, c) + self.tri_area(a, c, d) + self.tri_area(b, c, d) + self.tri_area(b, d, a)) / 2
        return None

    def face_normal(self, f):
        """unit normal of the face's plane, counter-clockwise: the direction of its vector area (shoelace in 3-D).
        A skew (non-planar) face has no plane: no textbook value (None)."""
        pts = [self.P(v) for v in f]
        if len(f) > 3 and not G.is_planar(pts):
            return None
        n = G.vector_area2(pts)
        l = fsqrt(G.dot(n, n))
        return [float(x) / l for x in n]

    def circumcenter(self, f):
        """the point of the triangle's plane equidistant from its three vertices (exact rational formula)"""
        a, b, c = (self.P(v) for v in f)
        u, w = G.sub(b, a), G.sub(c, a)
        n = G.cross(u, w)
        uu, ww, nn = G.dot(u, u), G.dot(w, w), G.dot(n, n)
        d = G.cross([uu * w[i] - ww * u[i] for i in range(3)], n)
        return [float(a[i] + d[i] / (2 * nn)) for i in range(3)]

    def mean_pt(self, vs):
        k = len(vs)
        return [float(sum(self.P(v)[i] for v in vs) / k) for i in range(3)]

    def angle(self, prev, at, nxt):
        u, w = G.sub(self.P(prev), self.P(at)), G.sub(self.P(nxt), self.P(at))
        c = float(G.dot(u, w)) / (fsqrt(G.dot(u, u)) * fsqrt(G.dot(w, w)))
        return math.acos(max(-1.0, min(1.0, c)))

    def cot(self, prev, at, nxt):
        u, w = G.sub(self.P(prev), self.P(at)), G.sub(self.P(nxt), self.P(at))
        n = G.cross(u, w)
        return float(G.dot(u, w)) / fsqrt(G.dot(n, n))

    def corner_list(self):
        return [(f[(i - 1) % len(f)], f[i], f[(i + 1) % len(f)], fi) for fi, f in enumerate(self.F) for i in range(len(f))]

    def angles(self):
        """interior angles: at a reflex corner of a planar face the interior angle is 2 pi minus the angle between the edges"""
        out = []
        for (p, a, n, fi) in self.corner_list():
            th = self.angle(p, a, n)
            f = self.F[fi]
            if len(f) > 3:
                pts = [self.P(v) for v in f]
                if G.is_planar(pts):
                    va = G.vector_area2(pts)
                    turn = G.cross(G.sub(self.P(n), self.P(a)), G.sub(self.P(p), self.P(a)))
                    if G.dot(turn, va) < 0:
                        th = 2 * math.pi - th
            out.append(th)
        return out

    def und_edges(self):
        d = {}
        for fi, f in enumerate(self.F):
            for (a, b) in G.face_edges(f):
                d.setdefault((min(a, b), max(a, b)), []).append(fi)
        return d

    def border_vertices(self):
        return {v for k, l in self.und_edges().items() if len(l) == 1 for v in k}

    def cell_volume(self, c):
        a, b, cc, d = (self.P(v) for v in c)
        return float(abs(G.det3(G.sub(a, d), G.sub(b, d), G.sub(cc, d))) / 6)


def expected(T, edges, call):
    """textbook value of one call (floats / lists), or ('raises',) / None when the textbook does not fix it"""
    nm = call[0]
    nv = len(T.V)
    if nm in ("cot", "cw", "defects", "circum") and any(len(f) != 3 for f in T.F):
        return ("free",)        # cotangents / defects / circumcentres of a non-triangulated mesh: the property text does not
                                # speak about them - a refusal (any exception) or any answer is accepted
    if nm == "edge_length":
        return [T.length(a, b) for a, b in edges]
    if nm == "edge_middle":
        return [T.mean_pt([a, b]) for a, b in edges]
    if nm == "face_area":
        return [T.face_area(f) for f in T.F]
    if nm == "face_normals":
        return [T.face_normal(f) for f in T.F]
    if nm == "face_bary":
        return [T.mean_pt(f) for f in T.F]
    if nm == "circum":
        return [T.circumcenter(f) for f in T.F]
    if nm == "angles":
        return T.angles()
    if nm == "cot":
        return [T.cot(p, a, n) for (p, a, n, _) in T.corner_list()]
    if nm == "cw":
        out = []
        for a, b in edges:
            w = 0.0
            for f in T.F:
                if a in f and b in f:
                    c = [v for v in f if v not in (a, b)][0]
                    w += T.cot(a, c, b) / 2
            out.append(w)
        return out
    if nm == "degree":
        d = [0] * nv
        for a, b in edges:
            d[a] += 1
            d[b] += 1
        return d
    if nm == "defects":
        bv = T.border_vertices()
        tot = [0.0] * nv
        for (p, a, n, _), th in zip(T.corner_list(), T.angles()):
            tot[a] += th
        return [(0.0 if call[1] else math.pi - tot[v]) if v in bv else 2 * math.pi - tot[v] for v in range(nv)]
    if nm == "vnormals" and call[1] not in ("uniform", "area", "angle"):
        # a spelling the documentation does not list: the text does not speak about it - a refusal (any exception) is
        # accepted, and so is an answer provided it is the vertex normal for that weighting
        v_ = expected(T, edges, [nm, str(call[1]).lower()] + list(call[2:]))
        return ("or_refusal", v_)
    if nm in ("vnormals", "vnormals_c"):
        acc = [[0.0, 0.0, 0.0] for _ in range(nv)]
        ang = T.angles()
        k = 0
        for fi, f in enumerate(T.F):
            nf = T.face_normal(f) if nm == "vnormals" else [float(x) for x in call[2][fi]]
            if nf is None:
                return None
            for i, v in enumerate(f):
                w = {"uniform": 1.0, "area": T.face_area(f), "angle": ang[k]}[call[1]]
                if w is None:
                    return None
                for j in range(3):
                    acc[v][j] += w * nf[j]
                k += 1
        out = []
        for a in acc:
            l = math.sqrt(sum(x * x for x in a))
            if l < 1e-6:
                return None   # a vanishing weighted sum has no direction: the vertex normal is not defined
            out.append([x / l for x in a])
        return out
    if nm == "cell_volume":
        return [T.cell_volume(c) for c in T.C]
    if nm == "cell_bary":
        return [T.mean_pt(c) for c in T.C]
    if nm == "euler":
        return nv - len(T.und_edges()) + len(T.F)
    if nm in ("mean_edge", "mean_area", "mean_vol"):
        vals = {"mean_edge": lambda: [T.length(a, b) for a, b in edges], "mean_area": lambda: [T.face_area(f) for f in T.F],
                "mean_vol": lambda: [T.cell_volume(c) for c in T.C]}[nm]()
        k = len(vals) if call[1] is None else min(call[1], len(vals))
        if any(v is None for v in vals):
            return None
        return sum(vals[:k]) / k
    if nm == "total_area":
        vals = [T.face_area(f) for f in T.F]
        return None if any(v is None for v in vals) else sum(vals)
    if nm == "bary":
        return T.mean_pt(list(range(nv)))
    # interpolation: the expected value is computed from what the input attribute READS (attr[i], total map); a vector
    # attribute is interpolated component by component
    w, vals = call[1], call[2]
    if vals and isinstance(vals[0], list):
        comps = [expected(T, edges, [nm, w, [x[j] for x in vals]] + list(call[3:])) for j in range(3)]
        if any(c is None or isinstance(c, tuple) for c in comps):
            return comps[0] if isinstance(comps[0], tuple) else None
        return [[comps[0][i], comps[1][i], comps[2][i]] for i in range(len(comps[0]))]
    cl = T.corner_list()
    if nm == "v2f":
        return [sum(vals[v] for v in f) / len(f) for f in T.F]
    if nm == "sv2c":
        return [vals[a] for (_, a, _, _) in cl]
    if nm == "sf2c":
        return [vals[fi] for (_, _, _, fi) in cl]
    if nm in ("f2v", "c2v", "c2f"):
        if nm != "f2v" and w == "area":
            # an "area" weighting of corner values is not among the documented weights: refusal or answer both accepted
            # (an answer must still map a constant to that constant: checked below)
            return ("free",)
        ang = T.angles()
        n_out = len(T.F) if nm == "c2f" else nv
        num = [0.0] * n_out
        den = [0.0] * n_out
        for k, (_, a, _, fi) in enumerate(cl):
            tgt = fi if nm == "c2f" else a
            x = vals[fi] if nm == "f2v" else vals[k]
            if w in ("uniform", "sum"):
                wt = 1.0
            elif w == "area":
                wt = T.face_area(T.F[fi])
                if wt is None:
                    return None
            else:
                wt = ang[k]
            num[tgt] += wt * x
            den[tgt] += wt
        return [num[i] if w == "sum" else num[i] / den[i] for i in range(n_out)]
    raise RuntimeError(nm)


def compare(exp, got):
    """None if `got` matches the textbook value `exp`, else a short description"""
    if exp is None:
        return None
    if isinstance(exp, tuple):
        return None
    if isinstance(exp, int) and not isinstance(exp, bool):
        return None if got == exp else "returned %r, definition gives %r" % (got, exp)
    if isinstance(exp, list) and exp and all(isinstance(x, float) for x in exp) and isinstance(got, list) and len(got) == len(exp) == 3 \
            and finite(got) and all(isinstance(x, float) for x in got):
        # a single 3-vector (barycenter): tolerance relative to its size
        return None if closev(got, exp, scale=max([1.0] + [abs(x) for x in exp])) else "returned %r, definition gives %r" % (got, exp)
    if isinstance(exp, float):
        return None if (isinstance(got, float) and math.isfinite(got) and close(got, exp)) else "returned %r, definition gives %r" % (got, exp)
    if not isinstance(got, list) or len(got) != len(exp):
        return "returned %d values, expected %d" % (len(got) if isinstance(got, list) else -1, len(exp))
    for i, (e, g) in enumerate(zip(exp, got)):
        if e is None:
            continue
        if isinstance(e, list):
            if not (finite(g) and closev(g, e, scale=max([1.0] + [abs(x) for x in e]))):
                return "element %d: returned %r, definition gives %r" % (i, g, e)
        elif isinstance(e, int) and not isinstance(e, float):
            if g != e:
                return "element %d: returned %r, definition gives %r" % (i, g, e)
        elif not (finite(g) and close(g, e)):
            return "element %d: returned %r, definition gives %r" % (i, g, e)
    return None


def oracle_case(case, out):
    """list of (call index, message) for every observation of the implementation that contradicts C07"""
    bad = []
    if "build_error" in out:
        return [(-1, "mesh construction failed: " + out["build_error"])]
    edges = [tuple(e) for e in out["edges"]]
    items = []
    for sg in segments(case, out):
        Tg = Truth([[Fr(x) for x in p] for p in sg["V"]], case.get("F"), case.get("C"))
        if case.get("C"):
            Tg.set_faces(out["faces"])
        items += [(k, call, res, Tg) for k, call, res in sg["items"]]
    for k, call, res, T in items:
        if call[0] == "move":
            bad.append((k, "moving the vertices raised " + res.get("err", "?")))
            continue
        is_tri = all(len(f) == 3 for f in T.F)
        exp = expected(T, edges, call)
        free = isinstance(exp, tuple) and exp[0] in ("free", "or_refusal")
        if "err" in res:
            if free:
                continue      # a legitimate refusal: ANY exception class / message (kept in the replay for information)
            if exp is None and call[0] == "vnormals":
                continue
            bad.append((k, "%s raised %s" % (call[0], res["err"])))
            continue
        if free:
            if exp[0] == "or_refusal" and exp[1] is not None:
                m = compare(exp[1], res["ok"])
                if m:
                    bad.append((k, "%s%s: %s" % (call[0], _opts(call), m)))
                continue
            if not (call[0] in ("c2v", "c2f") and call[2] and all(x == call[2][0] for x in call[2])):
                continue
            exp = None        # fall through to the constant-preservation clause only
        m = compare(exp, res["ok"])
        if m:
            bad.append((k, "%s%s: %s" % (call[0], _opts(call), m)))
            continue
        got = res["ok"]
        # the property's own consequences, on the implementation's outputs
        if call[0] == "angles" and is_tri and finite(got):
            for fi in range(len(T.F)):
                s = got[3 * fi] + got[3 * fi + 1] + got[3 * fi + 2]
                if not close(s, math.pi):
                    bad.append((k, "angles of triangle %d sum to %r, not pi" % (fi, s)))
                    break
        if call[0] == "circum" and finite(got):
            for fi, (f, cc) in enumerate(zip(T.F, got)):
                ds = [math.sqrt(sum((cc[i] - float(T.P(v)[i])) ** 2 for i in range(3))) for v in f]
                if not (close(ds[0], ds[1], scale=ds[0]) and close(ds[0], ds[2], scale=ds[0])):
                    bad.append((k, "circumcenter of face %d is not equidistant from its vertices: %r" % (fi, ds)))
                    break
        if call[0] == "defects" and not call[1] and finite(got) and not case.get("C"):
            chi = len(T.V) - len(T.und_edges()) + len(T.F)
            if not close(sum(got), 2 * math.pi * chi, scale=10.0):
                bad.append((k, "angle defects sum to %r, 2*pi*chi = %r (chi=%d)" % (sum(got), 2 * math.pi * chi, chi)))
        if call[0] in ("v2f", "f2v", "sv2c", "sf2c", "c2v", "c2f") and call[2] and all(x == call[2][0] for x in call[2]) \
                and call[1] != "sum" and finite(got):
            c = call[2][0]
            okc = all(closev(g, c) for g in got) if isinstance(c, list) else all(close(g, c) for g in got)
            if not okc:
                bad.append((k, "%s%s of the constant %r returned %r" % (call[0], _opts(call), c, got[:6])))
    # side effects of every call: it must not move the vertices, a non-persistent call must not leave attributes on the
    # mesh, a persistent one must leave its attribute (under the requested name) and only the documented companions
    for k, call, res, T in items:
        if call[0] == "move" or "new" not in res:
            continue
        if res.get("vmoved"):
            bad.append((k, "%s%s changed the coordinates of the mesh's vertices" % (call[0], _opts(call))))
        if "err" in res:
            continue
        allowed, required = attr_effects(call)
        extra = [a for a in res["new"] if a not in allowed and not a.split(".")[1].startswith("c07_")]
        for a in extra:
            SIDE_NOTES["%s left attribute %s on the mesh" % (call[0], a)] += 1
        for a in required:
            if a not in res.get("has", []):
                SIDE_NOTES["%s (persistent) did not store %s" % (call[0], a)] += 1
    # idempotence: an identical call repeated on the same, unmoved mesh object returns what the first call returned
    first = {}
    for k, call, res, T in items:
        if call[0] == "move":
            continue
        sig = (id(T), json.dumps(call, sort_keys=True))
        if sig not in first:
            first[sig] = (k, res)
            continue
        k0, r0 = first[sig]
        if any(kk == k or kk == k0 for kk, _ in bad):
            continue       # already reported against the definition
        if ("ok" in r0) != ("ok" in res):
            bad.append((k, "%s%s: call %d and its repetition %d do not behave alike (%s / %s)" % (call[0], _opts(call), k0, k, r0, res)))
        elif "ok" in res and finite(res["ok"]) and finite(r0["ok"]):
            def same_value(a, b):
                if isinstance(a, list):
                    return isinstance(b, list) and len(a) == len(b) and all(same_value(x, y) for x, y in zip(a, b))
                if isinstance(a, int) and not isinstance(a, bool):
                    return a == b
                return close(b, a)
            if not same_value(r0["ok"], res["ok"]):
                bad.append((k, "%s%s: repeated on the same unmoved mesh, call %d returned %r but call %d had returned %r"
                            % (call[0], _opts(call), k, str(res["ok"])[:120], k0, str(r0["ok"])[:120])))
    return bad


import collections
SIDE_NOTES = collections.Counter()    # which attributes calls leave on / do not leave on the mesh: information, not a verdict
ATTR_OF = {"edge_length": "edges.length", "edge_middle": "edges.middle", "face_area": "faces.area", "face_normals": "faces.normals",
           "face_bary": "faces.barycenter", "circum": "faces.circumcenter", "angles": "face_corners.angles", "cot": "face_corners.cotan",
           "cw": "edges.cotan_weight", "degree": "vertices.degree", "defects": "vertices.angleDefect", "vnormals": "vertices.normals",
           "vnormals_c": "vertices.normals", "cell_volume": "cells.volume", "cell_bary": "cells.barycenter"}
INNER = {"cw": ["face_corners.cotan"], "defects": ["face_corners.angles"], "vnormals": ["faces.normals"]}


def attr_effects(call):
    """(attributes the call may add to the mesh, attributes that must be on the mesh afterwards)"""
    nm = call[0]
    allowed = {"vertices.border"}          # the lazily computed border flag of the mesh itself
    required = []
    if nm == "mean_area":
        allowed.add("faces.area")           # mean_face_area computes face_area(mesh) persistently when it finds none
    if nm == "mean_vol":
        allowed.add("cells.volume")
    if nm in ATTR_OF and len(call) >= 3:
        p = call[-2]
        if p:
            cont, dflt = ATTR_OF[nm].split(".")
            own = "%s.%s" % (cont, p if isinstance(p, str) else dflt)
            allowed.add(own)
            required.append(own)
            allowed.update(INNER.get(nm, []))
    return allowed, required


def _opts(call):
    nm = call[0]
    if nm in ("v2f", "f2v", "sv2c", "sf2c", "c2v", "c2f"):
        st = call[3]
        if isinstance(st, list):
            st = "%s input created with default_value=%r, %d of %d entries written" % ("dense" if st[0] == "d" else "sparse", st[1], len(st[2]), len(call[2]))
        else:
            st = "dense input" if st else "sparse input, every entry written"
        return "(weight=%r, %s, %s values, dense_out=%r, output %s)" % (call[1], st, "vector" if call[2] and isinstance(call[2][0], list) else "scalar",
                                                                          call[4], "preloaded" if call[5] else "fresh")
    return "(%s)" % ", ".join(repr(x) for x in call[1:])


# ---- invariance between a base case and its transformed variant (same script)
POWER = {"edge_length": 1, "face_area": 2, "angles": 0, "cot": 0, "cw": 0, "defects": 0, "cell_volume": 3, "mean_edge": 1,
         "mean_area": 2, "mean_vol": 3, "total_area": 2, "v2f": 0, "f2v": 0, "sv2c": 0, "sf2c": 0, "c2v": 0, "c2f": 0}
POINTS = {"edge_middle", "face_bary", "cell_bary", "bary", "circum"}
DIRS = {"face_normals", "vnormals"}


def oracle_invariance(base, bout, var, vout):
    trf = var["meta"]["transform"]
    lam = float(trf["scale"])
    R = [[float(x) for x in r] for r in trf["R"]]
    t = [float(x) for x in trf["t"]]
    bad = []
    sc = max(1.0, max(abs(float(x)) for p in var["V"] for x in p))
    for k, (call, rb, rv) in enumerate(zip(base["script"], bout["out"], vout["out"])):
        if "ok" not in rb or "ok" not in rv or not finite(rb["ok"]) or not finite(rv["ok"]):
            continue
        nm = call[0]
        b, v = rb["ok"], rv["ok"]
        if nm in POWER:
            f = lam ** POWER[nm]
            def flat(z):
                return [t for y_ in z for t in flat(y_)] if isinstance(z, list) else [z]
            bl, vl = flat(b), flat(v)
            ok = len(bl) == len(vl) and all(close(y, f * x, scale=f) for x, y in zip(bl, vl))
            what = "scales by lambda^%d = %g" % (POWER[nm], f)
        elif nm in POINTS or nm in DIRS:
            bl, vl = (b, v) if isinstance(b[0], list) else ([b], [v])
            ok = len(bl) == len(vl)
            for x, y in zip(bl, vl):
                q = G.matvec(R, x)
                q = [lam * q[i] + t[i] for i in range(3)] if nm in POINTS else q
                ok = ok and all(close(y[i], q[i], scale=sc) for i in range(3))
            what = "moves with the mesh"
        elif nm in ("degree", "euler"):
            ok = b == v
            what = "is unchanged"
        else:
            continue
        if not ok:
            bad.append((k, "%s%s: under the %s p -> %g*R p + t the result should be the one that %s" % (nm, _opts(call), trf["kind"], lam, what)))
    return bad


def oracle_renumbering(base, bout, var, vout):
    ren = var["meta"]["renumber"]
    sigma = ren["sigma"]
    bad = []
    skew_faces = set()
    if base.get("F"):
        skew_faces = {fi for fi, f in enumerate(base["F"]) if not G.is_planar([[Fr(x) for x in base["V"][u]] for u in f])}
    skew_vertices = {u for fi in skew_faces for u in base["F"][fi]}
    for k, (call, rb, rv) in enumerate(zip(base["script"], bout["out"], vout["out"])):
        if "ok" not in rb or "ok" not in rv or not finite(rb["ok"]) or not finite(rv["ok"]):
            continue
        nm = call[0]
        b, v = rb["ok"], rv["ok"]

        def same(x, y):
            if isinstance(x, list):
                return len(x) == len(y) and all(same(p, q) for p, q in zip(x, y))
            return close(y, x)
        ok = True
        skew = False
        if nm in ("degree", "defects", "vnormals", "vnormals_c", "f2v", "c2v"):   # vertex-indexed
            badv = [u for u in range(len(sigma)) if not same(b[u], v[sigma[u]])]
            ok = not badv
            # the recorded skew-quad finding only explains vertices that lie on a skew face
            skew = nm == "vnormals" and bool(badv) and all(u in skew_vertices for u in badv)
        elif nm in ("face_area", "face_normals", "face_bary", "circum", "v2f", "c2f") and "order" in ren:   # face-indexed
            badf = [ren["order"][kk] for kk in range(len(ren["order"])) if not same(b[ren["order"][kk]], v[kk])]
            ok = not badf
            # ... and only faces that are themselves skew
            skew = nm == "face_normals" and bool(badf) and all(fi in skew_faces for fi in badf)
        elif nm in ("cell_volume", "cell_bary") and "corder" in ren:
            ok = all(same(b[ren["corder"][kk]], v[kk]) for kk in range(len(ren["corder"])))
        elif nm in ("euler", "total_area", "bary", "mean_edge", "mean_area", "mean_vol") and (len(call) < 2 or call[1] is None):
            ok = same(b, v) if nm != "euler" else b == v
        elif nm == "edge_length":
            be = {tuple(sorted((sigma[a], sigma[c]))): x for (a, c), x in zip(bout["edges"], b)}
            ok = all(tuple(sorted(e)) in be and same(be[tuple(sorted(e))], x) for e, x in zip(vout["edges"], v))
        elif nm == "cw":
            be = {tuple(sorted((sigma[a], sigma[c]))): x for (a, c), x in zip(bout["edges"], b)}
            ok = all(tuple(sorted(e)) in be and same(be[tuple(sorted(e))], x) for e, x in zip(vout["edges"], v))
        if not ok:
            bad.append((k, "%s%s%s: renumbering vertices / rotating and reordering faces does not permute the result accordingly"
                        % (nm, _opts(call), " [skew quad rotated]" if skew else "")))
    return bad


def oracle_reverse(base, bout, var, vout):
    """every face listed in the opposite rotation sense: scalar quantities unchanged, normals negated"""
    bad = []
    skew_faces = {fi for fi, f in enumerate(base["F"]) if not G.is_planar([[Fr(x) for x in base["V"][u]] for u in f])}
    skew_vertices = {u for fi in skew_faces for u in base["F"][fi]}
    for k, (call, rb, rv) in enumerate(zip(base["script"], bout["out"], vout["out"])):
        if "ok" not in rb or "ok" not in rv or not finite(rb["ok"]) or not finite(rv["ok"]):
            continue
        nm = call[0]
        b, v = rb["ok"], rv["ok"]

        def same(x, y, sgn=1.0):
            if isinstance(x, list):
                return len(x) == len(y) and all(same(p, q, sgn) for p, q in zip(x, y))
            return close(y, sgn * x)
        ok = True
        if nm == "mean_edge" and call[1] is not None:
            continue          # the first n edges are other edges once the edge list is completed in another order
        if nm in ("face_area", "face_bary", "circum", "total_area", "mean_area", "degree", "euler", "bary", "defects", "mean_edge",
                  "v2f", "f2v", "c2v", "c2f", "vnormals_c"):
            ok = (b == v) if nm in ("degree", "euler") else same(b, v, -1.0 if nm == "vnormals_c" else 1.0)
        elif nm in ("face_normals", "vnormals"):
            badi = [i for i in range(len(b)) if not same(b[i], v[i], -1.0)]
            ok = not badi
            if badi and all((i in skew_faces) if nm == "face_normals" else (i in skew_vertices) for i in badi):
                bad.append((k, "%s%s [skew quad rotated]: listed in the opposite rotation sense, the normal of a skew quad is not the negated one" % (nm, _opts(call))))
                continue
        elif nm in ("edge_length", "cw"):
            be = {tuple(sorted(e)): x for e, x in zip(bout["edges"], b)}
            ok = all(tuple(sorted(e)) in be and same(be[tuple(sorted(e))], x) for e, x in zip(vout["edges"], v))
        if not ok:
            bad.append((k, "%s%s: listing every face in the opposite rotation sense should keep scalar quantities and negate normals" % (nm, _opts(call))))
    return bad


# ====================================================================== families of cases
def floats_of(Vx):
    return [[float(x) for x in p] for p in Vx]


def map_values_renumber(call, ren, base_faces):
    """permute the input attribute of an interpolation call along a renumbering"""
    nm = call[0]
    if nm == "vnormals_c":
        return [nm, call[1], [call[2][ren["order"][k]] for k in range(len(call[2]))]] + list(call[3:])
    if nm not in ("v2f", "f2v", "sv2c", "sf2c", "c2v", "c2f"):
        return call
    vals = call[2]
    sigma = ren["sigma"]
    if nm in ("v2f", "sv2c"):
        new = [None] * len(vals)
        for u, x in enumerate(vals):
            new[sigma[u]] = x
    elif nm in ("f2v", "sf2c"):
        new = [vals[ren["order"][k]] for k in range(len(vals))]
    else:
        first = [0]
        for f in base_faces:
            first.append(first[-1] + len(f))
        new = []
        for k, of in enumerate(ren["order"]):
            n = len(base_faces[of])
            r = ren["rots"][k]
            for i in range(n):
                new.append(vals[first[of] + (i + r) % n])
    return [nm, call[1], new, call[3] if isinstance(call[3], bool) else False, call[4], None]


def gen_family(rng, fam_id, tier):
    """base case + variants (transforms, renumbering) sharing one script"""
    r = rng.random()
    if r < 0.12:
        kind = "vol"
        V, C = G.gen_volume(rng)
        F = None
    else:
        size = rng.choices(["tiny", "medium", "large"], [45, 48, 7])[0]
        kind, V, F = G.gen_surface(rng, size)
        C = None
    nF = len(F) if F else 0
    nCorn = sum(len(f) for f in F) if F else 0
    script = G.gen_script(rng, kind, len(V), nF, nCorn, len(C) if C else 0, rng.randint(5, 9), geom=(V, F) if F else None)
    Vx = [[Fr(x) for x in p] for p in V]
    base = {"V": floats_of(Vx), "F": F, "C": C, "script": script, "meta": {"kind": kind, "family": fam_id, "variant": "base"}}
    fam = [base]
    nvar = 2 if tier == "quick" else 3
    kinds = rng.sample(["translate", "signedperm", "similarity", "rotation", "scale", "renumber", "renumber"] + (["reverse"] if F else []), nvar)
    for kd in kinds:
        if kd == "reverse":
            # the same surface seen from the other side: every face's vertex list reversed (clockwise input)
            F2 = [list(reversed(f)) for f in F]
            first = [0]
            for f in F:
                first.append(first[-1] + len(f))
            sc = []
            for c in script:
                if c[0] in ("c2v", "c2f"):
                    vals = []
                    for fi, f in enumerate(F):
                        vals += list(reversed(c[2][first[fi]:first[fi] + len(f)]))
                    sc.append([c[0], c[1], vals, c[3] if isinstance(c[3], bool) else False] + list(c[4:]))
                elif c[0] == "vnormals_c":
                    sc.append([c[0], c[1], [[-x for x in v] for v in c[2]]] + list(c[3:]))
                else:
                    sc.append(c)
            fam.append({"V": floats_of(V), "F": F2, "C": None, "script": sc,
                        "meta": {"kind": kind, "family": fam_id, "variant": "reverse"}})
            continue
        if kd == "renumber":
            V2, F2, C2, ren = G.gen_renumbering(rng, V, F, C)
            sc = [map_values_renumber(c, ren, F) for c in script] if F else script
            fam.append({"V": floats_of(V2), "F": F2, "C": C2, "script": sc,
                        "meta": {"kind": kind, "family": fam_id, "variant": "renumber", "renumber": ren}})
        else:
            trf = G.gen_transform(rng, kd)
            V2 = G.apply_transform(trf, V)
            fam.append({"V": floats_of(V2), "F": F, "C": C, "script": script,
                        "meta": {"kind": kind, "family": fam_id, "variant": kd,
                                 "transform": {"kind": kd, "scale": str(trf["scale"]), "R": [[str(x) for x in r] for r in trf["R"]],
                                               "t": [str(x) for x in trf["t"]]}}})
    return fam


def _tr_of(meta):
    t = meta["transform"]
    return {"kind": t["kind"], "scale": Fr(t["scale"]), "R": [[Fr(x) for x in r] for r in t["R"]], "t": [Fr(x) for x in t["t"]]}


def strip(case):
    return {k: case[k] for k in ("V", "F", "C", "script")}


def run_driver(cases, timeout=600):
    nsh = max(1, min(core.NCPU, len(cases) // 8))
    payloads = [{"cases": [strip(c) for c in cases[i::nsh]]} for i in range(nsh)]
    results = core.run_impl_parallel("vf.impl.c07_driver", payloads, timeout=timeout)
    outs = [None] * len(cases)
    for i, r in enumerate(results):
        for j, o in zip(range(i, len(cases), nsh), r["cases"]):
            outs[j] = o
    return outs


KEY_SKEW = "attr/face_normals/skew-quad-rotation"
WITNESS_SKEW = {"V": [[0.0, 0.0, 0.0], [1.0, 0.0, 0.0], [1.0, 1.0, 1.0], [0.0, 1.0, 0.0]], "C": None,
                "script": [["face_normals", False, True]]}


def stale_reads(script):
    """For every call of a script: the list of persistent attributes it READS that were computed before the vertices were
    last moved (a small model of mouette's attribute caches: which call creates / reuses which named attribute).
    State: attribute name -> True (computed from the current coordinates) | False (stale)."""
    st = {}
    res = []

    def read(name, reads):
        """the call uses the cached attribute if present; returns whether what it read is current"""
        if name in st:
            if not st[name]:
                reads.append(name)
            return st[name]
        return None  # absent: will be computed afresh

    for call in script:
        nm = call[0]
        reads = []
        if nm == "move":
            st = {k: False for k in st}
        elif nm == "face_area":
            if call[-2] is True:
                st["area"] = True
        elif nm == "face_normals":
            if call[-2] is True:
                st["normals"] = True
        elif nm == "angles":
            if call[-2] is True:
                st["angles"] = True
        elif nm == "cell_volume":
            if call[-2] is True:
                st["volume"] = True
        elif nm == "cot":
            a = read("angles", reads)
            if call[-2] is True:
                st["cotan"] = True if a is None else a
        elif nm == "cw":
            c = read("cotan", reads)
            if c is None:
                a = read("angles", reads)      # cotangent(mesh, persistent=persistent) consults the angles cache
                if call[-2]:                     # ... and stores "cotan" under its default name whatever cw's own name
                    st["cotan"] = True if a is None else a
        elif nm == "defects":
            a = read("angles", reads)
            if a is None and call[-2]:
                st["angles"] = True
        elif nm == "vnormals":
            if call[1] in ("uniform", "area", "angle"):
                n_ = read("normals", reads)
                if n_ is None and call[-2]:
                    st["normals"] = True
                if call[1] == "area":
                    read("area", reads)
                elif call[1] == "angle":
                    read("angles", reads)
        elif nm == "vnormals_c":
            # the caller's own face normals: the "normals" cache must NOT be consulted
            if call[1] == "area":
                read("area", reads)
            elif call[1] == "angle":
                read("angles", reads)
        elif nm == "mean_area":
            if read("area", reads) is None:
                st["area"] = True               # mean_face_area calls face_area(mesh): persistent by default
        elif nm == "total_area":
            read("area", reads)
        elif nm == "mean_vol":
            if read("volume", reads) is None:
                st["volume"] = True
        elif nm == "f2v":
            if call[1] == "area":
                read("area", reads)
            elif call[1] == "angle":
                read("angles", reads)
        elif nm in ("c2v", "c2f"):
            if call[1] == "angle":
                read("angles", reads)
        res.append(reads)
    return res


def stale_key(case, k):
    """narrow key of the stale-cache class: (consumer, the stale attribute it reads); None if call k reads nothing stale"""
    if k < 0:
        return None
    r = stale_reads(case["script"])[k]
    return "stale-cache/%s/%s" % (case["script"][k][0], r[0]) if r else None


def nonconvex_key(case, k, msg):
    """key of the non-convex-face class if the failing element lies on a planar non-convex face"""
    if k < 0 or not case.get("F") or case.get("C"):
        return None
    V = case["V"]
    for i_, c_ in enumerate(case["script"][:k]):
        if c_[0] == "move":
            V = c_[1]
    Vx = [[Fr(x) for x in p] for p in V]
    nc = set(G.nonconvex_faces(Vx, case["F"]))
    if not nc:
        return None
    nm = case["script"][k][0]
    import re as _re
    m_ = _re.search(r"element (\d+)", msg)
    el = int(m_.group(1)) if m_ else None
    if nm in ("face_area", "face_normals"):
        hit = el is not None and el in nc
    elif nm == "angles":
        cf = [fi for fi, f in enumerate(case["F"]) for _ in f]
        hit = el is not None and el < len(cf) and cf[el] in nc
    elif nm in ("total_area", "mean_area"):
        hit = True
    else:
        hit = False
    return "nonconvex-face/" + nm if hit else None


def classify(call, msg):
    if "[skew quad rotated]" in msg:
        return KEY_SKEW
    nm = call[0] if call else "build"
    if nm in ("v2f", "f2v", "sv2c", "sf2c", "c2v", "c2f"):
        return "interp/%s/%s/%s/%s" % (nm, call[1], "preloaded" if call[5] else "fresh",
                                       "default-carried" if isinstance(call[3], list) else "written")
    if nm in ("mean_edge", "mean_area", "mean_vol"):
        return "glob/%s/%s" % (nm, "n" if call[1] is not None else "all")
    return "attr/" + nm


# ====================================================================== shrinking
def shrink_case(case, k, fails_many, deadline):
    """reduce to the failing call (keeping the prefix only if the failure needs it), then delete faces greedily.
    fails_many(list of candidate cases) -> list of bool (one implementation run per round)"""
    cur = dict(case)
    single = dict(cur, script=[cur["script"][k]])
    if fails_many([single])[0]:
        cur = single
    else:
        cur = dict(cur, script=cur["script"][:k + 1])
    interp = any(c[0] in ("v2f", "f2v", "sv2c", "sf2c", "c2v", "c2f", "move") for c in cur["script"])
    if cur.get("F") and not cur.get("C") and not interp:
        for _round in range(8):
            if time.time() > deadline:
                break
            nf = len(cur["F"])
            drops = [[fi] for fi in range(nf)]
            for size in (nf // 2, nf // 4, nf // 8):
                if size >= 2:
                    drops += [list(range(a, min(nf, a + size))) for a in range(0, nf, size)]
            cands = []
            for dr in drops:
                F2 = [f for fi, f in enumerate(cur["F"]) if fi not in dr]
                if not F2:
                    continue
                used = sorted({v for f in F2 for v in f})
                ren = {v: i for i, v in enumerate(used)}
                cand = dict(cur, V=[cur["V"][v] for v in used], F=[[ren[v] for v in f] for f in F2])
                if G.manifold_report(cand["F"], len(cand["V"]))[0]:
                    cands.append(cand)
            if not cands:
                break
            res = fails_many(cands)
            hit = [c for c, r in zip(cands, res) if r]
            if not hit:
                break
            cur = min(hit, key=lambda c: len(c["F"]))
    return cur


# ====================================================================== the check
def run(ctx):
    quick = ctx.tier == "quick"
    n_fam = 80 if quick else 700
    ctx.rule = ("families = one integer-coordinate manifold mesh (triangle 62% / quad 20% / planar-polygon 18% surfaces with "
                "borders, holes, genus 0-1; tetrahedral volumes 12%) + 2-3 variants (integer translation, signed-permutation "
                "rotation, exact integer similarity N*R from a Pythagorean quaternion, rational rotation rounded to binary64, "
                "dyadic scale, vertex renumbering with face rotation/reordering), each run through a random script of 5-9 calls "
                "covering every function and option (persistent, dense, weighting, zero_border, n, preloaded outputs). "
                "Non-trivial = at least 2 faces or cells and at least one float-valued call; distinct = hash of coordinates, "
                "faces and script")
    ctx.assumptions += ["meshes are manifold, non-degenerate, every vertex used (the property's quantifier)",
                       "polygons with >= 5 sides are planar and strictly convex; quads planar (70%) or skew (the textbook value "
                       "of a skew quad is taken to be the mean of its two triangulations)",
                       "coordinates are small integers / dyadics (exact in binary64) except in the 'rotation' variants"]
    ctx.regen(sys.modules[__name__])
    b = ctx.build_props(extra_targets=["theories/C07/Mesh.vo", "theories/C07/Run.vo"])
    ctx.hygiene(["Lib", "C07"])

    cases = []
    cdir = os.path.join(core.ROOT, "corpus", "C07")
    if os.path.isdir(cdir):
        for f in sorted(os.listdir(cdir)):
            c = json.load(open(os.path.join(cdir, f)))
            c.setdefault("meta", {"kind": "corpus", "family": f, "variant": "base"})
            cases.append(c)
    fam_index = []
    for fid in range(n_fam):
        fam = gen_family(ctx.rng, fid, ctx.tier)
        fam_index.append((len(cases), len(fam)))
        cases += fam
    n_nc = 12 if quick else 100
    for nid in range(n_nc):
        V, F = G.gen_nonconvex(ctx.rng)
        pd_ = lambda: [ctx.rng.random() < 0.5, ctx.rng.random() < 0.5]  # noqa: E731
        script = [["face_area"] + pd_(), ["face_normals"] + pd_(), ["angles"] + pd_(), ["total_area"], ["mean_area", None],
                  ["face_bary"] + pd_(), ["edge_length"] + pd_(), ["degree"] + pd_(), ["euler"], ["bary"]]
        ctx.rng.shuffle(script)
        script = script[:ctx.rng.randint(5, 8)]
        base = {"V": [[float(x) for x in p] for p in V], "F": F, "C": None, "script": script,
                "meta": {"kind": "nonconvex", "family": "nonconvex-%d" % nid, "variant": "base"}}
        V2, F2, _c2, ren = G.gen_renumbering(ctx.rng, V, F, None)
        fam = [base, {"V": [[float(x) for x in p] for p in V2], "F": F2, "C": None, "script": script,
                      "meta": {"kind": "nonconvex", "family": "nonconvex-%d" % nid, "variant": "renumber", "renumber": ren}}]
        fam_index.append((len(cases), len(fam)))
        cases += fam
    # extreme-magnitude stream (own random stream: the draws above are unchanged): every scale-sensitive quantity on the
    # SAME mesh at 2^-23 and 2^130 - an absolute epsilon hidden in a formula (|N| + 1e-12, a fixed cut-off) shows here
    n_ext = 3 if quick else 24
    xr = random.Random(repr((ctx.seed, "C07", "extreme")))
    for xid in range(n_ext):
        kind, V, F = G.gen_surface(xr, xr.choice(["tiny", "medium"]))
        pdx = lambda: [xr.random() < 0.5, xr.random() < 0.5]  # noqa: E731
        script = [["face_normals"] + pdx(), ["face_area"] + pdx(), ["edge_length"] + pdx(), ["face_bary"] + pdx(),
                  ["total_area"], ["mean_edge", None], ["bary"]]
        script += [["vnormals", w] + pdx() for w in ("uniform", "area", "angle")]
        if kind == "tri":
            script += [["angles"] + pdx(), ["circum"] + pdx()]
        xr.shuffle(script)
        Vx = [[Fr(x) for x in q] for q in V]
        fam = [{"V": floats_of(Vx), "F": F, "C": None, "script": script,
                "meta": {"kind": kind, "family": "extreme-%d" % xid, "variant": "base"}}]
        I3 = [[Fr(int(i == j)) for j in range(3)] for i in range(3)]
        for sc_ in (Fr(1, 2 ** 23), Fr(2 ** 130)):
            trf = {"kind": "scale", "scale": sc_, "R": I3, "t": [Fr(0)] * 3}
            fam.append({"V": floats_of(G.apply_transform(trf, V)), "F": F, "C": None, "script": script,
                        "meta": {"kind": kind, "family": "extreme-%d" % xid, "variant": "scale",
                                 "transform": {"kind": "scale", "scale": str(sc_), "R": [[str(x) for x in r] for r in I3],
                                               "t": ["0", "0", "0"]}}})
        fam_index.append((len(cases), len(fam)))
        cases += fam
    n_rep = 30 if quick else 250
    for rid in range(n_rep):
        kind, V, F, C, script = G.gen_repeat(ctx.rng)
        cases.append({"V": [[float(x) for x in p] for p in V], "F": F, "C": C, "script": script,
                      "meta": {"kind": kind, "family": "repeat-%d" % rid, "variant": "repeat"}})
    n_scen = 36 if quick else 300
    for sid in range(n_scen):
        kind, V, F, C, script = G.gen_scenario(ctx.rng)
        cases.append({"V": [[float(x) for x in p] for p in V], "F": F, "C": C, "script": script,
                      "meta": {"kind": kind, "family": "scenario-%d" % sid, "variant": "scenario"}})
    ctx.log("generated %d cases in %d families + %d non-convex families + %d extreme-scale families + %d repeated-call scripts "
            "+ %d move scenarios" % (len(cases), n_fam, n_nc, n_ext, n_rep, n_scen))
    outs = run_driver(cases, timeout=900 if quick else 3000)
    ctx.log("implementation ran")

    for c, o in zip(cases, outs):
        m = c["meta"]
        ctx.count("mesh kind=" + m["kind"])
        ctx.count("variant=" + m["variant"])
        nel = len(c["C"]) if c.get("C") else len(c["F"])
        ctx.count("elements<=%d" % (1 if nel <= 1 else 8 if nel <= 8 else 40 if nel <= 40 else 100))
        if c.get("F") and not c.get("C") and "edges" in o and o["edges"]:
            he = {(f[i], f[(i + 1) % len(f)]) for f in c["F"] for i in range(len(f))}
            for a_, b_ in o["edges"]:
                if (a_, b_) in he and (b_, a_) not in he:
                    ctx.count("border edge stored (A,B) with its face on the (A,B) side")
                elif (b_, a_) in he and (a_, b_) not in he:
                    ctx.count("border edge stored (A,B) with its face on the (B,A) side")
        for call in c["script"]:
            ctx.count("call " + call[0] + ("/" + str(call[1]) if call[0] in ("f2v", "c2v", "c2f", "vnormals", "defects") else ""))
            if call[0] in ("v2f", "f2v", "sv2c", "sf2c", "c2v", "c2f") and call[5]:
                ctx.count("interpolation into a preloaded output")
            elif len(call) >= 3 and isinstance(call[-1], bool):
                ctx.count("persistent=%s dense=%s" % ("custom-name" if isinstance(call[-2], str) else call[-2], call[-1]))
            if call[0] in ("v2f", "f2v", "sv2c", "sf2c", "c2v", "c2f"):
                st_ = call[3]
                ctx.count("interpolation input: " + (("dense" if st_ else "sparse") + ", all written" if isinstance(st_, bool) else
                          "%s, default %s, %s written" % ("dense" if st_[0] == "d" else "sparse", "0" if st_[1] == 0 else "non-zero",
                                                          "nothing" if not st_[2] else "partly")) + (", vector" if call[2] and isinstance(call[2][0], list) else ", scalar"))
            if call[0] in ("f2v", "c2v", "c2f") and len(call) > 6 and call[6]:
                ctx.count("weight given in another spelling")
        ctx.case_seen([c["V"], c.get("F"), c.get("C"), c["script"]],
                      nontrivial=nel >= 2 and any(x[0] not in ("move", "degree", "euler") for x in c["script"]),
                      sample={"V": c["V"][:6], "F": (c.get("F") or c.get("C"))[:6], "script": [x[:2] for x in c["script"]], "variant": m["variant"]})

    # 1. oracle on every case (textbook + consequences), then the relations inside each family
    fails = []   # (case index, call index, message)
    for i, (c, o) in enumerate(zip(cases, outs)):
        for k, msg in oracle_case(c, o):
            fails.append((i, k, msg))
    for start, n in fam_index:
        base, bout = cases[start], outs[start]
        if "build_error" in bout:
            continue
        for j in range(start + 1, start + n):
            if "build_error" in outs[j]:
                continue
            v = cases[j]
            if v["meta"]["variant"] == "reverse":
                rel = oracle_reverse(base, bout, v, outs[j])
            elif v["meta"]["variant"] == "renumber":
                rel = oracle_renumbering(base, bout, v, outs[j])
            else:
                vv = dict(v, meta=dict(v["meta"], transform=_tr_of(v["meta"])))
                rel = oracle_invariance(base, bout, vv, outs[j])
            for k, msg in rel:
                if not any(fi == j and fk == k for fi, fk, _ in fails) and not any(fi == start and fk == k for fi, fk, _ in fails):
                    fails.append((j, k, msg))
    if SIDE_NOTES:
        ctx.extra["attributes_left_or_missing(information only)"] = dict(SIDE_NOTES)
    # classify EVERY failing observation; the ones without a listed known-finding key come first
    keyed = []
    for i, k, msg in fails:
        call = cases[i]["script"][k] if k >= 0 else None
        keyed.append((i, k, msg, stale_key(cases[i], k) or nonconvex_key(cases[i], k, msg) or classify(call, msg)))
    unknown = [f for f in keyed if not ctx.known(f[3])]
    keyed = unknown + [f for f in keyed if ctx.known(f[3])]
    ctx.obligation("oracle: every value the implementation returned equals its textbook definition, is invariant/equivariant "
                   "inside its family, angle sums = pi, Gauss-Bonnet, constants preserved",
                   "oracle-on-implementation", not unknown,
                   "%d failing observations, %d of them not instances of a listed known finding" % (len(fails), len(unknown)))
    # harness coverage: observations that could not be sent to Coq (errors, non-finite numbers, build failures)
    n_sent = n_skip = n_drop = 0
    for c, o in zip(cases, outs):
        if "build_error" in o:
            n_drop += len(c["script"])
            continue
        a_, b_, c_ = dropped_observations(c, o)
        n_sent, n_skip, n_drop = n_sent + a_, n_skip + b_, n_drop + c_
    ctx.extra["observations"] = {"sent_to_coq": n_sent, "not_sent_by_design(moves, angle lists, stale-cache reads)": n_skip,
                                 "dropped(errors / non-finite / build failures)": n_drop}
    ctx.obligation("harness coverage: observations dropped before the kernel check <= 3%% (%d of %d)" % (n_drop, n_sent + n_drop),
                   "harness", n_sent > 0 and n_drop <= 0.03 * (n_sent + n_drop) + 2, "sent %d, by design not sent %d, dropped %d" % (n_sent, n_skip, n_drop))

    # 2. kernel-checked correspondence
    bad = []
    if b["model_ok"]:
        idx, terms = [], []
        for i, o in enumerate(outs):
            if "build_error" not in o:
                for t in case_terms(cases[i], o):
                    idx.append(i)
                    terms.append(t)
        # chunks of <= 640 cases; a chunk whose shards were killed (memory pressure on a shared machine) is retried
        # once with smaller shards before it counts as not evaluated
        chunk = 640
        for c0 in range(0, len(terms), chunk):
            sub = terms[c0:c0 + chunk]
            nob = len(ctx.obligations)
            r = ctx.run_cases("geom%d" % (c0 // chunk), HEADER, sub, "check_case", case_type="case", shard=(20 if quick else 40), timeout=900)
            if r is None:
                ctx.log("correspondence chunk %d could not be evaluated; retrying with smaller shards" % (c0 // chunk))
                del ctx.obligations[nob:]
                r = ctx.run_cases("geom%dr" % (c0 // chunk), HEADER, sub, "check_case", case_type="case", shard=10, timeout=900)
            bad += [idx[c0 + j] for j in (r or [])]
    else:
        ctx.obligation("correspondence batches", "correspondence", False, "model does not compile")

    # 0. recorded finding: replay its witness on the implementation (KNOWN-FINDING while it still fails)
    try:
        wa = dict(WITNESS_SKEW, F=[[0, 1, 2, 3]])
        wb = dict(WITNESS_SKEW, F=[[1, 2, 3, 0]])
        oa, ob = run_driver([wa, wb], timeout=120)
        na, nb = oa["out"][0].get("ok"), ob["out"][0].get("ok")
        if na and nb and not closev(na[0], nb[0]):
            ctx.violation("face_normals of the skew quad changes when its vertex list is rotated: %s vs %s" % (na[0], nb[0]),
                          {"case": wa, "rotated": wb, "observed": [na, nb]}, key=KEY_SKEW)
        else:
            ctx.notes.append("recorded finding %s no longer reproduces (normals %s / %s)" % (KEY_SKEW, na, nb))
            ctx.log("recorded finding %s no longer reproduces" % KEY_SKEW)
    except Exception as ex:  # noqa
        ctx.log("witness replay failed: %r" % ex)

    try:
        # stale cache: area computed persistently, vertices moved, total_area afterwards
        ws = {"V": [[0.0, 0.0, 0.0], [2.0, 0.0, 0.0], [0.0, 2.0, 0.0]], "F": [[0, 1, 2]], "C": None,
              "script": [["face_area", True, True], ["move", [[0.0, 0.0, 0.0], [4.0, 0.0, 0.0], [0.0, 4.0, 0.0]]], ["total_area"]]}
        os_ = run_driver([ws], timeout=120)[0]
        ms = oracle_case(ws, os_)
        if ms:
            ctx.violation(ms[0][1] + " after the vertices were moved (area attribute computed before the move)",
                          {"case": ws, "observed": os_}, key="stale-cache/total_area/area")
        else:
            ctx.notes.append("recorded finding stale-cache/total_area/area no longer reproduces")
        # non-convex planar face: the dart quad
        wd = {"V": [[0.0, 0.0, 0.0], [2.0, 1.0, 0.0], [4.0, 0.0, 0.0], [2.0, 4.0, 0.0]], "F": [[0, 1, 2, 3]], "C": None,
              "script": [["face_area", False, True], ["face_normals", False, True]]}
        od = run_driver([wd], timeout=120)[0]
        md = oracle_case(wd, od)
        for k_, m_ in md:
            ctx.violation(m_, {"case": wd, "observed": od}, key=nonconvex_key(wd, k_, m_) or "attr/" + wd["script"][k_][0])
        if not md:
            ctx.notes.append("recorded findings nonconvex-face/* no longer reproduce on the dart quad")
    except Exception as ex:  # noqa
        ctx.log("witness replay failed: %r" % ex)

    # 3. verdicts
    reported = set()
    shrink_deadline = time.time() + (40 if quick else 300)
    for i, k, msg, key in keyed[:600]:
        case = cases[i]
        call = case["script"][k] if k >= 0 else None
        if key in reported:
            continue
        reported.add(key)
        if ctx.known(key):
            ctx.report_known(key, ctx.known(key)["what"])
            continue

        def fm(cands, call0=call):
            os_ = run_driver(cands, timeout=300)
            return [any(cand["script"][kk][0] == call0[0] for kk, mm in oracle_case(cand, o_) if kk >= 0) for cand, o_ in zip(cands, os_)]
        small = strip(case)
        if call is not None and time.time() < shrink_deadline:
            try:
                if fm([strip(case)])[0]:
                    small = shrink_case(strip(case), k, fm, min(shrink_deadline, time.time() + (15 if quick else 60)))
            except Exception as ex:  # noqa
                ctx.log("shrinking failed: %r" % ex)
        o = run_driver([small], timeout=120)[0]
        ms = oracle_case(small, o)
        ctx.violation("%s" % (ms[0][1] if ms else msg), {"case": strip(small), "observed": o, "class": key,
                                                          "original_message": msg, "variant": case["meta"]["variant"]}, key=key)
    # a disagreement between model and implementation is never forgiven: the obligation stays failed
    if bad:
        ctx.notes.append("model and implementation disagree on cases %s" % bad[:8])
        diag(ctx, [cases[i] for i in bad[:3]], [outs[i] for i in bad[:3]])


def diag(ctx, cs, os_):
    """which observation of a disagreeing case differs (logged for the engineer)"""
    try:
        hdr = HEADER
        for c, o in zip(cs, os_):
            os.makedirs(ctx.casedir, exist_ok=True)
            p = os.path.join(ctx.casedir, "diag.v")
            open(p, "w").write(hdr + "".join("Eval vm_compute in (bad_obs %s).\n" % t for t in case_terms(c, o)))
            rc, out = core.sh("timeout 300 coqc -Q %s MV %s" % (core.TH, p), cwd=ctx.casedir, timeout=330)
            sent = [cl[0] + _opts(cl) for cl, r in zip(c["script"], o["out"]) if cl[0] != "move" and obs_term(cl, r) is not None]
            ctx.log("disagreement: bad_obs =", " ".join(out.split()[-12:]), "| observations sent:", sent, "| variant", c["meta"]["variant"])
    except Exception as ex:  # noqa
        ctx.log("diagnostic failed: %r" % ex)


def replay(ctx, data):
    if "case" not in data:
        print("replay file names no concrete input:", json.dumps(data)[:600])
        return 1
    case = data["case"]
    o = run_driver([case], timeout=300)[0]
    ms = oracle_case(case, o)
    print("observed:", json.dumps(o)[:3000])
    for k, m in ms:
        print("FAILS:", m)
    if not ms:
        print("passes")
    return 1 if ms else 0
