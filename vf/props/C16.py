"""C16 - cutting along singularities yields a disk with faces in bijection."""
import json
import os
import sys

from .. import core
from ..core import zlit, coq_list, zlist
from ..translate import c16 as tr
from ..impl import c16_meshgen as G
from ..impl.c16_oracle import oracle

META = {
    "property_id": "C16",
    "design_ref": "DESIGN.md section 5, C16",
    "technique": "Coq proof over an executable model of SingularityCutter (rebuild for ANY cut set; pruning loop refined to "
                 "removals of non-singular leaves with a fixpoint characterisation; tree-cotree connectivity of the cut "
                 "graph; connectivity of the cut mesh) + corner numbering, glue test, union plumbing and leaf tests "
                 "regenerated from cutting.py on every run + kernel-checked correspondence batches whose boolean "
                 "checkers validate the dual tree and the disk claims on mouette's own output",
    "level_text": "Machine-checked, unbounded Coq theorems (closed under the global context) about the model of cutting.py. "
                  "PROVED: C16_rebuild (+_glued_meaning, _any_union_find) - for any face list, edge table and cut set the "
                  "rebuilt mesh has the input faces in order, every corner at its input position, ref_vertex total, "
                  "onto and consistent face by face, two corners identified iff linked by a chain of uncut edges around "
                  "their vertex, no uncut edge opened, independent of the union-find's representatives; "
                  "C16_cut0_is_complement; C16_pruning - the queue loop ends within its fuel, only removes "
                  "non-singular leaves, leaves none, keeps every leaf-free subgraph and the connectivity of surviving "
                  "vertices; C16_cut_graph_connected_contains_border (tree-cotree, any forest of the dual graph given "
                  "by a rank certificate); C16_singularities_on_cut_graph; C16_connected - the cut mesh is connected "
                  "when the uncut dual edges span; C16_singularities_on_border_two_cut_edges / "
                  "C16_cut_edge_ends_on_border - on a vertex-manifold oriented triangulated surface every singular "
                  "vertex (every end of a cut edge) has a copy on the border of the rebuilt mesh, under the VISIBLE "
                  "GUARD that the cut graph has two distinct edges (corner-ring argument); C16_cut_mesh_border_exact - "
                  "exact characterisation of the border half-edges of the cut mesh, each lying over an input border "
                  "edge or an edge of cut_edges; C16_uncut_vertices_not_duplicated - a vertex on no cut edge is not "
                  "duplicated and an empty cut set leaves the mesh uncut (sphere exception, model side); "
                  "C16_cut_mesh_counts (F' = F, V' = out_n). The hypotheses on the input "
                  "surface and on the dual tree are boolean checkers evaluated on every generated case. "
                  "NOT PROVED, only checked on mouette's output on every run: Euler characteristic 1 and the single "
                  "border loop of the disk claim (the count of output edges and of corner classes per vertex is not "
                  "established; F' and V' are), and that the pruned cut graph of a closed sphere with < 2 "
                  "singularities is empty. "
                  "REFUTED: C16_disk_refuted - a closed sphere with two ADJACENT singular vertices is returned uncut "
                  "(the guard fails: one cut edge; known finding). The dual Dijkstra tree and the singularity "
                  "spanning tree are validated per run (spanning-tree certificate) instead of being modelled; their "
                  "relaxation tests are extracted and C16_dual_relaxation_keeps_settled_faces proves that a settled "
                  "face keeps its parent edge across zero-length dual edges. Inputs include geometrically degenerate "
                  "ones (two-sided flat sheets, coincident vertices, all-equal coordinates). The "
                  "singular vertices are handed to the constructor in every legal container form (one-shot iterators "
                  "included) and as a list completed between construction and run(); the cutter is exercised in usage "
                  "sessions (other cutters on the same mesh, repeated / reconfigured runs, colliding attributes, library "
                  "switches, declared edges) and the input mesh must come out unchanged.",
    "level_note": "Trusted: Coq kernel + vm_compute; the cutting.py translator; the correspondence harness (mesh "
                  "generator, driver wrapping the cutter's own methods to observe intermediate sets, canonicalisation); "
                  "mouette's SurfaceMesh tables (edges, direct_face, interior/boundary) are re-derived in the model "
                  "from the face list and compared; UnionFind enters through `find` only (its partition semantics is "
                  "C20's theorem; C16_rebuild_any_union_find shows nothing else matters); float geometry only "
                  "influences which spanning tree is chosen. "
                  "Deliberately left free: the numbering and order of the vertices of the cut mesh (model and "
                  "implementation are compared up to a bijection of output vertices; positions and ref_vertex through "
                  "it), which spanning trees / shortest paths / ties are chosen (any dual spanning tree is accepted), "
                  "the ids and order of mesh.edges, the container types of cut_edges / cut_adj / ref_vertex, numbering "
                  "and marking attribute of cut_graph, whether output_mesh is cached between accesses, extra attributes "
                  "left on the input mesh, log lines and warnings, the exception class of a run() on a non-existent "
                  "vertex (recorded only); private helper names (if the wrapped helpers disappear the correspondence is "
                  "reported unproved, not violated). Required because the text states it: any exception on a valid "
                  "input is a violation; cut_adj (when present) must be the adjacency of cut_edges.",
}

HEADER = """From Coq Require Import ZArith List Bool.
Import ListNotations.
Require Import MV.Lib.Base MV.C16.Gen MV.C16.Model MV.C16.Checkers MV.C16.Run.
Open Scope Z_scope.
"""

CODES = {
    1: "input is not a connected oriented vertex-manifold triangulated surface with a consistent edge table, or cut_edges holds an unknown edge id (hypotheses of the theorems; generator/driver)",
    2: "interior/boundary edge classification differs between model and mesh",
    3: "the dual tree of the implementation is not a spanning tree of the dual graph",
    4: "cut_edges before pruning is not the complement of the dual tree",
    5: "pruning: model and implementation disagree on cut_edges",
    6: "rebuild: output faces differ (beyond a renumbering of the output vertices)",
    7: "rebuild: output vertex positions differ (through the renumbering)",
    8: "rebuild: ref_vertex differs (through the renumbering)",
    9: "sphere exception: the cut set is not empty",
    10: "sphere exception: vertices were duplicated",
    11: "cut graph is not connected or misses border edges",
    12: "a singular vertex is not an end of a cut edge",
    13: "cut mesh is not connected",
    14: "cut mesh does not have exactly one border loop",
    15: "cut mesh does not have Euler characteristic 1",
    16: "a singular vertex has no copy on the border of the cut mesh",
}


def gen(ctx):
    return tr.gen()


# ---------------------------------------------------------------------- encoding
def pairs(l):
    return coq_list(["(%s, %s)" % (zlit(int(a)), zlit(int(b))) for a, b in l])


def triples(l):
    return coq_list(["(%s, %s, %s)" % (zlit(int(a)), zlit(int(b)), zlit(int(c))) for a, b, c in l])


def rank_certificate(case, obs):
    """BFS ranks of the faces in the forest made of the dual edges `evisited` (distinct ranks, parents first)."""
    edges = obs["edges"]
    byedge = {}
    for f, F in enumerate(case["faces"]):
        for i in range(3):
            byedge.setdefault(tuple(sorted((F[i], F[(i + 1) % 3]))), []).append(f)
    adj = {}
    for e in obs["evisited"]:
        fs = byedge.get(tuple(sorted(edges[e])), [])
        if len(fs) == 2:
            adj.setdefault(fs[0], []).append(fs[1])
            adj.setdefault(fs[1], []).append(fs[0])
    rank = {}
    n = 0
    for root in range(len(case["faces"])):
        if root in rank:
            continue
        queue = [root]
        rank[root] = n
        n += 1
        while queue:
            f = queue.pop(0)
            for g in adj.get(f, []):
                if g not in rank:
                    rank[g] = n
                    n += 1
                    queue.append(g)
    return sorted(rank.items())


def case_term(case, obs):
    ints_ok = all(all(isinstance(x, int) for x in p) for p in obs["out_verts"])
    ov = obs["out_verts"] if ints_ok else [[10 ** 9, 0, 0]] * len(obs["out_verts"])
    fields = [
        ("c_nv", zlit(case["nv"])),
        ("c_faces", coq_list([zlist(F) for F in case["faces"]])),
        ("c_coords", triples(case["coords"])),
        ("c_singus", zlist(case["singus"])),
        ("c_edges", pairs(obs["edges"])),
        ("c_interior", zlist(obs["interior"])),
        ("c_boundary", zlist(obs["boundary"])),
        ("c_evisited", zlist(obs["evisited"])),
        ("c_rank", pairs(rank_certificate(case, obs))),
        ("c_cut0", zlist(obs["cut0"])),
        ("c_cut", zlist(obs["cut"])),
        ("c_out_faces", coq_list([zlist(F) for F in obs["out_faces"]])),
        ("c_out_verts", triples(ov)),
        ("c_ref", pairs(obs["ref_vertex"])),
    ]
    return "{| " + "; ".join("%s := %s" % kv for kv in fields) + " |}"


# ---------------------------------------------------------------------- known finding: single-edge slit
KEY_SLIT = "closed-sphere/two-adjacent-singularities/single-edge-slit"
WITNESS_SLIT = {"nv": 4, "faces": [[0, 1, 2], [0, 3, 1], [1, 3, 2], [0, 2, 3]],
                "coords": [[0, 0, 0], [4, 0, 0], [0, 4, 0], [0, 0, 4]], "singus": [0, 1], "feat": None}


def is_slit_class(case, obs):
    st = G.stats(case["nv"], case["faces"])
    return bool(obs.get("ok")) and st["loops"] == 0 and st["genus"] == 0 and len(set(case["singus"])) == 2 \
        and len(obs["cut"]) == 1


def classify(case, obs, fails):
    keys = sorted({k for k, _ in fails})
    if is_slit_class(case, obs) and set(keys) <= {"not-a-disk", "singularity-not-on-border"}:
        return KEY_SLIT
    return "/".join(keys) + ("/features" if case.get("feat") is not None else "/no-features")


# ---------------------------------------------------------------------- running
def run_impl_cases(cases, timeout=900):
    if not cases:
        return []
    nsh = max(1, min(core.NCPU, len(cases) // 8))

    def one(i):
        sub = cases[i::nsh]
        try:
            return core.run_impl("vf.impl.c16_driver", {"cases": sub}, timeout=timeout)["results"]
        except Exception as ex:  # the driver itself died (import error, timeout): an observation, not a harness crash
            return [{"ok": False, "error": "driver died: %s" % str(ex)[-300:]} for _ in sub]
    import concurrent.futures as cf
    with cf.ThreadPoolExecutor(max_workers=core.NCPU) as ex:
        res = list(ex.map(one, range(nsh)))
    obs = [None] * len(cases)
    for i, r in enumerate(res):
        for j, o in zip(range(i, len(cases), nsh), r):
            obs[j] = o
    return obs


def run_one(case):
    return run_impl_cases([case], timeout=300)[0]


def strip(case):
    c = {k: case[k] for k in ("nv", "faces", "coords", "singus", "feat")}
    c["form"] = case.get("form") or "list"
    c["session"] = dict(case.get("session") or {})
    c["late"] = min(int(case.get("late") or 0), len(case["singus"]))
    return c


def _candidates(cur):
    out = []
    for i in range(len(cur["singus"])):
        n = len(cur["singus"])
        late = cur.get("late", 0)
        out.append(dict(cur, singus=cur["singus"][:i] + cur["singus"][i + 1:],
                        late=(late - 1 if i >= n - late else late)))
    if cur.get("late"):
        out.append(dict(cur, late=0))
    if (cur.get("form") or "list") != "list":
        out.append(dict(cur, form="list"))
    for k in sorted(cur.get("session") or {}):
        if k != "call" or cur["session"][k] != "kw":
            s2 = dict(cur["session"])
            if k == "call":
                s2[k] = "kw"
            else:
                del s2[k]
            out.append(dict(cur, session=s2))
    if cur["feat"]:
        for i in range(len(cur["feat"])):
            out.append(dict(cur, feat=cur["feat"][:i] + cur["feat"][i + 1:]))
    for f in range(len(cur["faces"])):
        faces = cur["faces"][:f] + cur["faces"][f + 1:]
        if not faces:
            continue
        used = sorted({v for F in faces for v in F})
        ren = {v: i for i, v in enumerate(used)}
        if any(s not in ren for s in cur["singus"]):
            continue
        if cur["feat"] and any(a not in ren or b not in ren for a, b in cur["feat"]):
            continue
        cand = {"nv": len(used), "faces": [[ren[v] for v in F] for F in faces],
                "coords": [cur["coords"][v] for v in used], "singus": [ren[s] for s in cur["singus"]],
                "feat": None if cur["feat"] is None else [sorted((ren[a], ren[b])) for a, b in cur["feat"]],
                "form": cur.get("form") or "list", "late": cur.get("late", 0), "session": {}}
        sess = dict(cur.get("session") or {})
        for dk in ("decoy", "post_decoy"):
            if dk in sess:
                sess[dk] = [ren[v] for v in sess[dk] if v in ren]
        cand["session"] = sess
        if cand["feat"]:
            und = {tuple(sorted((F[i], F[(i + 1) % 3]))) for F in cand["faces"] for i in range(3)}
            if any(tuple(e) not in und for e in cand["feat"]):
                continue
        out.append(cand)
    return [c for c in out if G.validate(c["nv"], c["faces"]) is None]


def shrink(case, key, rounds=8):
    """Greedy reduction that keeps the case a valid surface and the failure class: per round, every single deletion
    (a singularity, a feature edge, a face) is tried in one batch of implementation runs."""
    cur = strip(case)
    for _ in range(rounds):
        cands = _candidates(cur)
        if not cands:
            break
        obs = run_impl_cases(cands, timeout=300)
        nxt = None
        for c, o in zip(cands, obs):
            f = oracle(c, o)
            if f and classify(c, o, f) == key:
                if nxt is None or len(c["faces"]) < len(nxt["faces"]):
                    nxt = c
                    if len(c["faces"]) < len(cur["faces"]):
                        break
        if nxt is None:
            break
        cur = nxt
    return cur


def handcrafted():
    """small fixed cases that hit the corners of the property's quantifier."""
    out = []
    nv, faces = G.seed_tetra()
    co = [[0, 0, 0], [4, 0, 0], [0, 4, 0], [0, 0, 4]]
    for s in ([], [2], [3, 3], [0, 1], [0, 1, 2]):
        out.append({"nv": nv, "faces": faces, "coords": co, "singus": s, "feat": None})
    nv, faces = G.seed_bipyramid(4)
    co = [[0, 0, 3], [0, 0, -3], [2, 0, 0], [0, 2, 0], [-2, 0, 0], [0, -2, 0]]
    for s in ([], [0], [0, 1], [2, 4], [0, 1, 3]):
        out.append({"nv": nv, "faces": faces, "coords": co, "singus": s, "feat": None})
    out.append({"nv": nv, "faces": faces, "coords": co, "singus": [0, 1], "feat": [[0, 2], [1, 2]]})
    nv, faces = G.seed_grid(3, 3, diag=1)
    for s, ft in (([4], [[1, 4], [4, 7]]), ([4], None), ([], None), ([0, 8], None), ([4, 1], [[3, 4], [4, 5]])):
        out.append({"nv": nv, "faces": faces, "coords": G.grid_coords(3, 3), "singus": s, "feat": ft})
    nv, faces = G.seed_grid(3, 3, True, True, diag=0)
    for s in ([], [4], [0, 8]):
        out.append({"nv": nv, "faces": faces, "coords": [[(7 * v) % 11, (5 * v) % 13, v] for v in range(nv)],
                    "singus": s, "feat": None})
    out.append({"nv": 3, "faces": [[0, 1, 2]], "coords": [[0, 0, 0], [1, 0, 0], [0, 1, 0]], "singus": [1], "feat": None})
    # the same interior singular vertices of a 5x5 sheet handed over in every container form, and a list completed late
    nv, faces = G.seed_grid(5, 5, diag=0)
    for form in G.FORMS:
        out.append({"nv": nv, "faces": faces, "coords": G.grid_coords(5, 5), "singus": [12, 16], "feat": None, "form": form})
    out.append({"nv": nv, "faces": faces, "coords": G.grid_coords(5, 5), "singus": [12, 16], "feat": None, "form": "list", "late": 1})
    # sessions: results read, list completed, run again; another cutter on the same mesh before / after; colliding attributes
    for sess in ({"reconfigure": True}, {"reconfigure": True, "access": "graph_first", "rerun": 1},
                 {"decoy": [6, 18], "post_decoy": [0], "call": "pos"}, {"stale_attr": True, "dup_warning": True, "declared_edges": True},
                 {"bad_then_repair": True, "sort_off": True, "call": "kwall"}):
        out.append({"nv": nv, "faces": faces, "coords": G.grid_coords(5, 5), "singus": [12, 16, 0], "feat": None,
                    "form": "list", "session": sess})
        out.append({"nv": nv, "faces": faces, "coords": G.grid_coords(5, 5), "singus": [12, 6], "feat": [[11, 12], [12, 13]],
                    "form": "list", "session": sess})
    out.append({"nv": nv, "faces": faces, "coords": G.grid_coords(5, 5), "singus": [7, 17, 13], "feat": [[6, 7], [7, 8]],
                "form": "generator"})
    nv, faces = G.seed_grid(4, 5, True, True, diag=1)
    out.append({"nv": nv, "faces": faces, "coords": [[(7 * v) % 11, (5 * v) % 13, v] for v in range(nv)],
                "singus": [6, 13], "feat": None, "form": "iter"})
    # geometrically degenerate but combinatorially valid inputs: two-sided flat sheets (double covers glued along the
    # rim: closed, faces across a rim edge have the same barycentre), coincident vertices, all-equal coordinates
    nvf, ff = G.seed_fan(6)
    cof = [[0, 0, 0]] + [[(3, 0), (2, 2), (0, 3), (-2, 2), (-3, 0), (0, -3)][k] + (0,) for k in range(6)]
    cof = [list(p) for p in cof]
    dc = G.double_cover(nvf, ff, cof)
    for sg in ([], [1, 4], [0, 7], [1, 3, 5]):
        out.append({"nv": dc[0], "faces": dc[1], "coords": dc[2], "singus": sg, "feat": None})
    nva, fa = G.seed_grid(4, 3, wrap_i=True, diag=1)
    dca = G.double_cover(nva, fa, [[(5 * v) % 7, (3 * v) % 5, v % 3] for v in range(nva)])
    if dca is not None:
        for sg in ([], [1], [1, 10]):
            out.append({"nv": dca[0], "faces": dca[1], "coords": dca[2], "singus": sg, "feat": None})
    nvg, fg = G.seed_grid(4, 4, diag=0)
    for co in ([[0, 0, 0]] * nvg, [[v % 2, 0, 0] for v in range(nvg)]):
        out.append({"nv": nvg, "faces": fg, "coords": [list(p) for p in co], "singus": [5, 10], "feat": None})
        out.append({"nv": nvg, "faces": fg, "coords": [list(p) for p in co], "singus": [5], "feat": [[5, 6], [6, 10]]})
    for c in out:
        c.setdefault("form", "list")
        c.setdefault("late", 0)
        c.setdefault("session", {})
        c["info"] = dict(G.stats(c["nv"], c["faces"]), seed_kind="handcrafted", coords="fixed", singu_mode="fixed",
                         features=c["feat"] is not None, size="tiny", edits=[])
    return out


def run(ctx):
    quick = ctx.tier == "quick"
    n_gen = 300 if quick else 6000
    ctx.rule = ("connected oriented manifold triangulated surfaces (tetra/octa/bipyramid/fan/grid/annulus/torus/"
                "genus-2 and torus#sphere sums, 0-3 opened holes, random 1-3 splits, edge splits, flips, deletions, "
                "ears; 30% of the small bordered ones doubled into a closed two-sided sheet (genus 2g+b-1) whose two sheets "
                "have the same positions; random renumbering, rotation, shuffle; integer coordinates "
                "random/planar/tie-heavy and 12% degenerate: all equal, a few coincident points, collinear), <= 80 "
                "faces; singular sets none/one/two/adjacent/many/on the border/mixed/all, handed to the constructor as "
                "list/tuple/set/frozenset/numpy array/dict/vertex Attribute/generator/iterator/filter/map object "
                "(60% non-list, numpy dtypes int32/uint8/int64 scalars, dict views) or as a list completed after construction; "
                "usage sessions: positional/keyword/omitted optional arguments, a decoy cutter on the same mesh before "
                "and/or after run() whose results are wrecked in place, run() repeated, results read then the list "
                "completed and run() again, cut_graph read before/after output_mesh, pre-existing attributes with the "
                "names the cutter uses (with the duplicate-attribute switch on), edges declared by the caller in another "
                "order and orientation, sort_neighborhoods switched off at run time, a run() that raises on a bad index "
                "then repaired; vertex 0 singular in a quarter of the cases; two grids with more than 256 vertices "
                "(oracle only); 40% with a feature "
                "detector holding the border plus random interior feature edges/walks. Non-trivial = at least one "
                "interior edge is cut or the surface has genus > 0 or >= 2 border loops; distinct = canonical JSON")
    ctx.assumptions += ["the input is a connected oriented manifold triangulated surface without two faces on the same "
                        "three vertices (checked in Coq on every case: code 1)",
                        "the dual tree (float barycentre distances, heap ties) is taken from the implementation and "
                        "validated by a spanning-tree certificate instead of being recomputed"]
    ctx.regen(sys.modules[__name__])
    b = ctx.build_props(extra_targets=["theories/C16/Checkers.vo", "theories/C16/Run.vo"])
    ctx.hygiene(["Lib", "C16"])

    cases = []
    cdir = os.path.join(core.ROOT, "corpus", "C16")
    if os.path.isdir(cdir):
        for f in sorted(os.listdir(cdir)):
            if f.endswith(".json"):
                c = json.load(open(os.path.join(cdir, f)))
                c = c.get("replay", c)
                c.setdefault("info", dict(G.stats(c["nv"], c["faces"]), seed_kind="corpus", coords="?", singu_mode="?",
                                          features=c.get("feat") is not None, size="?", edits=[]))
                cases.append(c)
    cases += handcrafted()
    max_faces = 80 if quick else 100
    while len(cases) < n_gen:
        cases.append(G.gen_case(ctx.rng, max_faces=max_faces))
    # surfaces with more than 256 vertices (indices beyond the small-integer range; oracle only: too large for the
    # kernel-evaluated batches)
    big = []
    for _ in range(2 if quick else 8):
        n, m = ctx.rng.randint(17, 19), ctx.rng.randint(16, 18)
        wrap = ctx.rng.random() < 0.4
        nvb, fb = G.seed_grid(n, m, wrap_i=wrap, rng=ctx.rng)
        nvb, fb, perm = G.finalize(ctx.rng, nvb, fb)
        co = [None] * nvb
        for v, pxyz in enumerate(G.lattice_coords(ctx.rng, nvb, "random")):
            co[perm[v]] = pxyz
        sg = [v for v in ctx.rng.sample(range(257, nvb), 3)] + [ctx.rng.randrange(nvb)]
        form = ctx.rng.choice(["list", "array32", "npscalars", "generator"])
        c = {"nv": nvb, "faces": fb, "coords": co, "singus": sg, "feat": None, "form": form, "late": 0,
             "session": G.gen_session(ctx.rng, nvb, False, form), "big": True}
        c["info"] = dict(G.stats(nvb, fb), seed_kind="big-grid", coords="random", singu_mode="beyond-256", features=False,
                         size="big", edits=[], form=form, late=0)
        big.append(c)
    cases += big
    ctx.log("running the implementation on %d cases" % len(cases))
    obs = run_impl_cases(cases, timeout=900 if quick else 3000)
    ctx.log("implementation done")

    # ---- known finding witness replayed on the implementation
    wobs = run_one(WITNESS_SLIT)
    wf = oracle(WITNESS_SLIT, wobs)
    if wf and classify(WITNESS_SLIT, wobs, wf) == KEY_SLIT:
        if ctx.known(KEY_SLIT):
            ctx.report_known(KEY_SLIT, ctx.known(KEY_SLIT)["what"])
        else:
            ctx.violation("tetrahedron with singular vertices 0,1: " + wf[0][1], {"case": WITNESS_SLIT, "class": KEY_SLIT}, key=KEY_SLIT)
    else:
        ctx.notes.append("the witness of the known finding %s no longer fails on the implementation: %s" % (KEY_SLIT, wf))
        ctx.log("known-finding witness no longer fails (code repaired?)", wf)

    # ---- oracle on every case (the search for a failing input)
    fails = []
    for idx, (c, o) in enumerate(zip(cases, obs)):
        i = c["info"]
        ctx.count("genus=%s" % i.get("genus"))
        ctx.count("border_loops=%s" % i.get("loops"))
        ctx.count("faces<=%d" % (20 * ((i.get("nf", len(c["faces"])) + 19) // 20)))
        ctx.count("singularities=%s" % (len(set(c["singus"])) if len(set(c["singus"])) < 4 else "4+"))
        ctx.count("features=%s" % (c.get("feat") is not None))
        ctx.count("container=%s" % (c.get("form") or "list"))
        ctx.count("geometry=%s" % ("two-sided" if "two-sided" in str(i.get("coords")) else
                                   ("degenerate" if i.get("coords") in G.DEGENERATE else "generic")))
        if c.get("late"):
            ctx.count("list completed after construction")
        for k, v in sorted((c.get("session") or {}).items()):
            if v not in (None, False, 0):
                ctx.count("session %s" % (("call=" + v) if k == "call" else k))
        ctx.count("seed=%s" % i.get("seed_kind"))
        nontrivial = bool(o.get("ok")) and (len(o["cut"]) > len(o["boundary"]) or i.get("genus", 0) > 0 or i.get("loops", 0) >= 2)
        ctx.case_seen([c["nv"], c["faces"], c["coords"], c["singus"], c["feat"], c.get("form"), c.get("late"), c.get("session")], nontrivial=nontrivial,
                      sample={"faces": c["faces"][:6], "singus": c["singus"], "feat": c["feat"],
                              "cut": o.get("cut"), "n_out": len(o.get("out_verts") or [])})
        f = oracle(c, o)
        if f:
            fails.append((idx, f))
    keyed = [(idx, f, classify(cases[idx], obs[idx], f)) for idx, f in fails]
    unknown = [(idx, f, k) for idx, f, k in keyed if not ctx.known(k)]
    dropped = sum(1 for o in obs if not o.get("ok"))
    ctx.count("driver errors (counted as failures)", dropped)
    ctx.obligation("oracle: the property sentence restated by brute force holds of every observed output "
                   "(failures of a listed known-finding class excepted)",
                   "oracle-on-implementation", not unknown,
                   "%d failing cases, %d outside the known classes, %d driver errors" % (len(fails), len(unknown), dropped))
    ctx.log("oracle done: %d failing cases" % len(fails))
    # ---- kernel-checked correspondence + checkers
    bad = []
    usable = [k for k, o in enumerate(obs) if o.get("ok") and not cases[k].get("big")
              and o.get("evisited") is not None and o.get("cut0") is not None]
    unobserved = sum(1 for k, o in enumerate(obs) if o.get("ok") and not cases[k].get("big") and k not in set(usable))
    if unobserved:
        ctx.obligation("intermediate sets of the cutter (dual tree, cut_edges before pruning) are observable", "harness",
                       False, "%d cases: the wrapped private helpers were not called; correspondence not evaluated on them" % unobserved)
    ctx.count("oracle-only cases (more than 256 vertices)", sum(1 for c in cases if c.get("big")))
    if b["model_ok"]:
        terms = [case_term(cases[k], obs[k]) for k in usable]
        r = ctx.run_cases("cut", HEADER, terms, "check_case", case_type="case", shard=max(8, min(40, len(terms) // 16 + 1)),
                          timeout=900)
        bad = [usable[i] for i in (r or [])]
        if bad:
            # which check failed on the first few disagreeing cases
            sub = bad[:5]
            codes = sorted(CODES)
            terms2 = ["(%s, %s)" % (zlit(code), case_term(cases[k], obs[k])) for k in sub for code in codes]
            rr = ctx.run_cases("diag", HEADER + "Definition chk (p : Z * case) := has_code (fst p) (snd p).\n",
                               terms2, "chk", case_type="(Z * case)", shard=len(codes))
            ctx.obligations.pop()  # the diagnostic batch is not an obligation
            for i in (rr or []):
                k, code = sub[i // len(codes)], codes[i % len(codes)]
                ctx.log("case %d: check %d failed: %s | info %s singus %s feat %s" %
                        (k, code, CODES[code], cases[k]["info"], cases[k]["singus"], cases[k]["feat"]))
    else:
        ctx.obligation("correspondence batches", "correspondence", False, "model does not compile")

    ctx.log("correspondence done: %d disagreeing cases" % len(bad))
    # ---- verdicts
    reported = set()
    shrunk = 0
    for idx, f, key in sorted(keyed, key=lambda t: (ctx.known(t[2]) is not None, t[0])):
        if key in reported:
            continue
        reported.add(key)
        if ctx.known(key):
            ctx.report_known(key, ctx.known(key)["what"])
            continue
        if shrunk >= 3:
            ctx.violation("SingularityCutter: " + "; ".join(m for _, m in f[:3]),
                          {"case": strip(cases[idx]), "class": key}, key=key)
            continue
        shrunk += 1
        small = shrink(cases[idx], key)
        o2 = run_one(small)
        f2 = oracle(small, o2) or f
        ctx.violation("SingularityCutter: " + "; ".join(m for _, m in f2[:3]),
                      {"case": small, "class": key, "observed": {k: o2.get(k) for k in ("error", "cut", "out_faces", "ref_vertex")}},
                      key=key)
    unexplained = [k for k in bad if k not in {i for i, _ in fails}]
    if unexplained:
        ctx.notes.append("model/checkers and implementation disagree on cases %s although the oracle accepts them" % unexplained[:5])
        for k in unexplained[:3]:
            ctx.log("unexplained disagreement on case", k, json.dumps(strip(cases[k]))[:600])


def replay(ctx, data):
    case = data.get("case") or (data if "faces" in data else None)
    if not case:
        print("replay file names no concrete input:", json.dumps(data)[:400])
        return 1
    o = run_one(case)
    f = oracle(case, o)
    print("singular vertices %s handed over as %s%s" % (case["singus"], case.get("form") or "list",
          (", the last %d appended after construction" % case["late"]) if case.get("late") else ""))
    print("session:", json.dumps(case.get("session") or {}))
    print("observed:", json.dumps({k: o.get(k) for k in ("error", "cut", "out_faces", "ref_vertex", "mesh_unchanged", "attr_leak")})[:1500])
    if f:
        for k, m in f:
            print("FAILS [%s]: %s" % (k, m))
        return 1
    print("passes")
    return 0
