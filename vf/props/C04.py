"""C04 - saving then loading a mesh is lossless within each format's vocabulary."""
import json
import os
import re
import struct
import sys

from .. import core
from ..core import coq_list, coq_bool
from ..translate import c04 as tr

META = {
    "property_id": "C04",
    "design_ref": "DESIGN.md section 5, C04",
    "technique": "Coq proof (token-level codecs print_f / parse_f of every writable format modelled from export_*/import_*; round trip "
                 "parse_f (print_f m) = vocab_f m by induction over the vertex / element / attribute lists; interoperability against "
                 "independent reference codecs written from the format descriptions) + translator-regenerated keywords, arities, index "
                 "offsets, slices, chunk names, type tables, struct layout + kernel-checked correspondence batches on the files mouette "
                 "writes and reads (incl. an edited / malformed stream and third-party files) + independent Python readers/writers as oracle",
    "level_text": "Machine-checked Coq theorems, for ALL meshes (unbounded vertex/element/attribute lists), about an executable model of "
                  "mouette/mesh/io/*.py and the save/load plumbing of mesh.py whose constants, tables and decision expressions are regenerated "
                  "from /repo on every run. PROVED (guards are visible premises): round trip parse_f(print_f m) = vocab_f m for xyz and obj "
                  "(meshes without normals/uv_coords attributes; both edge-export switches, ignore_elements; for obj, since references <= 0 are "
                  "relative, the visible guard that the indices of the mesh are natural numbers), off (faces of >=3 vertices), tet, "
                  "Medit .mesh (per arity class; hard-edge-only export), geogram_ascii (vertices, edges, faces of any arity via facet_ptr, cells "
                  "of any arity via cell_ptr, cell adjacency of tetrahedral meshes, attributes of the five types on the seven containers incl. "
                  "string values and names with any characters, which are percent-encoded; guard geo_ok: names distinct and not reserved by the "
                  "format); attribute name/type/arity and dense values (corollary; a scalar equal to the default reads back as the default); "
                  "interoperability both ways with independent reference codecs for xyz, obj, off, tet, Medit; OBJ RELATIVE references (a file "
                  "whose f / l statements designate the vertex i of the n read so far by i - n loads as the mesh it denotes: "
                  "C04_interop_obj_relative, after the repair of resolve_index in /repo); extension dispatch; "
                  "ignore_elements; kinds a format cannot express are absent (corollary); the loaded class is the one the content implies; "
                  "load(path, dim=d) with d not above the content's dimension gives the same class (dim is a lower bound, nothing is dropped). "
                  "PARTIAL: geogram_ascii interoperability (proved: an independent count-driven reader cuts mouette's file exactly into the "
                  "attribute sets / attributes written, i.e. declared counts are consistent; the converse, and a file written by geogram "
                  "itself, are compared per run with the model's parser); STL (binary32 triangle soup of triangle meshes through a reader of "
                  "the binary layout; the importer is the third-party stl_reader, compared per run). REFUTED, each a narrowly keyed known "
                  "finding whose witness is replayed on every run: Medit sections whose count is "
                  "on the keyword line are skipped; Medit Dimension 2 files get the reference label as z; a geogram user attribute named like "
                  "a name the format reserves (e.g. 'point') is read as geometry; STL writes a quad as two triangles instead of leaving it "
                  "out. TESTED only (kernel-checked correspondence + independent Python oracle, per run): that mouette's save/load are the "
                  "model's print_f/parse_f (files token for token, floats by bit pattern; a float the file spells as an integer is accepted); "
                  "the PREPARED object load(path) returns, element-wise (faces incl. those completed from cells, edges as a set); save does "
                  "not modify the mesh; the optional parts an independent writer may emit (OFF colours/comments/inline counts, OBJ o g s "
                  "usemtl mtllib vt vn, v/vt/vn forms, polylines, Medit optional sections/labels/indentation, xyz count line/extra columns); "
                  "an edited/malformed stream; third-party files; float('{}'.format(x)) == x and urllib quote/unquote (hypotheses of the "
                  "theorems; 10^5 doubles in the thorough tier); SESSIONS: in every format two meshes are saved and loaded several times in ONE "
                  "process (every call form of save/load, upper-case extension, explicit dim 0..3, calls that raise in between, a loaded "
                  "mesh edited in place, connectivity queried before saving, the loaded mesh saved and loaded again): objects and calls of "
                  "a session do not influence each other; the data handed over as python / numpy scalars and rows (int32, int64, uint8, "
                  "integer coordinates), vertex indices beyond 256, coincident vertices, string attributes of arity >= 2 with the "
                  "characters special in a geogram file. The translator also fails closed on decorators it does not know, mutable "
                  "default arguments, global / module-level mutable state in the codec files.",
    "level_note": "Trusted: Coq kernel + vm_compute; the fail-closed translator vf/translate/c04.py (its output is exercised by the "
                  "correspondence); the harness (generators, tokeniser, driver canonicalisation: floats as bit patterns, a float text is "
                  "identified with the double it denotes); CPython/numpy float and complex text round trip (section hypotheses rf_pf, rc_pc); "
                  "struct.pack native 'f' = IEEE rounding to binary32 (coordinates beyond the binary32 range become +-inf in STL files); "
                  "stl_reader; RawMeshData.prepare (C02's subject) builds the meshes that are saved; the uv_coords / normals attributes OBJ and xyz "
                  "imports create (and the IndexError of a dangling vt/vn reference) and ply are outside the model. ASCII STL import and the normals / "
                  "uv_coords columns and statements of the xyz / obj exporters have no Coq model: they are TESTED per run (every attribute an "
                  "exporter looks up by name - the list is read from the source - in every storage state: dense / sparse, fully / partly / not "
                  "written, only the last element, wrong arity, integer values; ASCII STL files of an independent writer with one or several "
                  "solids, named or not, empty solids, blank lines, any indentation, trailing blanks, CRLF, no final line end; judged by the "
                  "oracle and independent readers) and their loops / continue / break / return skeleton is pinned by the translator "
                  "(vf/translate/c04_control.json, all codec functions). Variations the readers do NOT support, outside the property because "
                  "the formats do not define them or a third-party component decides: ASCII STL keywords in upper case (the format spells "
                  "them in lower case; such lines are ignored), a blank or comment line before the first `solid` and a binary STL whose "
                  "80-byte header starts with `solid` (the file kind is decided on the first line; stl_reader then refuses or aborts), blank "
                  "lines inside a .tet file (count-driven, no grammar for them), a wrong-arity attribute under a consulted name (save or load "
                  "may raise: a refusal, not a loss). "
                  "Deliberately left free: the class and message of every exception (a refusal is judged legitimate or not from the input: "
                  "coordinates beyond binary32 or polygons for STL, a wrong-shaped attribute under a consulted name, ignore_elements given as "
                  "another collection than a set, an explicit dim, an upper-case extension may be refused; an input the text says must be "
                  "answered may not, whatever the class); attributes the loaded or the saved mesh carries BEYOND the saved ones (importer's "
                  "tables, caches); whether the cell adjacency is stored at all (when it is, it must be right); the order and orientation of "
                  "the faces prepare() completes from cells and the order of completed edges; the order between the element types of a Medit "
                  "file; whether two saves of one mesh give identical bytes (the CONTENT of the files must agree); whether xyz / obj hand "
                  "normals / uv back; the class obtained with an explicit dim as long as no element kind is dropped; the sign of a zero "
                  "of ATTRIBUTE values (the text says bit-exact for coordinates, 'values' for attributes: numeric equality, so -0.0 read "
                  "back as 0.0 by the geogram importer is not counted); warnings, stdout / stderr, repr, numpy vs python scalar types and "
                  "dtypes of index rows (integral floats included). NaN / inf coordinates and attribute values are not generated "
                  "(assumption). Constrained on purpose: the order of the elements of one kind (attributes and indices refer to positions), "
                  "the vertex order inside an element, bit-exact coordinates. "
                  "Medit inline counts / Dimension 2 ARE covered by the property "
                  "text and are the known findings above. A scalar attribute value equal to the type default (-0.0, "
                  "0j with signed zeros) reads back as the default.",
}

HEADER = """From Coq Require Import ZArith Bool String.
From Coq Require Import List.
Import ListNotations.
Require Import MV.C04.Gen MV.C04.Model MV.C04.Run.
Open Scope string_scope. Open Scope list_scope. Open Scope Z_scope.
"""

TEXT_FORMATS = ["xyz", "obj", "off", "tet", "mesh", "geogram_ascii"]
FMT_COQ = {"xyz": "Fxyz", "obj": "Fobj", "off": "Foff", "tet": "Ftet", "mesh": "Fmedit", "geogram_ascii": "Fgeo"}


def gen(ctx):
    return tr.gen()


# ---------------------------------------------------------------------- floats
def f2b(x):
    return struct.unpack("<Q", struct.pack("<d", float(x)))[0]


def b2f(b):
    return struct.unpack("<d", struct.pack("<Q", int(b)))[0]


SPECIAL = [0.0, -0.0, 1.0, -1.0, 0.5, 0.1, 1 / 3, -2.75, 5e-324, -5e-324, 2.2250738585072014e-308, 1e-310,
           1.7976931348623157e308, -1.7976931348623157e308, 1e300, 1e22, 1e16, 123456789.125, 2.0 ** 53, 1e-7, 3.0, 2.0, -3.5, 1e39, -1e39,
           3.4028234663852886e38, 1e-46]


def rand_float(rng, style):
    if style == "small":
        return float(rng.randint(-4, 6))
    if style == "dyadic":
        return rng.randint(-64, 64) / 8.0
    if style == "special":
        return rng.choice(SPECIAL)
    while True:  # any finite double
        b = rng.getrandbits(64)
        x = b2f(b)
        if x == x and x not in (float("inf"), float("-inf")):
            return x


# ---------------------------------------------------------------------- mesh generator (raw data handed to mouette)
def gen_mesh(rng, kind=None):
    kind = kind or rng.choice(["cloud", "polyline", "tri", "tri", "quad", "mixed", "polygon", "tet", "tet", "hex", "tethex", "surf+edges", "empty"])
    style = rng.choice(["small", "small", "dyadic", "special", "any", "coincident"])
    big = kind.startswith("big-")       # vertex indices beyond 256 (and beyond one byte / small-int identity)
    if big:
        kind = kind[4:]
    nv = 0 if kind == "empty" else rng.choice([1, 2, 3, 4, 5, 6, 8, 9, 12])
    if kind in ("tri", "quad", "mixed", "polygon", "surf+edges"):
        nv = max(nv, 6 if kind == "polygon" else 4)
    if kind in ("tet", "tethex"):
        nv = max(nv, 5)
    if kind in ("hex", "tethex"):
        nv = max(nv, 9)
    if kind == "polyline":
        nv = max(nv, 2)
    edge255 = big and rng.random() < 0.3      # exactly 256 vertices, indices handed over as uint8: 255 is the last value of the type
    if big:
        nv = 256 if edge255 else rng.randint(259, 266)
        style = "small"
    if style == "coincident":
        # valid combinatorics on degenerate geometry: all vertices at one point, or a few distinct positions shared by all
        pool = [[f2b(rand_float(rng, "dyadic")) for _ in range(3)] for _ in range(rng.choice([1, 1, 2, 3]))]
        V = [list(rng.choice(pool)) for _ in range(nv)]
    else:
        V = [[f2b(rand_float(rng, style)) for _ in range(3)] for _ in range(nv)]
    E, F, C = [], [], []

    def face(k):
        if big:    # mostly high indices, sometimes vertex 0
            pool = [x for x in list(range(247, nv)) + [0, 1, 255, 256, 257] if x < nv]
            f = rng.sample(sorted(set(pool)), k)
            if edge255 and 255 not in f:
                f[rng.randrange(k)] = 255
            return f
        f = rng.sample(range(nv), k)
        if rng.random() < 0.3 and 0 not in f:
            f[rng.randrange(k)] = 0          # vertex 0 takes part (first, middle or last corner)
        return f

    if kind == "polyline":
        for _ in range(rng.randint(1, 6)):
            E.append(face(2))
    if kind in ("tri", "mixed", "surf+edges"):
        F += [face(3) for _ in range(rng.randint(1, 6))]
    if kind in ("quad", "mixed"):
        F += [face(4) for _ in range(rng.randint(1, 4))]
    if kind == "polygon":
        F += [face(rng.choice([3, 4, 5, 5, 6])) for _ in range(rng.randint(1, 4))]
    if kind in ("mixed", "polygon"):
        rng.shuffle(F)
    if kind == "surf+edges":
        for _ in range(rng.randint(1, 3)):
            E.append(face(2))
    if kind in ("tet", "tethex"):
        C += [face(4) for _ in range(rng.randint(1, 4))]
    if kind in ("hex", "tethex"):
        C += [face(8) for _ in range(rng.randint(1, 2))]
    if kind == "tethex":
        rng.shuffle(C)
    out = {"kind": ("big-" if big else "") + kind, "style": style, "V": V, "E": E, "F": F, "C": C}
    if F and rng.random() < 0.3:
        out["hard_set"] = [rng.randrange(0, 3 * len(F) + len(E) + 1) for _ in range(rng.randint(1, 3))]   # some completed edges flagged hard too
        if rng.random() < 0.5:
            out["hard_set"].append(0)      # edge 0 is the hard one
    # the representation in which the caller hands the data over (python / numpy scalars and rows)
    r = rng.random()
    if edge255:
        out["idx_repr"] = "npu8"
    elif r < 0.45:
        out["idx_repr"] = rng.choice(["np32", "np64", "npu8", "npscalars", "tuple"])
    r = rng.random()
    if r < 0.35:
        out["v_repr"] = rng.choice(["list", "nprow", "int"])
    return out


ATYPES = ["Bool", "Int", "Float", "Complex", "String"]
WORDS = ["a", "b", "foo", "bar", "hello", "x_y", "Zed", "w1", "north", "alpha-beta",
         "a#b", " lead", "trail ", "two words", "x\ny", "", "[ATTR]", "[HEAD]", "say \"hi\"", "100%", "%41", "tab\there", "12", "-3.5", "(1+2j)", "#"]
NAME_EXTRA = ["na#me", "my attr", " padded ", "quo\"te", "line\nbreak", "[ATTS]", "per%cent", "GEO::Mesh::mine", "#x"]


def gen_aval(rng, ty):
    if ty == "Bool":
        return rng.random() < 0.6
    if ty == "Int":
        return rng.choice([0, 1, -1, 7, 42, -300, 4294967295, 2 ** 40])
    if ty == "Float":
        return f2b(rand_float(rng, rng.choice(["small", "dyadic", "special", "any"])))
    if ty == "Complex":
        return [f2b(rand_float(rng, "dyadic")), f2b(rand_float(rng, rng.choice(["small", "dyadic"])))]
    return rng.choice(WORDS)


def gen_attrs(rng, mesh, stress=False):
    """random attributes on the containers of the mesh (created by the driver once the mesh is prepared).
    stress: on every container a string attribute of arity 2 or 3 whose values hold the characters that are special in a
    geogram file, and one numeric vector attribute (every type x arity >= 2 goes through the vector branch of the exporter)."""
    out = {}
    names = ["att", "w", "flag", "label", "uv", "k2", "normals_", "my attr".replace(" ", "_")]
    special = [w for w in WORDS if any(c in w for c in "#%[ \n\t\"") or w == ""]
    for ck in ("V", "E", "F", "FC", "C", "CC", "CF"):
        if not stress and rng.random() < 0.55:
            continue
        lst = []
        picked = rng.sample(names, rng.choice([1, 1, 2]))
        if rng.random() < 0.35:
            picked.append(rng.choice(NAME_EXTRA))
        plan = [(name, rng.choice(ATYPES), rng.choice([1, 1, 1, 2, 3])) for name in picked]
        if stress:
            plan = [("tags", "String", rng.choice([2, 3])), ("vec", rng.choice(["Bool", "Int", "Float", "Complex"]), rng.choice([2, 3])),
                    ("one", "String", 1)]
        for name, ty, ar in plan:
            dense = rng.random() < 0.3
            vals = []
            # element 0 carries a value in most cases; keys stay within the sizes small meshes have (the driver drops the others)
            keys = set(rng.sample(range(14), rng.randint(0, 6))) | set(rng.sample(range(40), rng.randint(0, 2)))
            if rng.random() < 0.6 or stress:
                keys.add(0)
            for k in sorted(keys):
                if stress and ty == "String":
                    vals.append([k, [rng.choice(special if rng.random() < 0.7 else WORDS) for _ in range(ar)]])
                else:
                    vals.append([k, [gen_aval(rng, ty) for _ in range(ar)]])
            a = {"name": name + "_" + ck.lower(), "type": ty, "arity": ar, "dense": dense, "vals": vals}
            if rng.random() < 0.3:
                a["np"] = True       # values handed over as numpy scalars / arrays
            lst.append(a)
        out[ck] = lst
    return out


def gen_cfg(rng):
    cfg = {}
    r = rng.random()
    if r < 0.15:
        cfg["complete_edges_from_faces"] = False
    elif r < 0.25:
        cfg["export_edges_in_obj"] = False
    elif r < 0.3:
        cfg["complete_faces_from_cells"] = False
    return cfg


# ---------------------------------------------------------------------- tokens
INT_RE = re.compile(r"[+-]?[0-9]+\Z")


def tok_of_text(t):
    if INT_RE.match(t):
        return ["i", int(t)]
    try:
        return ["f", f2b(float(t))]
    except ValueError:
        pass
    try:
        if "j" in t:
            c = complex(t)
            return ["c", f2b(c.real), f2b(c.imag)]
    except ValueError:
        pass
    return ["w", t]


def tokenize(text, fmt=None):
    lines = text.split("\n")
    if lines and lines[-1] == "":
        lines.pop()
    if fmt == "off":   # a # starts a comment in an OFF file (import_off removes it before splitting)
        lines = [ln.split("#")[0] for ln in lines]
    return [[tok_of_text(t) for t in ln.split()] for ln in lines]


def tokenize_geogram(text):
    """one token per line (comment and blanks removed); the data lines of a string-typed [ATTR] chunk are words"""
    lines = text.split("\n")
    if lines and lines[-1] == "":
        lines.pop()
    out = []
    pos = None       # position inside the current chunk
    is_str = False
    for ln in lines:
        t = ln.split("#")[0].strip()
        if "[HEAD]" in t or "[ATTS]" in t or "[ATTR]" in t:
            pos = 0
            is_str = False
        elif pos is not None:
            pos += 1
        if pos == 3 and t.strip('"') in ("str", "string"):
            is_str = True
        if is_str and pos is not None and pos >= 6:
            out.append([["w", t]])
        elif t == "" or " " in t or "\t" in t:
            out.append([["w", t]])
        else:
            out.append([tok_of_text(t)])
    return out


def text_of_tok(t):
    if t[0] == "i":
        return str(t[1])
    if t[0] == "f":
        return repr(b2f(t[1]))
    if t[0] == "c":
        return "{}".format(complex(b2f(t[1]), b2f(t[2])))
    return t[1]


def text_of_lines(lines):
    return "".join(" ".join(text_of_tok(t) for t in ln) + "\n" for ln in lines)


def printable(s):
    return all(32 <= ord(c) < 127 or c in "\n\t" for c in s)


# ---------------------------------------------------------------------- Gallina encoders
def z(n):
    n = int(n)
    return "(%d)" % n if n < 0 else "%d" % n


def zl(xs):
    return "[" + "; ".join(z(x) for x in xs) + "]"


def zll(xss):
    return "[" + "; ".join(zl(x) for x in xss) + "]"


def cstr(s):
    return '"' + s.replace('"', '""') + '"'


def tok_term(t):
    if t[0] == "i":
        return "tI %s" % z(t[1])
    if t[0] == "f":
        return "tF %s" % z(t[1])
    if t[0] == "c":
        return "tC (%s, %s)" % (z(t[1]), z(t[2]))
    return "tW %s" % cstr(t[1])


def lines_term(lines):
    return "[" + "; ".join("[" + "; ".join(tok_term(t) for t in ln) + "]" for ln in lines) + "]"


TY = {"Bool": "TyBool", "Int": "TyInt", "Float": "TyFloat", "Complex": "TyComplex", "String": "TyString"}


def aval_term(v):
    if v[0] == "b":
        return "vB %s" % coq_bool(v[1])
    if v[0] == "i":
        return "vI %s" % z(v[1])
    if v[0] == "f":
        return "vF %s" % z(v[1])
    if v[0] == "c":
        return "vC (%s, %s)" % (z(v[1]), z(v[2]))
    if v[0] == "s":
        return "vS %s" % cstr(v[1])
    raise ValueError(v)


def attr_term(a):
    name, ty, ar, vals = a
    return "(zmkattr %s %s %s [%s])" % (cstr(name), TY[ty], z(ar), "; ".join(aval_term(v) for v in vals))


def sattr_term(a):
    name, ty, ar, kind, items = a
    return "(zmksattr %s %s %s [%s])" % (cstr(name), TY[ty], z(ar),
                                       "; ".join("(%s, [%s])" % (z(k), "; ".join(aval_term(v) for v in vs)) for k, vs in items))


def mesh_term(mi, with_attrs=False):
    V = "[" + "; ".join("(%s, %s, %s)" % (z(v[0]), z(v[1]), z(v[2])) for v in mi["V"]) + "]"
    E = "[" + "; ".join("(%s, %s)" % (z(e[0]), z(e[1])) for e in (mi["E"] or [])) + "]"
    hard = "None" if mi.get("hard") is None else "(Some %s)" % zl(mi["hard"])
    at = mi.get("attrs") or {}

    def al(k):
        if not with_attrs:
            return "[]"
        return "[" + "; ".join(attr_term(a) for a in at.get(k, [])) + "]"
    adj = zl(mi.get("adj") or []) if with_attrs else "[]"
    return "(zmkmesh %s %s %s %s %s %s %s %s %s %s %s %s %s)" % (
        V, E, hard, zll(mi["F"] or []), zll(mi["C"] or []), al("V"), al("E"), al("F"), al("FC"), al("C"), al("CC"), al("CF"), adj)


def raw_term(r, with_attrs=False):
    at = r.get("attrs") or {}

    def al(k):
        if not with_attrs:
            return "[]"
        return "[" + "; ".join(sattr_term(a) for a in at.get(k, [])) + "]"
    return "(zmkraw %s %s %s %s %s %s %s %s %s %s %s)" % (
        zll(r["V"]), zll(r["E"]), zll(r["F"]), zll(r["C"]), al("V"), al("E"), al("F"), al("FC"), al("C"), al("CC"), al("CF"))


def sw_term(cfg, ignore):
    return "(mksw %s %s [%s])" % (coq_bool(cfg.get("export_edges_in_obj", True)), coq_bool(cfg.get("complete_edges_from_faces", True)),
                                  "; ".join(cstr(s) for s in (ignore or [])))


def all_ints(x):
    if isinstance(x, list):
        return all(all_ints(y) for y in x)
    return isinstance(x, int)


def mesh_modelled(mi):
    """the observed mesh is within the model's input type (3-vectors, integer indices, pairs for edges)"""
    return (all(len(v) == 3 for v in mi["V"]) and all_ints(mi["E"] or []) and all(len(e) == 2 for e in (mi["E"] or []))
            and all_ints(mi["F"] or []) and all_ints(mi["C"] or []) and all_ints(mi.get("hard") or []))


def raw_modelled(r):
    return all_ints(r["E"]) and all_ints(r["F"]) and all_ints(r["C"])


# ---------------------------------------------------------------------- independent oracle: the property restated
def keyify(e):
    return sorted(e)


def expected_raw(fmt, mi, cfg, ignore):
    """What a lossless save/load must give back (RawMeshData level) for the element kinds `fmt` can express.
    Independent of the Coq model: written from the property sentence and the formats' vocabularies."""
    ign = set(ignore or [])
    V = [list(v) for v in mi["V"]]
    E = [] if "edges" in ign else [list(e) for e in (mi["E"] or [])]
    hard = None if "edges" in ign else mi.get("hard")
    F = [] if "faces" in ign else [list(f) for f in (mi["F"] or [])]
    C = [] if "cells" in ign else [list(c) for c in (mi["C"] or [])]
    dim = 3 if C else 2 if F else 1 if E else 0

    def carried_edges():
        # formats that carry edges only write the explicit (hard) ones when the others are implied by the faces
        if hard is None:
            return E
        return [E[k] for k in hard]
    if fmt == "xyz":
        return {"V": V, "E": [], "F": [], "C": []}
    if fmt == "obj":
        if not cfg.get("export_edges_in_obj", True):
            e = []
        elif not cfg.get("complete_edges_from_faces", True) or dim == 1:
            e = E
        else:
            e = carried_edges() if hard is not None else []
        return {"V": V, "E": [keyify(x) for x in e], "F": F, "C": []}
    if fmt == "off":
        return {"V": V, "E": [], "F": F, "C": []}
    if fmt == "tet":
        return {"V": V, "E": [], "F": [], "C": C}
    if fmt == "mesh":
        return {"V": V, "E": carried_edges() if E else [],
                "F": [f for f in F if len(f) == 3] + [f for f in F if len(f) == 4],
                "C": [c for c in C if len(c) == 8] + [c for c in C if len(c) == 4]}
    if fmt == "geogram_ascii":
        return {"V": V, "E": E, "F": F, "C": C}
    raise ValueError(fmt)


DEFAULTS = {"Bool": ["b", False], "Int": ["i", 0], "Float": ["f", 0], "Complex": ["c", 0, 0], "String": ["s", ""]}
NEGZERO = 1 << 63


def norm_val(v):
    """numeric equality for attribute values: -0.0 and 0.0 are the same number"""
    if v[0] == "f" and v[1] == NEGZERO:
        return ["f", 0]
    if v[0] == "c":
        return ["c", 0 if v[1] == NEGZERO else v[1], 0 if v[2] == NEGZERO else v[2]]
    return v


def dense_from_sparse(a, n):
    name, ty, ar, kind, items = a
    d = dict((k, vs) for k, vs in items)
    out = []
    for i in range(n):
        out += d.get(i, [DEFAULTS[ty]] * ar)
    return out


def oracle_geogram_attrs(mi, adj, got, ignore):
    """every attribute comes back with its name, type, arity and values (read densely)"""
    ign = set(ignore or [])
    nE = 0 if "edges" in ign else len(mi["E"] or [])
    F = [] if "faces" in ign else (mi["F"] or [])
    C = [] if "cells" in ign else (mi["C"] or [])
    sizes = {"V": len(mi["V"]), "E": nE, "F": len(F), "FC": sum(len(f) for f in F), "C": len(C),
             "CC": sum(len(c) for c in C), "CF": sum(4 if len(c) == 4 else 6 for c in C)}
    for ck in ("V", "E", "F", "FC", "C", "CC", "CF"):
        orig = (mi.get("attrs") or {}).get(ck, [])
        if ck != "V" and sizes[{"E": "E", "F": "F", "FC": "F", "C": "C", "CC": "C", "CF": "C"}[ck]] == 0:
            orig = []   # the container is not written at all
        back = {a[0]: a for a in got["attrs"].get(ck, [])}
        names = [a[0] for a in orig]
        # attributes the loaded mesh carries beyond the saved ones (the importer's own tables, caches) are left free
        for name, ty, ar, vals in orig:
            if name not in back:
                return "attribute %r of %s is lost by save/load" % (name, ck)
            b = back[name]
            if b[1] != ty or b[2] != ar:
                return "attribute %r of %s comes back as %s x%d instead of %s x%d" % (name, ck, b[1], b[2], ty, ar)
            dv = dense_from_sparse(b, sizes[ck])
            if [norm_val(v) for v in dv] != [norm_val(v) for v in vals]:
                return "values of attribute %r of %s differ after save/load: saved %s, loaded %s" % (name, ck, json.dumps(vals)[:200], json.dumps(dv)[:200])
        if ck == "CF" and C and all(len(c) == 4 for c in C) and adj != "not compared":
            if "opposite_cell" not in back:
                continue      # the property does not ask for the adjacency to be stored: when it is, it must be the right one
            dv = dense_from_sparse(back["opposite_cell"], sizes["CF"])
            want = [["i", x] for x in (adj or [])]
            # unset entries of the adjacency read as NOT_AN_ID
            dv = [["i", 4294967295] if (i not in dict((k, 1) for k, _ in back["opposite_cell"][4])) else v for i, v in enumerate(dv)]
            if dv != want:
                return "cell adjacency differs after save/load: saved %s, loaded %s" % (want, dv)
    return None


CLASS = {0: "PointCloud", 1: "PolyLine", 2: "SurfaceMesh", 3: "VolumeMesh"}


def implied_class(r):
    return CLASS[3 if r["C"] else 2 if r["F"] else 1 if r["E"] else 0]


TET_FACES = [(1, 3, 2), (0, 2, 3), (3, 1, 0), (0, 1, 2)]
HEX_FACES = [(0, 1, 2, 3), (4, 5, 6, 7), (0, 3, 7, 4), (0, 1, 5, 4), (1, 2, 6, 5), (2, 3, 7, 6)]


def expected_prepared(want, cfg):
    """The finished object load(path) must hand back for file content `want`: same vertices, faces (plus the faces of the cells
    that are not listed, in cell order), cells; as edges, the valid listed ones plus the sides of the faces (compared as a set)."""
    V, C = want["V"], [list(c) for c in want["C"]]
    F = [list(f) for f in want["F"]]
    if cfg.get("complete_faces_from_cells", True):
        seen = {tuple(sorted(f)) for f in F}
        for c in C:
            tab = TET_FACES if len(c) == 4 else HEX_FACES if len(c) == 8 else []
            for t in tab:
                f = [c[i] for i in t]
                if tuple(sorted(f)) not in seen:
                    seen.add(tuple(sorted(f)))
                    F.append(f)
    n = len(V)
    E = {tuple(sorted(e)) for e in want["E"] if len(e) == 2 and e[0] != e[1] and 0 <= e[0] < n and 0 <= e[1] < n}
    if cfg.get("complete_edges_from_faces", True):
        for f in F:
            for i in range(len(f)):
                E.add(tuple(sorted((f[i], f[(i + 1) % len(f)]))))
    return {"V": V, "F": F, "C": C, "E": sorted(list(e) for e in E)}


def oracle_prepared(ld, want, cfg):
    """element-wise comparison of the PREPARED object mouette.mesh.load(path) returns with the content of the file"""
    lo = ld.get("loaded")
    if lo is None:
        return None
    exp = expected_prepared(want, cfg)
    if any(x < 0 or x >= len(exp["V"]) for k in "FC" for el in exp[k] for x in el):
        return None   # elements pointing outside the vertices: prepare is not defined on them
    if lo["V"] != exp["V"]:
        return "the loaded mesh has vertices %s, the file holds %s" % (json.dumps(lo["V"])[:200], json.dumps(exp["V"])[:200])
    nl = len(want["F"])       # the faces the file lists come first, in file order; those completed from the cells: as a set, any rotation
    gotF = lo["F"] or []
    if gotF[:nl] != exp["F"][:nl] or sorted(tuple(sorted(f)) for f in gotF[nl:]) != sorted(tuple(sorted(f)) for f in exp["F"][nl:]):
        return "the loaded mesh has faces %s, expected %s" % (json.dumps(gotF)[:200], json.dumps(exp["F"])[:200])
    if (lo["C"] or []) != exp["C"]:
        return "the loaded mesh has cells %s, expected %s" % (json.dumps(lo["C"])[:200], json.dumps(exp["C"])[:200])
    got_e = sorted(sorted(e) for e in (lo["E"] or []))
    if sorted(map(list, {tuple(e) for e in got_e})) != exp["E"]:
        return "the loaded mesh has the edge set %s, expected %s" % (json.dumps(got_e)[:200], json.dumps(exp["E"])[:200])
    return None


def oracle_save_load(fmt, job, res):
    """None, or a description of how this save -> load violates C04."""
    mi = res["mesh_in"]
    cfg, ignore = job.get("cfg") or {}, job.get("ignore")
    if not res.get("unchanged", True):
        return "save modified the mesh it was given"
    if fmt == "off" and any(len(f) < 3 for f in (mi["F"] or [])):
        return None  # faces of fewer than 3 vertices are not faces
    if "save_exc" in res:
        return "save raised %s: %s" % (res["save_exc"]["exc"], res["save_exc"]["msg"])
    if fmt == "geogram_ascii" and mi.get("FC") is not None and mi["FC"] != [x for f in (mi["F"] or []) for x in f]:
        return "the face corners of the prepared mesh are not the concatenation of its faces"
    ld = res.get("load")
    if ld is None:
        return None
    if "raw_exc" in ld:
        return "loading the saved file raised %s: %s" % (ld["raw_exc"]["exc"], ld["raw_exc"]["msg"])
    want = expected_raw(fmt, mi, cfg, ignore)
    got = ld["raw"]
    if fmt == "mesh":
        # Medit stores one section per element type: the order BETWEEN the types is the writer's choice, within a type it is kept
        for k in "FC":
            if len(got[k]) == len(want[k]) and all([x for x in got[k] if len(x) == n] == [x for x in want[k] if len(x) == n]
                                                    for n in {len(x) for x in got[k] + want[k]}):
                want[k] = got[k]
    for k, what in (("V", "vertex coordinates"), ("E", "edges"), ("F", "faces"), ("C", "cells")):
        if got[k] != want[k]:
            return "%s differ after save/load: saved %s, loaded %s" % (what, json.dumps(want[k])[:300], json.dumps(got[k])[:300])
    if fmt == "geogram_ascii":
        msg = oracle_geogram_attrs(mi, res.get("adj"), got, ignore)
        if msg:
            return msg
    if "class_exc" in ld:
        return "building the loaded mesh raised %s: %s" % (ld["class_exc"]["exc"], ld["class_exc"]["msg"])
    if ld["class"] != implied_class(want):
        return "loaded object is a %s, its content implies %s" % (ld["class"], implied_class(want))
    return oracle_prepared(ld, want, cfg)


# ---------------------------------------------------------------------- malformed / variant stream for the importers
KEYWORDS = ["v", "f", "l", "vn", "vt", "OFF", "Vertices", "Edges", "Triangles", "Quadrilaterals", "Tetrahedra", "Hexahedra", "End",
            "vertices", "tets", "[ATTR]", "[ATTS]", "[HEAD]"]


def mutate_lines(rng, lines, geo=False):
    """one random edit of a token file (list of lines of tokens); returns (kind, new lines)"""
    L = [list(ln) for ln in lines]
    kinds = ["del_tok", "del_line", "dup_line", "int_pm", "retype", "blank", "swap", "truncate", "keyword", "extra_tok"]
    kind = rng.choice(kinds)
    if not L:
        return "blank", [[]]
    i = rng.randrange(len(L))
    if kind == "del_tok":
        cand = [k for k, ln in enumerate(L) if ln]
        if cand and not geo:
            i = rng.choice(cand)
            del L[i][rng.randrange(len(L[i]))]
        else:
            del L[i]
    elif kind == "del_line":
        del L[i]
    elif kind == "dup_line":
        L.insert(i, list(L[i]))
    elif kind == "int_pm":
        cand = [(a, b) for a, ln in enumerate(L) for b, t in enumerate(ln) if t[0] == "i"]
        if cand:
            a, b = rng.choice(cand)
            L[a][b] = ["i", L[a][b][1] + rng.choice([-1, 1, 1, 2, -3])]
    elif kind == "retype":
        cand = [(a, b) for a, ln in enumerate(L) for b, t in enumerate(ln) if t[0] in ("i", "f")]
        if cand:
            a, b = rng.choice(cand)
            L[a][b] = ["f", f2b(2.5)] if L[a][b][0] == "i" else ["i", rng.choice([0, 1, 3, -2])]
    elif kind == "blank":
        L.insert(i, [["w", ""]] if geo else [])
    elif kind == "swap":
        j = rng.randrange(len(L))
        L[i], L[j] = L[j], L[i]
    elif kind == "truncate":
        L = L[:i]
    elif kind == "keyword":
        cand = [(a, b) for a, ln in enumerate(L) for b, t in enumerate(ln) if t[0] == "w" and t[1] in KEYWORDS]
        if cand:
            a, b = rng.choice(cand)
            L[a][b] = ["w", rng.choice(KEYWORDS + [L[a][b][1] + "x"])]
    elif kind == "extra_tok":
        if geo:
            L.insert(i, [rng.choice([["i", 7], ["f", f2b(0.5)], ["w", "zz"]])])
        else:
            L[i].insert(rng.randrange(len(L[i]) + 1), rng.choice([["i", 7], ["f", f2b(0.5)], ["w", "zz"]]))
    return kind, L


# ---------------------------------------------------------------------- reference codecs (independent of mouette)
# Written from the format descriptions (Wavefront OBJ, Geomview OFF, INRIA Medit, .tet / .xyz conventions); they are the
# Python twins of coq/theories/C04/Ref.v and are checked against it in the kernel-evaluated batches.
REF_FORMATS = ["xyz", "obj", "off", "tet", "mesh"]


def W(s):
    return ["w", s]


def I(n):
    return ["i", int(n)]


def ref_write(fmt, mi):
    V = [[["f", c] for c in v] for v in mi["V"]]
    E, Fs, C = (mi["E"] or []), (mi["F"] or []), (mi["C"] or [])
    if fmt == "xyz":
        return V
    if fmt == "obj":
        return ([[W("#"), W("reference"), W("writer")], [W("o"), W("mesh")]] + [[W("v")] + v for v in V]
                + [[W("l"), I(a + 1), I(b + 1)] for a, b in E] + [[W("f")] + [I(i + 1) for i in f] for f in Fs])
    if fmt == "off":
        return [[W("OFF")], [I(len(V)), I(len(Fs)), I(0)]] + V + [[I(len(f))] + [I(i) for i in f] for f in Fs]
    if fmt == "tet":
        return [[I(len(V)), W("vertices")], [I(len(C)), W("tets")]] + V + [[I(len(c))] + [I(i) for i in c] for c in C]
    if fmt == "mesh":
        out = [[W("MeshVersionFormatted"), I(2)], [W("Dimension"), I(3)], [W("Vertices")], [I(len(V))]] + [v + [I(0)] for v in V]
        for kw, ar, els in (("Edges", 2, [list(e) for e in E]), ("Triangles", 3, Fs), ("Quadrilaterals", 4, Fs),
                            ("Tetrahedra", 4, C), ("Hexahedra", 8, C)):
            sel = [e for e in els if len(e) == ar]
            if sel:
                out += [[W(kw)], [I(len(sel))]] + [[I(i + 1) for i in e] + [I(0)] for e in sel]
        return out + [[W("End")]]
    raise ValueError(fmt)


class RefError(Exception):
    pass


def _num(t):
    if t[0] == "i":
        return bits_of_int(t[1])
    if t[0] == "f":
        return t[1]
    raise RefError("number expected")


def bits_of_int(n):
    return f2b(float(n))


def _int(t):
    if t[0] != "i":
        raise RefError("integer expected")
    return t[1]


def ref_read(fmt, lines):
    """independent reader: returns {"V","E","F","C"} or None when the file is not in the format"""
    try:
        if fmt == "xyz":
            V = []
            for ln in lines:
                if not ln:
                    continue
                if len(ln) < 3:
                    raise RefError("short line")
                V.append([_num(t) for t in ln[:3]])
            return {"V": V, "E": [], "F": [], "C": []}
        if fmt == "obj":
            V, E, Fs = [], [], []
            for ln in lines:
                if not ln or ln[0][0] != "w":
                    continue
                kw, args = ln[0][1], ln[1:]
                if kw == "v":
                    if len(args) < 3:
                        raise RefError("v")
                    V.append([_num(t) for t in args[:3]])
                elif kw in ("l", "f"):
                    idx = []
                    for t in args:
                        k = _int(t)
                        if k < 1:
                            raise RefError("index")
                        idx.append(k - 1)
                    if kw == "l":
                        if len(idx) < 2:
                            raise RefError("l")
                        E += [[idx[i], idx[i + 1]] for i in range(len(idx) - 1)]
                    else:
                        if len(idx) < 3:
                            raise RefError("f")
                        Fs.append(idx)
            return {"V": V, "E": E, "F": Fs, "C": []}
        ts = [t for ln in lines for t in ln]
        pos = [0]

        def nxt():
            if pos[0] >= len(ts):
                raise RefError("eof")
            pos[0] += 1
            return ts[pos[0] - 1]

        def polys(n):
            out = []
            for _ in range(n):
                k = _int(nxt())
                if k < 0:
                    raise RefError("size")
                out.append([_int(nxt()) for _ in range(k)])
            return out
        if fmt == "off":
            if nxt() != W("OFF"):
                raise RefError("header")
            nv, nf, _ne = _int(nxt()), _int(nxt()), _int(nxt())
            if nv < 0 or nf < 0:
                raise RefError("counts")
            V = [[_num(nxt()) for _ in range(3)] for _ in range(nv)]
            return {"V": V, "E": [], "F": polys(nf), "C": []}
        if fmt == "tet":
            nv = _int(nxt())
            w1 = nxt()
            nc = _int(nxt())
            w2 = nxt()
            if w1 != W("vertices") or w2 not in (W("tets"), W("cells")) or nv < 0 or nc < 0:
                raise RefError("header")
            V = [[_num(nxt()) for _ in range(3)] for _ in range(nv)]
            return {"V": V, "E": [], "F": [], "C": polys(nc)}
        if fmt == "mesh":
            kinds = {"Edges": 2, "Triangles": 3, "Quadrilaterals": 4, "Tetrahedra": 4, "Hexahedra": 8}
            got = {k: [] for k in kinds}
            V = []
            while pos[0] < len(ts):
                t = nxt()
                if t[0] != "w":
                    raise RefError("keyword expected")
                kw = t[1]
                if kw == "End":
                    break
                if kw == "MeshVersionFormatted":
                    _int(nxt())
                elif kw == "Dimension":
                    if _int(nxt()) != 3:
                        raise RefError("dimension")
                elif kw == "Vertices":
                    n = _int(nxt())
                    if n < 0:
                        raise RefError("count")
                    for _ in range(n):
                        V.append([_num(nxt()) for _ in range(3)])
                        nxt()
                elif kw in kinds:
                    n = _int(nxt())
                    if n < 0:
                        raise RefError("count")
                    for _ in range(n):
                        got[kw].append([_int(nxt()) - 1 for _ in range(kinds[kw])])
                        nxt()
                else:
                    raise RefError("unknown keyword " + kw)
            return {"V": V, "E": got["Edges"], "F": got["Triangles"] + got["Quadrilaterals"], "C": got["Hexahedra"] + got["Tetrahedra"]}
    except RefError:
        return None
    raise ValueError(fmt)


def expected_ref_read(fmt, mi, cfg, ignore):
    """what an independent reader must find in the file mouette wrote (edges as written, not re-sorted)"""
    want = expected_raw(fmt, mi, cfg, ignore)
    if fmt == "obj":
        ign = set(ignore or [])
        E = [] if "edges" in ign else [list(e) for e in (mi["E"] or [])]
        hard = None if "edges" in ign else mi.get("hard")
        F = [] if "faces" in ign else (mi["F"] or [])
        C = [] if "cells" in ign else (mi["C"] or [])
        dim = 3 if C else 2 if F else 1 if E else 0
        if not cfg.get("export_edges_in_obj", True):
            e = []
        elif not cfg.get("complete_edges_from_faces", True) or dim == 1:
            e = E
        else:
            e = [E[k] for k in hard] if hard is not None else []
        want = dict(want, E=e)
    return want


def expected_load_of_ref(fmt, mi):
    """what loading the reference writer's file must give (it writes every edge / face / cell the format can express)"""
    V = [list(v) for v in mi["V"]]
    E, Fs, C = [list(e) for e in (mi["E"] or [])], (mi["F"] or []), (mi["C"] or [])
    if fmt == "xyz":
        return {"V": V, "E": [], "F": [], "C": []}
    if fmt == "obj":
        return {"V": V, "E": [sorted(e) for e in E], "F": Fs, "C": []}
    if fmt == "off":
        return {"V": V, "E": [], "F": Fs, "C": []}
    if fmt == "tet":
        return {"V": V, "E": [], "F": [], "C": C}
    return {"V": V, "E": E, "F": [f for f in Fs if len(f) == 3] + [f for f in Fs if len(f) == 4],
            "C": [c for c in C if len(c) == 4] + [c for c in C if len(c) == 8]}


# geogram_ascii: an independent writer laid out like geogram's own files (all sizes known before the data, comments on the
# header lines) and an independent, count-driven reader (geogram reads nb_items * dim values, it does not look for the next header)
GEO_SETS = {"V": "GEO::Mesh::vertices", "E": "GEO::Mesh::edges", "F": "GEO::Mesh::facets", "FC": "GEO::Mesh::facet_corners",
            "C": "GEO::Mesh::cells", "CC": "GEO::Mesh::cell_corners", "CF": "GEO::Mesh::cell_facets"}
GEO_TYPES = {"Float": ("double", 8), "Int": ("int", 4), "Bool": ("bool", 1)}


def pct_decode(t):
    """%XX -> character (independent of urllib)"""
    out, i = [], 0
    while i < len(t):
        if t[i] == "%" and i + 2 < len(t) + 0 and re.fullmatch(r"[0-9A-Fa-f]{2}", t[i + 1:i + 3] or ""):
            out.append(chr(int(t[i + 1:i + 3], 16)))
            i += 3
        else:
            out.append(t[i])
            i += 1
    return "".join(out)


def geo_ref_write(mi, adj=None, comments=True):
    """text of a geogram_ascii file for the mesh (tetrahedral cells only), attributes of the types geogram knows"""
    out = []

    def c(t, what):
        return t + (" # this is %s" % what if comments else "")

    def atts(name, n):
        out.extend(["[ATTS]", c('"%s"' % name, "the name of this attribute set"), c(str(n), "the number of items in this attribute set")])

    def attr(setname, name, ty, esize, dim, vals):
        out.extend(["[ATTR]", c('"%s"' % setname, "the name of the attribute set this attribute belongs to"), c('"%s"' % name, "the name of this attribute"),
                    c('"%s"' % ty, "the type of the elements in this attribute"), c(str(esize), "the size of an element (in bytes)"),
                    c(str(dim), "the number of elements per item")])
        out.extend(vals)

    def user(ck, n):
        for name, ty, ar, vals in (mi.get("attrs") or {}).get(ck, []):
            if ty not in GEO_TYPES or len(vals) != n * ar or not re.fullmatch(r"[A-Za-z0-9_:.-]+", name) or name in GEO_RESERVED.get(ck, []):
                continue
            tn, es = GEO_TYPES[ty]
            attr(GEO_SETS[ck], name, tn, es, ar, [text_of_tok(["f", v[1]]) if v[0] == "f" else str(int(v[1])) for v in vals])
    V, E, Fs, C = mi["V"], (mi["E"] or []), (mi["F"] or []), (mi["C"] or [])
    out.extend(["[HEAD]", '"GEOGRAM"', '"1.0"'])
    atts(GEO_SETS["V"], len(V))
    attr(GEO_SETS["V"], "point", "double", 8, 3, [repr(b2f(x)) for v in V for x in v])
    user("V", len(V))
    if E:
        atts(GEO_SETS["E"], len(E))
        attr(GEO_SETS["E"], "GEO::Mesh::edges::edge_vertex", "index_t", 4, 2, [str(x) for e in E for x in e])
        user("E", len(E))
    if Fs:
        atts(GEO_SETS["F"], len(Fs))
        if any(len(f) != 3 for f in Fs):
            ptr, p = [], 0
            for f in Fs:
                ptr.append(str(p))
                p += len(f)
            attr(GEO_SETS["F"], "GEO::Mesh::facets::facet_ptr", "index_t", 4, 1, ptr)
        user("F", len(Fs))
        nfc = sum(len(f) for f in Fs)
        atts(GEO_SETS["FC"], nfc)
        attr(GEO_SETS["FC"], "GEO::Mesh::facet_corners::corner_vertex", "index_t", 4, 1, [str(x) for f in Fs for x in f])
        user("FC", nfc)
    if C:
        atts(GEO_SETS["C"], len(C))
        user("C", len(C))
        ncc = sum(len(c_) for c_ in C)
        atts(GEO_SETS["CC"], ncc)
        attr(GEO_SETS["CC"], "GEO::Mesh::cell_corners::corner_vertex", "index_t", 4, 1, [str(x) for c_ in C for x in c_])
        user("CC", ncc)
        if adj is not None:
            atts(GEO_SETS["CF"], len(adj))
            attr(GEO_SETS["CF"], "GEO::Mesh::cell_facets::adjacent_cell", "index_t", 4, 1, [str(x) for x in adj])
            user("CF", len(adj))
    return "".join(x + "\n" for x in out)


def geo_ref_read(text):
    """count-driven reader of geogram_ascii: {"V","E","F","C","attrs": {set: {name: (type, dim, values)}}} or None"""
    lines = [ln.split("#")[0].strip() for ln in text.split("\n")]
    if lines and lines[-1] == "":
        lines.pop()
    pos = [0]

    def nxt():
        if pos[0] >= len(lines):
            raise RefError("eof")
        pos[0] += 1
        return lines[pos[0] - 1]

    def q():
        t = nxt()
        if len(t) < 2 or t[0] != '"' or t[-1] != '"':
            raise RefError("quoted string expected")
        return pct_decode(t[1:-1])
    try:
        sizes, attrs = {}, {}
        if nxt() != "[HEAD]" or q() != "GEOGRAM":
            raise RefError("header")
        q()
        while pos[0] < len(lines):
            kind = nxt()
            if kind == "[ATTS]":
                name = q()
                sizes[name] = int(nxt())
            elif kind == "[ATTR]":
                setname, name, ty = q(), q(), q()
                int(nxt())
                dim = int(nxt())
                if setname not in sizes:
                    raise RefError("attribute of an undeclared set")
                vals = [nxt() for _ in range(sizes[setname] * dim)]
                attrs.setdefault(setname, {})[name] = (ty, dim, vals)
            else:
                raise RefError("chunk header expected, got %r" % kind)

        def ints(setname, name):
            a = attrs.get(setname, {}).pop(name, None)
            return None if a is None else [int(x) for x in a[2]]
        pt = attrs.get(GEO_SETS["V"], {}).pop("point", None)
        V = []
        if pt is not None:
            if pt[1] != 3:
                raise RefError("point dimension")
            V = [[f2b(float(x)) for x in pt[2][3 * i: 3 * i + 3]] for i in range(len(pt[2]) // 3)]
        ev = ints(GEO_SETS["E"], "GEO::Mesh::edges::edge_vertex") or []
        E = [ev[2 * i: 2 * i + 2] for i in range(len(ev) // 2)]

        def elements(setk, ptrname, cornerk, cornername, default):
            n = sizes.get(GEO_SETS[setk], 0)
            cv = ints(GEO_SETS[cornerk], cornername) or []
            ptr = ints(GEO_SETS[setk], ptrname)
            if ptr is None:
                ptr = [default * i for i in range(n)]
            ptr = ptr + [len(cv)]
            return [cv[ptr[i]: ptr[i + 1]] for i in range(n)]
        Fs = elements("F", "GEO::Mesh::facets::facet_ptr", "FC", "GEO::Mesh::facet_corners::corner_vertex", 3)
        C = elements("C", "GEO::Mesh::cells::cell_ptr", "CC", "GEO::Mesh::cell_corners::corner_vertex", 4)
        return {"V": V, "E": E, "F": Fs, "C": C, "attrs": attrs, "sizes": sizes}
    except (RefError, ValueError):
        return None


def geo_ref_items(text):
    """Python twin of GeoRef.ref_read_geo: the sets and attributes found by a count-driven pass, summarised; None if unreadable.
    Names are kept as written (quoted)."""
    lines = [ln.split("#")[0].strip() for ln in text.split("\n")]
    if lines and lines[-1] == "":
        lines.pop()
    pos, sizes, out = 0, {}, []
    try:
        while pos < len(lines):
            k = lines[pos]
            if k == "[HEAD]":
                if pos + 2 >= len(lines):
                    return None
                pos += 3
            elif k == "[ATTS]":
                s_, n = lines[pos + 1], int(lines[pos + 2])
                if n < 0 or not INT_RE.match(lines[pos + 2]):
                    return None
                sizes[s_] = n
                out.append([0, s_, "", "", n, 0])
                pos += 3
            elif k == "[ATTR]":
                s_, nm, ty = lines[pos + 1], lines[pos + 2], lines[pos + 3]
                if not INT_RE.match(lines[pos + 4]) or not INT_RE.match(lines[pos + 5]) or s_ not in sizes:
                    return None
                dim = int(lines[pos + 5])
                if dim < 0:
                    return None
                cnt = sizes[s_] * dim
                if len(lines) - (pos + 6) < cnt:
                    return None
                out.append([1, s_, nm, ty, dim, cnt])
                pos += 6 + cnt
            else:
                return None
        return out
    except (IndexError, ValueError):
        return None


def oracle_geogram_interop(mi, adj, text, ignore):
    """the file mouette wrote, read by the independent reader"""
    g = geo_ref_read(text)
    if g is None:
        return "an independent (count-driven) reader of geogram_ascii cannot read the file mouette wrote"
    ign = set(ignore or [])
    want = {"V": [list(v) for v in mi["V"]], "E": [] if "edges" in ign else [list(e) for e in (mi["E"] or [])],
            "F": [] if "faces" in ign else (mi["F"] or []), "C": [] if "cells" in ign else (mi["C"] or [])}
    for k in "VEFC":
        if g[k] != want[k]:
            return "an independent reader finds %s = %s in the file mouette wrote, the mesh has %s" % (k, json.dumps(g[k])[:200], json.dumps(want[k])[:200])
    conv = {"b": lambda v: str(int(v[1])), "i": lambda v: str(v[1])}
    for ck, setname in GEO_SETS.items():
        present = {"V": True, "E": bool(want["E"]), "F": bool(want["F"]), "FC": bool(want["F"]), "C": bool(want["C"]), "CC": bool(want["C"]), "CF": bool(want["C"])}[ck]
        for name, ty, ar, vals in ((mi.get("attrs") or {}).get(ck, []) if present else []):
            a = g["attrs"].get(setname, {}).get(name)
            if a is None:
                return "attribute %r of %s is not in the file" % (name, ck)
            if a[1] != ar or a[0] != {"Bool": "bool", "Int": "int", "Float": "double", "Complex": "complex", "String": "string"}[ty]:
                return "attribute %r of %s is written as %s x%d" % (name, ck, a[0], a[1])
            if ty in ("Bool", "Int") and a[2] != [conv[v[0]](v) for v in vals]:
                return "attribute %r of %s has values %s in the file, %s in the mesh" % (name, ck, a[2][:8], vals[:8])
            if ty == "Float" and [f2b(float(x)) for x in a[2]] != [v[1] for v in vals]:
                return "float attribute %r of %s differs in the file" % (name, ck)
    if want["C"] and adj is not None:
        a = g["attrs"].get(GEO_SETS["CF"], {}).get("GEO::Mesh::cell_facets::adjacent_cell")
        if a is not None and [int(x) for x in a[2]] != adj:
            return "cell adjacency in the file is %s, the mesh has %s" % (a and a[2], adj)
    return None


def raw_obs_term(r):
    return "None" if r is None else "(Some %s)" % raw_term(dict(r, attrs={}))


# ---------------------------------------------------------------------- the optional parts an independent writer may emit
def fnum(b, rng=None):
    return repr(b2f(b))


def variant_files(fmt, mi, rng):
    """[(label, text, expected content, known-finding key or None)]: legal files of the format for the mesh `mi` that use optional
    parts of the format (colours, comments, extra sections, alternative layouts); the content they denote is that of ref_write"""
    want = expected_load_of_ref(fmt, mi)
    V, E, Fs, C = mi["V"], [list(e) for e in (mi["E"] or [])], (mi["F"] or []), (mi["C"] or [])
    out = []
    vl = [" ".join(fnum(c) for c in v) for v in V]
    if fmt == "off":
        if any(len(f) < 3 for f in Fs):
            return []
        colours = {"rgb-int": lambda i: " %d 255 0" % ((40 * i) % 256), "rgba-int": lambda i: " 1 2 3 255", "colormap-index": lambda i: " %d" % (i % 3),
                   "rgb-float": lambda i: " 0.25 0.5 1.0", "rgba-float": lambda i: " 0.25 0.5 1.0 0.75"}
        fl = lambda col: ["%d  %s%s" % (len(f), " ".join(str(x) for x in f), col(i)) for i, f in enumerate(Fs)]
        if Fs:
            k = rng.choice(sorted(colours))
            out.append(("face colours " + k, "\n".join(["OFF", "%d %d 0" % (len(V), len(Fs))] + vl + fl(colours[k])) + "\n", want, None))
        out.append(("comments", "\n".join(["# made by an independent writer", "OFF # header", "%d %d %d # vertices faces edges" % (len(V), len(Fs), len(E)), "# vertices"]
                                          + vl + ["# faces"] + fl(lambda i: "")) + "\n", want, None))
        out.append(("counts on the OFF line", "\n".join(["OFF %d %d 0" % (len(V), len(Fs))] + vl + fl(lambda i: "")) + "\n", want, None))
        out.append(("blank lines and blanks", "\n".join(["OFF  ", "", "  %d   %d\t0  " % (len(V), len(Fs)), ""] + ["  " + x + "  " for x in vl] + [""]
                                                        + ["  " + x + " " for x in fl(lambda i: "")] + ["", ""]) + "\n", want, None))
    elif fmt == "obj":
        if any(len(f) < 3 for f in Fs):
            return []
        head = ["# independent writer", "mtllib scene.mtl", "o object_1", "g group_a"]
        vts = ["vt %s %s" % (repr(0.25 * (i % 4)), repr(0.5)) for i in range(max(1, sum(len(f) for f in Fs)))]
        vns = ["vn 0.0 0.0 1.0", "vn 1.0 0.0 0.0"]
        forms = {"v/vt/vn": lambda v, c: "%d/%d/%d" % (v + 1, c + 1, 1 + c % 2), "v//vn": lambda v, c: "%d//%d" % (v + 1, 1 + c % 2),
                 "v/vt": lambda v, c: "%d/%d" % (v + 1, c + 1)}
        k = rng.choice(sorted(forms))
        fl, c = [], 0
        for f in Fs:
            toks = []
            for v in f:
                toks.append(forms[k](v, c))
                c += 1
            fl.append("f " + " ".join(toks))
        el = ["l %d %d" % (a + 1, b + 1) for a, b in E]
        out.append(("statements o g usemtl s mtllib vt vn, faces as " + k,
                    "\n".join(head + ["v " + x + (" 1.0" if i % 2 else "") for i, x in enumerate(vl)] + vts + vns + ["usemtl mat", "s off"] + el + ["s 1"] + fl + ["# end"]) + "\n",
                    want, None))
        # polylines: consecutive edges that share an endpoint are written as one l statement
        chains = []
        for a, b in E:
            if chains and chains[-1][-1] == a:
                chains[-1].append(b)
            else:
                chains.append([a, b])
        if any(len(ch) > 2 for ch in chains):
            out.append(("polyline statements", "\n".join(["v " + x for x in vl] + ["l " + " ".join(str(x + 1) for x in ch) for ch in chains]
                                                        + ["f " + " ".join(str(v + 1) for v in f) for f in Fs]) + "\n", want, None))
        if Fs:
            # vertices and faces interleaved (one group after the other, as exporters of multi-object scenes write them)
            il, done = ["# interleaved"], 0
            for f in Fs:
                while done <= max(f):
                    il.append("v " + vl[done])
                    done += 1
                il.append("f " + " ".join(str(v + 1) for v in f))
            il += ["v " + x for x in vl[done:]] + ["l %d %d" % (a + 1, b + 1) for a, b in E]
            out.append(("v and f statements interleaved, trailing blanks", "\n".join(x + "  " for x in il) + "\n", want, None))
        if Fs:
            n = len(V)
            # relative references (-1 = the last vertex read so far), in f and l statements, alone and in the v/vt/vn forms
            out.append(("relative (negative) indices", "\n".join(["v " + x for x in vl] + ["l %d %d" % (a - n, b - n) for a, b in E]
                                                                + ["f " + " ".join(str(v - n) for v in f) for f in Fs]) + "\n", want, None))
            il, done = ["vt 0.5 0.5", "vn 0.0 0.0 1.0"], 0
            for k, f in enumerate(Fs):
                while done <= max(f):
                    il.append("v " + vl[done])
                    done += 1
                forms = [lambda v: str(v - done), lambda v: "%d/-1" % (v - done), lambda v: "%d//-1" % (v - done), lambda v: "%d/1/-1" % (v - done),
                         lambda v: str(v + 1)]
                il.append("f " + " ".join(forms[(k + j) % 5](v) for j, v in enumerate(f)))
            il += ["v " + x for x in vl[done:]]
            il += ["l %d %d" % (a - n, b + 1) for a, b in E]
            out.append(("relative references counted from the vertices read so far (interleaved v / f), mixed with absolute ones",
                        "\n".join(il) + "\n", want, None))
    elif fmt == "mesh":
        sections = ["Corners", "1", "1", "RequiredVertices", "1", "1", "Ridges", "0", "Normals", "1", "0.0 0.0 1.0", "NormalAtVertices", "1", "1 1",
                    "Tangents", "0"] if V else []
        body = [" MeshVersionFormatted 2", "", " Dimension", " 3", "# a comment line", " Vertices", "   %d" % len(V)] + ["  %s  %d" % (x, 10 + i) for i, x in enumerate(vl)]
        blocks = []
        for kw, ar, els in (("Edges", 2, E), ("Triangles", 3, Fs), ("Quadrilaterals", 4, Fs), ("Tetrahedra", 4, C), ("Hexahedra", 8, C)):
            sel = [e for e in els if len(e) == ar]
            if sel:
                blocks.append([" " + kw, " %d" % len(sel)] + [" " + " ".join(str(i + 1) for i in e) + " %d" % (7 * k % 5) for k, e in enumerate(sel)])
        mid = []
        for k, bl in enumerate(blocks):
            mid += bl
            if k == 0:
                mid += sections
        if not blocks:
            mid = sections
        out.append(("optional sections, labels, indentation", "\n".join(body + mid + ["", " End"]) + "\n", want, None))
        if len(blocks) > 1:
            # the element sections in another order (the format does not fix it); faces / cells come back in file order
            order = list(range(len(blocks)))
            rng.shuffle(order)
            got = {"Edges": [], "F": [], "C": []}
            for k in order:
                kw = blocks[k][0].strip()
                els = [[int(x) - 1 for x in ln.split()[:-1]] for ln in blocks[k][2:]]
                got["Edges" if kw == "Edges" else "F" if kw in ("Triangles", "Quadrilaterals") else "C"] += els
            w2 = dict(want, E=got["Edges"], F=got["F"], C=got["C"])
            out.append(("element sections in another order", "\n".join(body + [x for k in order for x in blocks[k]] + ["End"]) + "\n", w2, None))
        inline = ["MeshVersionFormatted 2", "Dimension 3", "Vertices %d" % len(V)] + [x + " 0" for x in vl]
        for bl in blocks:
            inline += [bl[0].strip() + " " + bl[1].strip()] + [x.strip() for x in bl[2:]]
        if V:
            out.append(("counts on the keyword lines", "\n".join(inline + ["End"]) + "\n", want, "mesh/count-on-keyword-line"))
        if V and all(v[2] == 0 for v in V):
            d2 = ["MeshVersionFormatted 2", "Dimension 2", "Vertices", "%d" % len(V)] + [" ".join(fnum(c) for c in v[:2]) + " 5" for v in V]
            for bl in blocks:
                d2 += [x.strip() for x in bl]
            out.append(("two-dimensional file", "\n".join(d2 + ["End"]) + "\n", want, "mesh/dimension-2"))
    elif fmt == "xyz":
        out.append(("leading count, blank lines, normals columns", "\n".join(["%d" % len(V), ""] + [x + " 0.0 0.0 1.0  " for x in vl] + ["", ""]) + "\n", want, None))
    elif fmt == "tet":
        out.append(("trailing blanks", "\n".join(["%d vertices  " % len(V), "%d tets" % len(C)] + [x + "  " for x in vl]
                                                 + ["%d  %s " % (len(c), " ".join(str(i) for i in c)) for c in C]) + "\n", want, None))
    return out


def oracle_load(fmt, ld, want):
    """an independent writer's file loaded by mouette against the content it denotes"""
    if ld is None:
        return "no observation"
    if "raw_exc" in ld:
        return "loading raised %s: %s" % (ld["raw_exc"]["exc"], ld["raw_exc"]["msg"])
    for k, what in (("V", "vertices"), ("E", "edges"), ("F", "faces"), ("C", "cells")):
        if ld["raw"][k] != want[k]:
            return "%s load as %s, the file says %s" % (what, json.dumps(ld["raw"][k])[:240], json.dumps(want[k])[:240])
    if "class_exc" in ld:
        return "building the loaded mesh raised %s: %s" % (ld["class_exc"]["exc"], ld["class_exc"]["msg"])
    if "class" in ld and ld["class"] != implied_class(want):
        return "loads as a %s, its content implies %s" % (ld["class"], implied_class(want))
    return oracle_prepared(ld, want, {})


# ---------------------------------------------------------------------- binary STL
def f32bits(b64):
    """binary32 pattern of the IEEE rounding of a double (+-inf beyond the binary32 range, as the native-mode struct.pack does); numpy, not struct"""
    import numpy as np
    x = b2f(b64)
    with np.errstate(over="ignore"):
        y = np.float32(x)
    return int(np.array([y], dtype=np.float32).view(np.uint32)[0])


def f32bits_to_f64bits(b32):
    import numpy as np
    return f2b(float(np.array([b32], dtype=np.uint32).view(np.float32)[0]))


def stl_fields(data):
    """bytes -> [("H", text), ("U32", n), ("F", bits)..., ("U16", k)] following the binary STL layout; None if misaligned"""
    if len(data) < 84 or (len(data) - 84) % 50:
        return None
    out = [["H", data[:80].rstrip(b"\0").decode("latin1")], ["U32", struct.unpack("<I", data[80:84])[0]]]
    for k in range((len(data) - 84) // 50):
        rec = data[84 + 50 * k: 134 + 50 * k]
        out += [["F", v] for v in struct.unpack("<12I", rec[:48])]
        out.append(["U16", struct.unpack("<H", rec[48:])[0]])
    return out


def stl_reference_reader(data):
    """independent reader of the binary STL layout: list of triangles, each 3 points of 3 binary32 patterns"""
    if len(data) < 84:
        return None
    n = int.from_bytes(data[80:84], "little")
    if len(data) != 84 + 50 * n:
        return None
    tris = []
    for k in range(n):
        o = 84 + 50 * k + 12
        w = [int.from_bytes(data[o + 4 * i: o + 4 * i + 4], "little") for i in range(9)]
        tris.append([w[0:3], w[3:6], w[6:9]])
    return tris


def sfield_term(f):
    if f[0] == "H":
        return "sH %s" % cstr(f[1])
    return {"U32": "sU32", "F": "sF", "U16": "sU16"}[f[0]] + " " + z(f[1])


def smesh_term(mi):
    V = "[" + "; ".join("(%s, %s, %s)" % tuple("(%s, %s)" % (z(c), z(f32bits(c))) for c in v) for v in mi["V"]) + "]"
    return "(szmkmesh %s [] None %s [] [] [] [] [] [] [] [] [])" % (V, zll(mi["F"] or []))


def oracle_stl(job, res):
    mi = res["mesh_in"]
    ign = set(job.get("ignore") or [])
    F = [] if "faces" in ign else (mi["F"] or [])
    if not res.get("unchanged", True):
        return "save modified the mesh it was given"
    in_range = all(f32bits(c) >= 0 for f in F for v in f for c in mi["V"][v])
    if "save_exc" in res:
        if not in_range:
            return None   # a coordinate that binary32 cannot hold: refusing (with whatever exception) is not a loss
        if any(len(f) not in (3, 4) for f in F):
            return None   # polygons are outside STL's vocabulary: a refusal (whatever its class) is legitimate
        return "save raised %s: %s" % (res["save_exc"]["exc"], res["save_exc"]["msg"])
    if not F:
        return None
    if any(len(f) == 4 for f in F):
        ld = res.get("load") or {}
        nf = len((ld.get("raw") or {}).get("F") or [])
        if "raw" in ld and nf != sum(1 for f in F if len(f) == 3):
            return "quad faces, which STL cannot express, are not left out: %d faces saved (%d quads), %d triangles loaded" % (len(F), sum(1 for f in F if len(f) == 4), nf)
        return None
    ld = res.get("load")
    if ld is None:
        return None
    if "raw_exc" in ld:
        return "loading the saved file raised %s: %s" % (ld["raw_exc"]["exc"], ld["raw_exc"]["msg"])
    got = ld["raw"]
    soup = [[got["V"][i] for i in f] for f in got["F"]]
    want = [[[f32bits_to_f64bits(f32bits(c)) for c in mi["V"][v]] for v in f] for f in F]
    if soup != want:
        return "triangle soup differs after save/load: saved %s, loaded %s" % (json.dumps(want)[:300], json.dumps(soup)[:300])
    if got["E"] or got["C"]:
        return "edges or cells appear after an STL save/load"
    if ld.get("class") != "SurfaceMesh":
        return "loaded object is %s, a triangle soup implies SurfaceMesh" % (ld.get("class") or ld.get("class_exc"))
    return None


# ---------------------------------------------------------------------- case building
def save_job(mesh, fmt, cfg, ignore=None):
    j = {"k": "save", "fmt": fmt, "mesh": {k: mesh[k] for k in ("V", "E", "F", "C")}, "cfg": cfg}
    for k in ("hard_set", "idx_repr", "v_repr"):
        if mesh.get(k):
            j["mesh"][k] = mesh[k]
    if mesh.get("attrs"):
        j["mesh"]["attrs"] = mesh["attrs"]
    if ignore is not None:
        j["ignore"] = ignore
        if mesh.get("ignore_form"):
            j["ignore_form"] = mesh["ignore_form"]
        if mesh.get("ignore_positional"):
            j["ignore_positional"] = True
    return j


def run_jobs(jobs, timeout=900):
    if not jobs:
        return []
    nsh = max(1, min(core.NCPU, len(jobs) // 40))
    payloads = [{"jobs": jobs[i::nsh], "job_timeout": 20} for i in range(nsh)]
    results = core.run_impl_parallel("vf.impl.c04_driver", payloads, timeout=timeout)
    out = [None] * len(jobs)
    for i, r in enumerate(results):
        for j, o in zip(range(i, len(jobs), nsh), r["res"]):
            out[j] = o
    return out


def shard_of(terms):
    return max(25, min(400, -(-len(terms) // 8)))


def obs_raw_term(ld, with_attrs=False):
    """(option zraw, option (option string)) terms from a load observation"""
    if "raw_exc" in ld:
        return "None", "None"
    if not raw_modelled(ld["raw"]):
        return None, None
    cls = "None"
    if "class" in ld:
        cls = "(Some (Some %s))" % cstr(ld["class"])
    if with_attrs and any(v[0] == "other" or not isinstance(k, int) for al in ld["raw"]["attrs"].values() for a in al for k, vs in a[4] for v in vs):
        return None, None
    return "(Some %s)" % raw_term(ld["raw"], with_attrs=with_attrs), cls


GEO_RESERVED = {"V": ["point"], "E": ["GEO::Mesh::edges::edge_vertex"], "F": ["GEO::Mesh::facets::facet_ptr"],
                "FC": ["GEO::Mesh::facet_corners::corner_vertex", "GEO::Mesh::facet_corners::corner_adjacent_facet", "corner_adjacent_facet"],
                "C": ["GEO::Mesh::cells::cell_ptr"], "CC": ["GEO::Mesh::cell_corners::corner_vertex"],
                "CF": ["GEO::Mesh::cell_facets::adjacent_cell", "adjacent_cell", "opposite_cell"]}


def reserved_names_used(job):
    """user attributes of the job whose name the geogram format (or mouette's importer) gives a meaning of its own to"""
    at = (job.get("mesh") or {}).get("attrs") or {}
    return [(ck, a["name"]) for ck, al in at.items() for a in al
            if a["name"] in GEO_RESERVED.get(ck, []) or a["name"] in ("GEO::Mesh::facets::facet_ptr", "GEO::Mesh::cells::cell_ptr")]


def obj_reader_full(text):
    """independent reader of the .obj statements v / l / f with the reference forms i, i/t, i//n, i/t/n (positive indices)"""
    V, E, F = [], [], []
    for ln in text.split("\n"):
        w = ln.split("#")[0].split()
        if not w:
            continue
        if w[0] == "v":
            V.append([f2b(float(x)) for x in w[1:4]])
        elif w[0] == "f":
            F.append([(lambda k: k - 1 if k > 0 else len(V) + k)(int(x.split("/")[0])) for x in w[1:]])
        elif w[0] == "l":
            ids = [(lambda k: k - 1 if k > 0 else len(V) + k)(int(x.split("/")[0])) for x in w[1:]]
            E += [sorted(ids[i:i + 2]) for i in range(len(ids) - 1)]
    return {"V": V, "E": E, "F": F, "C": []}


def oracle_any(job, r):
    if job["fmt"] == "stl":
        return oracle_stl(job, r)
    m = oracle_save_load(job["fmt"], job, r)
    states = [c[2] for c in job.get("consulted") or []]
    if m and any("wrong arity" in st or "integer values" in st for st in states) and (m.startswith("save raised") or m.startswith("loading the saved file raised")):
        return None      # an attribute of the wrong shape under a name the exporter consults: refusing it is not a loss
    if m and job.get("ignore_form") not in (None, "set") and m.startswith("save raised"):
        return None      # ignore_elements given as another collection than a set: the text does not speak about it, a refusal is accepted
    if m or not job.get("consulted"):
        return m
    # (whether the .xyz / .obj importers hand the normals / uv back is not part of the property: oracle_consulted is informative only)
    if job["fmt"] == "obj" and "file" in r and "mesh_in" in r:
        got = obj_reader_full(r["file"]["text"])
        want = expected_ref_read("obj", r["mesh_in"], job.get("cfg") or {}, job.get("ignore"))
        if any(got[k] != want[k] for k in "VEFC"):
            return "an independent reader of the format finds %s in the file mouette wrote, the mesh has %s" % (json.dumps(got)[:200], json.dumps(want)[:200])
    return None


def classify(job, r, msg):
    """failure class (matched against known_findings)"""
    mi = r.get("mesh_in") or {}
    if job["fmt"] == "stl" and msg.startswith("quad faces, which STL cannot express"):
        return "stl/quad-faces/written-as-two-triangles"
    if job["fmt"] == "geogram_ascii":
        rs = reserved_names_used(job)
        if rs and (any(nm in msg for _, nm in rs) or "differ after save/load" in msg or " raised " in msg
                   or "appear on" in msg or "is lost by save/load" in msg or msg.startswith("an independent reader finds")):
            return "geogram_ascii/attribute-name/reserved-by-the-format"
    return "%s/%s" % (job["fmt"], re.sub(r"[^a-zA-Z ]", "", msg.split(":")[0])[:60].strip().replace(" ", "-"))


def shrink_mesh(mesh, fails):
    """greedy: drop cells / faces / edges / trailing vertices, then simplify coordinates, while `fails(mesh)`."""
    cur = json.loads(json.dumps(mesh))
    changed = True
    budget = 60
    while changed and budget > 0:
        changed = False
        for key in ("C", "F", "E"):
            i = 0
            while i < len(cur[key]) and budget > 0:
                cand = json.loads(json.dumps(cur))
                del cand[key][i]
                budget -= 1
                if fails(cand):
                    cur = cand
                    changed = True
                else:
                    i += 1
        used = {x for key in ("C", "F", "E") for el in cur[key] for x in el}
        nv = len(cur["V"])
        if nv and (nv - 1) not in used and budget > 0:
            cand = json.loads(json.dumps(cur))
            cand["V"].pop()
            budget -= 1
            if fails(cand):
                cur = cand
                changed = True
    cand = json.loads(json.dumps(cur))
    cand["V"] = [[f2b(float(i)), f2b(float(j == 1)), f2b(0.0)] for i, (j) in enumerate([k % 2 for k in range(len(cur["V"]))])]
    if cand["V"] != cur["V"] and fails(cand):
        cur = cand
    return cur


# ---------------------------------------------------------------------- ASCII STL as independent writers produce it
def stl_ascii_files(rng, n):
    """[(label, text, expected content)]: ASCII .stl files (solid / facet normal / outer loop / vertex x3 / endloop / endfacet / endsolid,
    lower-case keywords as the format defines them) in the layouts CAD exports use: one or several solids, named or not, `endsolid`
    with or without the name, an empty solid first / in the middle / last, blank lines, indentation by blanks / tabs / none, trailing
    blanks, CRLF line ends, no final line end, numbers in %e / repr / integer spelling"""
    out = []
    for _ in range(n):
        nsol = rng.choice([1, 2, 2, 3, 4])
        style = rng.choice(["small", "dyadic", "special", "any"])
        numfmt = rng.choice([repr, repr, lambda x: "%.17e" % x, lambda x: ("%.17E" % x), lambda x: str(int(x)) if float(x).is_integer() and abs(x) < 1e15 else repr(x)])
        ind = rng.choice(["  ", "\t", "", "    "])
        eol = rng.choice(["\n", "\n", "\n", "\r\n"])
        blank = rng.random() < 0.5
        trail = rng.choice(["", "", "  ", "\t"])
        empties = rng.choice(["none", "none", "first", "middle", "last"]) if nsol > 1 else rng.choice(["none", "none", "none", "only"])
        lines, V, F = [], [], []
        for k in range(nsol):
            name = rng.choice(["", "part_%d" % k, "my part %d" % k, "OpenSCAD_Model", "ascii"])
            empty = (empties == "first" and k == 0) or (empties == "last" and k == nsol - 1) or (empties == "middle" and 0 < k < nsol - 1) or empties == "only"
            lines.append(("solid " + name).rstrip() + trail)
            if blank and rng.random() < 0.5:
                lines.append("")
            for _t in range(0 if empty else rng.randint(1, 3)):
                pts = [[rand_float(rng, style) for _ in range(3)] for _ in range(3)]
                lines.append(ind + "facet normal %s %s %s" % tuple(numfmt(x) for x in (0.0, 0.0, 1.0)) + trail)
                lines.append(ind * 2 + "outer loop")
                for p_ in pts:
                    txt = [numfmt(c) for c in p_]
                    lines.append(ind * 3 + "vertex " + " ".join(txt) + trail)
                    V.append([f2b(float(t)) for t in txt])
                lines.append(ind * 2 + "endloop")
                lines.append(ind + "endfacet")
                F.append([len(V) - 3, len(V) - 2, len(V) - 1])
                if blank and rng.random() < 0.3:
                    lines.append("")
            lines.append(("endsolid " + (name if rng.random() < 0.7 else "")).rstrip() + trail)
            if blank and rng.random() < 0.5:
                lines.append("   " if rng.random() < 0.3 else "")
        text = eol.join(lines) + (eol if rng.random() < 0.8 else "")
        label = "%d solid(s), empty: %s, indentation %r, %s%s" % (nsol, empties, ind, "CRLF, " if eol != "\n" else "", "blank lines" if blank else "no blank line")
        out.append((label, text, {"V": V, "E": [], "F": F, "C": []}))
    return out


# ---------------------------------------------------------------------- attributes the exporters consult, in every storage state
# (container, name, type, arity) an exporter looks up by name and writes as extra columns / statements; cross-checked on every run against
# the names found in the exporters' source (translator: consulted_attributes)
CONSULTED = {"xyz": [("V", "normals", "Float", 3)],
             "obj": [("V", "normals", "Float", 3), ("V", "uv_coords", "Float", 2), ("FC", "uv_coords", "Float", 2)],
             # the attribute-carrying format: any attribute (here one per container kind whose size the generator knows), and the one
             # name the exporter writes as a table of the format (read back under another name: the reserved-name finding)
             "geogram_ascii": [("V", "w", "Float", 3), ("F", "lab", "Int", 1), ("FC", "cw", "Complex", 2), ("V", "s", "String", 1),
                               ("FC", "corner_adjacent_facet", "Int", 1)]}
COVERED_ELSEWHERE = {"hard_edges": "flagged on arbitrary edges by the mesh generator (hard_set), obj and Medit exporters",
                     "adjacent_cell": "computed by save() for tetrahedral meshes"}
STATES = ["dense, every element written", "dense, some elements written", "sparse, every element written", "sparse, some elements written",
          "sparse, nothing written", "sparse, only the last element written", "sparse, wrong arity", "sparse, integer values"]


def gen_consulted(rng, fmt, target, state, extra=None):
    """a save job for `fmt` whose mesh carries the attribute `target` in storage state `state`"""
    ck, name, ty, ar = target
    if fmt == "geogram_ascii" and name != "corner_adjacent_facet" and ("wrong arity" in state or "integer" in state):
        state = "sparse, some elements written"      # any arity / type is a legal user attribute there
    kind = rng.choice(["cloud", "cloud", "tri"]) if fmt == "xyz" else rng.choice(["tri", "mixed", "quad", "surf+edges", "polygon"] + (["cloud", "polyline"] if ck == "V" else []))
    m = gen_mesh(rng, kind)
    while len(m["V"]) < 3:
        m = gen_mesh(rng, kind)
    size = len(m["V"]) if ck == "V" else len(m["F"]) if ck == "F" else sum(len(f) for f in m["F"])

    def spec(ck, name, ty, ar, state):
        a = {"name": name, "type": ty, "arity": ar, "dense": state.startswith("dense"), "vals": []}
        if state.endswith("wrong arity"):
            a["arity"] = ar + rng.choice([-1, 1])
        if state.endswith("integer values"):
            a["type"] = "Int"
        if "every element" in state:
            keys = list(range(size))
        elif "some elements" in state:
            keys = sorted(rng.sample(range(size), rng.randint(1, max(1, size - 1)))) if size else []
            if rng.random() < 0.5 and size > 1:
                keys = [k for k in keys if k != size - 1] or [0]      # the last element is not written
        elif "only the last" in state:
            keys = [size - 1] if size else []
        elif "nothing" in state:
            keys = []
        else:
            keys = sorted(rng.sample(range(size), rng.randint(1, size))) if size else []
        a["vals"] = [[k, [f2b(rand_float(rng, rng.choice(["small", "dyadic", "special"]))) if a["type"] == "Float" else gen_aval(rng, a["type"])
                          for _ in range(a["arity"])]] for k in keys]
        return a
    attrs = {ck: [spec(ck, name, ty, ar, state)]}
    for t2, st2 in extra or []:
        attrs.setdefault(t2[0], []).append(spec(*t2, st2))
    m["attrs"] = attrs
    j = save_job(m, fmt, {})
    j["consulted"] = [[ck, name, state]] + [[t2[0], t2[1], st2] for t2, st2 in extra or []]
    return j


def attr_dense(mi, ck, name):
    for a in (mi.get("attrs") or {}).get(ck, []):
        if a[0] == name:
            return a
    return None


def oracle_consulted(job, r):
    """the attribute an exporter consults comes back where the format carries it (xyz normals columns, obj vn / vt statements): a
    point whose normal was never written has the default normal, it is not a point to leave out"""
    fmt = job["fmt"]
    ld = r.get("load") or {}
    if "raw" not in ld or "mesh_in" not in r:
        return None
    mi = r["mesh_in"]
    if fmt == "xyz":
        a = attr_dense(mi, "V", "normals")
        if a is None or a[1] != "Float" or a[2] != 3 or a[3][:1] == ["EXC"]:
            return None
        back = {x[0]: x for x in ld["raw"]["attrs"].get("V", [])}.get("normals")
        if back is None:
            return None if not mi["V"] else "the normals written in the .xyz file are not read back"
        dv = dense_from_sparse(back, len(mi["V"]))
        if [norm_val(v) for v in dv] != [norm_val(v) for v in a[3]]:
            return "normals differ after save/load: saved %s, loaded %s" % (json.dumps(a[3])[:200], json.dumps(dv)[:200])
    return None


# ---------------------------------------------------------------------- sessions: several saves / loads in one process
def gen_sessions(rng, n_per_fmt):
    """two meshes per session, saved and loaded in the same format in one process (driver: run_session)"""
    out = []
    for fmt in TEXT_FORMATS + ["stl"]:
        for i in range(n_per_fmt):
            ms = []
            for _ in range(2):
                for _try in range(200):
                    m = gen_mesh(rng)
                    if m["kind"].startswith("big"):
                        continue
                    if fmt == "stl" and not (m["F"] and all(len(f) == 3 for f in m["F"]) and m["style"] in ("small", "dyadic", "coincident")):
                        continue     # stl_reader aborts on an empty file; quads are the known finding
                    if fmt == "off" and any(len(f) < 3 for f in m["F"]):
                        continue
                    break
                mm = {k: m[k] for k in ("V", "E", "F", "C")}
                for k in ("hard_set", "idx_repr", "v_repr"):
                    if m.get(k):
                        mm[k] = m[k]
                if fmt == "geogram_ascii" and rng.random() < 0.7:
                    mm["attrs"] = gen_attrs(rng, m, stress=rng.random() < 0.4)
                ms.append(mm)
            # the second file must not be a prefix / copy of the first: different vertex counts make sharing visible
            out.append({"k": "session", "fmt": fmt, "meshes": ms, "cfg": gen_cfg(rng) if rng.random() < 0.3 else {},
                        "forms": [rng.randrange(30) for _ in range(12)], "warm": rng.random() < 0.5,
                        "upper": rng.choice([None, None, None, "first", "second"])})
    # regression (f43b1a3): a tetrahedral mesh saved under the upper-case spelling of the geogram extension, on every run
    tets = [gen_mesh(rng, "tet") for _ in range(2)]
    out.append({"k": "session", "fmt": "geogram_ascii", "meshes": [{k: m[k] for k in ("V", "E", "F", "C")} for m in tets], "cfg": {},
                "forms": [rng.randrange(30) for _ in range(12)], "warm": False, "upper": "first"})
    return out


def session_subjob(job, k):
    return {"k": "save", "fmt": job["fmt"], "mesh": job["meshes"][k], "cfg": job.get("cfg") or {}}


def oracle_session(job, r):
    """[(step, message)] for a session result: every record through the save/load oracle, every yes/no check, the explicit dim"""
    fmt = job["fmt"]
    if "driver_exc" in r:
        return [("driver", "the session died: %s" % json.dumps(r["driver_exc"])[:200])]
    if "build_exc" in r:
        return []
    out = []
    for tag, sub in (("first mesh", session_subjob(job, 0)), ("second mesh (saved and loaded in the same process)", session_subjob(job, 1))):
        rec = r["A" if tag == "first mesh" else "B"]
        if reserved_names_used(sub):
            continue
        m = oracle_any(sub, rec)
        if m and not (fmt == "stl" and m.startswith("quad faces")):
            out.append((tag, m))
    for c in r["checks"]:
        if not c[1] and (len(c) < 3 or c[2] != "soft"):
            out.append(("check", c[0]))
    if "second" in r and not reserved_names_used(session_subjob(job, 0)):
        sub = {"k": "save", "fmt": fmt, "mesh": {"attrs": {}}, "cfg": job.get("cfg") or {}}
        rec = r["second"]
        if fmt == "geogram_ascii":
            # the loaded mesh carries what the importer stores of the format's own tables under the names the exporter recomputes
            # (among them 'opposite_cell', the importer's copy of the cell adjacency: saved again it is written as a user attribute
            # next to the recomputed adjacency - the reserved-name finding; the adjacency itself is compared in the first generation)
            rec = dict(rec, adj="not compared", mesh_in=dict(rec["mesh_in"], attrs={ck: [a for a in al if a[0] not in GEO_RESERVED.get(ck, [])]
                                                              for ck, al in (rec["mesh_in"].get("attrs") or {}).items()}))
        m = oracle_any(sub, rec)
        if m and not (fmt == "stl" and m.startswith("quad faces")):
            out.append(("second generation (the loaded mesh saved and loaded again)", m))
    # explicit dim: a lower bound, never a cap
    recA = r["A"]
    if "raw" in (recA.get("load") or {}):
        base = recA["load"].get("class")
        bd = {v: k for k, v in CLASS.items()}.get(base)
        for d, cls, same in r.get("dims") or []:
            if bd is None:
                continue
            # the property text does not speak about `dim`: a refusal is accepted, and so is any class that keeps every element kind
            # of the content; an object of a LOWER dimension than the content drops elements (lossy)
            if cls.startswith("EXC"):
                continue
            gd = {v: k for k, v in CLASS.items()}.get(cls)
            if gd is None or gd < bd:
                out.append(("dim", "load(path, dim=%d) of a file whose content is a %s gives a %s: element kinds of the content are dropped"
                            % (d, base, cls)))
            elif not same:
                out.append(("dim", "load(path, dim=%d) does not hold the vertices / faces / cells of load(path)" % d))
    return out


# ---------------------------------------------------------------------- the check
def run(ctx):
    quick = ctx.tier == "quick"
    n_mesh = 40 if quick else 360
    ctx.rule = ("meshes built by mouette itself (RawMeshData.prepare) from generated vertex/edge/face/cell lists: point clouds, "
                "polylines, triangle / quad / mixed / polygon surfaces, surfaces with explicit edges, tetrahedral, hexahedral and mixed "
                "volumes, the empty mesh; 0-12 vertices; coordinates small integers, dyadic, special doubles (-0.0, subnormal, 1e308, 1e-310) "
                "or arbitrary finite bit patterns; config switches complete_edges_from_faces / export_edges_in_obj / "
                "complete_faces_from_cells; ignore_elements (as set / frozenset / list / tuple / dict, by keyword or position); indices and "
                "coordinates handed over as python or numpy values; coincident vertices; meshes with vertex indices beyond 256; string "
                "attributes of arity 2-3 with #, %xx, blanks, [..] in their values; sessions of ~6 saves and ~14 loads in one process "
                "per format. Each mesh is saved in every format. Non-trivial = the mesh has at least one "
                "edge, face or cell; distinct = by canonical JSON of (mesh, format, switches)")
    ctx.assumptions += ["vertices are 3-vectors of finite binary64 values (NaN / inf excluded)",
                       "float(text) of '{}'.format(x) gives back x bit for bit (CPython/numpy shortest repr): section hypothesis of the "
                       "theorems, tested on every run by the driver on special and random doubles",
                       "OBJ v/vt/vn index forms, uv_coords / normals attributes and .xyz normals are outside the model"]
    ctx.regen(sys.modules[__name__])
    b = ctx.build_props(extra_targets=["theories/C04/Run.vo"])
    ctx.hygiene(["Lib", "C04"])
    ctx.log("built")

    # ---- float text round trip (trusted base of the theorems, tested)
    bits = [f2b(x) for x in SPECIAL] + [f2b(rand_float(ctx.rng, "any")) for _ in range(2000 if quick else 100000)]
    fr = run_jobs([{"k": "floats", "fmt": "-", "bits": bits[i::8]} for i in range(8)])
    badf = [x for r in fr for x in r.get("bad", [])]
    ctx.obligation("float text round trip float('{}'.format(x)) == x on %d doubles (hypothesis rf_pf of the theorems)" % len(bits),
                   "trusted-base-test", not badf, json.dumps(badf[:5]))
    if badf:
        ctx.violation("'{}'.format(x) does not read back as x: %s" % badf[0], {"floats": badf[:10]})

    # ---- percent-encoding of string values / attribute names (hypotheses dec_enc_*, enc_*_safe of the geogram theorems)
    from urllib.parse import quote, unquote
    sfe = "!$&'()*+,-./:;<=>?@^_`{|}~"
    texts = WORDS + NAME_EXTRA + ["".join(chr(ctx.rng.randrange(0, 128)) for _ in range(ctx.rng.randint(0, 12))) for _ in range(300 if quick else 5000)]
    badq = []
    for t in texts:
        for safe in (sfe, sfe + " "):
            e = quote(t, safe=safe)
            if unquote(e) != t or '"' in e or "[" in e or "#" in e or "\n" in e or "\r" in e or e != e.strip() and safe == sfe or pct_decode(e) != t:
                badq.append([t, e])
    ctx.obligation("percent-encoding: unquote(quote(s)) == s and the encoded text has no double quote, #, [, line break (%d texts; hypotheses of "
                   "C04_roundtrip_geogram)" % len(texts), "trusted-base-test", not badq, json.dumps(badq[:5]))
    if badq:
        ctx.violation("urllib quote/unquote do not behave as the geogram theorems assume: %s" % badq[0], {"texts": badq[:10]})

    # ---- cases
    meshes = []
    cdir = os.path.join(core.ROOT, "corpus", "C04")
    if os.path.isdir(cdir):
        for f in sorted(os.listdir(cdir)):
            meshes.append(json.load(open(os.path.join(cdir, f))))
    while len(meshes) < n_mesh:
        m = gen_mesh(ctx.rng)
        m["cfg"] = gen_cfg(ctx.rng)
        if ctx.rng.random() < 0.08:
            m["ignore"] = ctx.rng.choice([["faces"], ["edges"], ["cells"], ["edges", "faces"], ["cells", "faces", "edges"], []])
            m["ignore_form"] = ctx.rng.choice(["set", "set", "frozenset", "list", "tuple", "dict", "keys"])   # any collection supporting `in`
            m["ignore_positional"] = ctx.rng.random() < 0.4
        if ctx.rng.random() < 0.7:
            m["gattrs"] = gen_attrs(ctx.rng, m)
        meshes.append(m)
    # always present: vertex indices beyond 256, and attribute stress (string attributes of arity >= 2 with the characters that are
    # special in a geogram file, on every container of a surface and of a volume)
    for kind in (["big-tri"] if quick else ["big-tri", "big-tet", "big-polyline", "big-mixed", "big-hex"]):
        m = gen_mesh(ctx.rng, kind)
        m["cfg"] = {}
        if quick:      # three formats per run (the terms are large), all of them in the thorough tier
            m["only_fmts"] = ctx.rng.sample(["obj", "off", "mesh", "geogram_ascii", "xyz"], 3)
        meshes.append(m)
    for kind in (["surf+edges", "tet"] if quick else ["surf+edges", "tet", "tri", "tethex", "polyline", "cloud", "hex", "mixed"] * 3):
        m = gen_mesh(ctx.rng, kind)
        m["cfg"] = {}
        m["gattrs"] = gen_attrs(ctx.rng, m, stress=True)
        m["geo_only"] = True
        meshes.append(m)
    jobs = []
    for m in meshes:
        for fmt in (["geogram_ascii"] if m.get("geo_only") else m.get("only_fmts") or TEXT_FORMATS):
            mm = m
            if fmt == "geogram_ascii" and "gattrs" in m:
                mm = dict(m, attrs=m["gattrs"])
            jobs.append(save_job(mm, fmt, m.get("cfg") or {}, m.get("ignore")))
        if m["F"] and "faces" not in (m.get("ignore") or []) and not m.get("geo_only") and not m.get("only_fmts"):
            jobs.append(save_job(m, "stl", m.get("cfg") or {}, m.get("ignore")))
    # every attribute an exporter consults, in every storage state (dense / sparse, fully / partly / not written, wrong arity, other type)
    for fmt_, targets in CONSULTED.items():
        for t_ in targets:
            for st_ in (ctx.rng.sample(STATES[:6], 3) if quick and fmt_ == "geogram_ascii" and t_[1] != "corner_adjacent_facet" else STATES):
                for _ in range(1 if quick else 4):
                    jobs.append(gen_consulted(ctx.rng, fmt_, t_, st_))
        for _ in range(2 if quick else 10):     # several consulted attributes at once
            if len(targets) > 1:
                a_, b_ = ctx.rng.sample(targets, 2)
                if (a_[0], a_[1]) != (b_[0], b_[1]):
                    jobs.append(gen_consulted(ctx.rng, fmt_, a_, ctx.rng.choice(STATES[:6]), extra=[(b_, ctx.rng.choice(STATES[:6]))]))
    src_names = tr.consulted_attributes()
    uncovered = sorted({(f, n) for f, ns in src_names.items() for n in ns
                        if n not in COVERED_ELSEWHERE and n not in {t[1] for t in CONSULTED.get({"medit.py": "mesh", "geogram_ascii.py": "geogram_ascii"}.get(f, f[:-3]), [])}})
    ctx.obligation("harness: every attribute name the export functions look up (%s) is exercised in every storage state"
                   % ", ".join(sorted({n for ns in src_names.values() for n in ns})), "harness", not uncovered, "not exercised: %s" % uncovered)
    # the witnesses of the known findings / _refuted theorems are replayed on every run
    sqv = [[f2b(0.0), f2b(0.0), f2b(0.0)], [f2b(1.0), f2b(0.0), f2b(0.0)], [f2b(1.0), f2b(1.0), f2b(0.0)], [f2b(0.0), f2b(1.0), f2b(0.0)]]
    jobs.append(save_job({"V": sqv, "E": [], "F": [[0, 1, 2, 3]], "C": []}, "stl", {}))
    jobs.append(save_job({"V": sqv[:2], "E": [], "F": [], "C": [],
                          "attrs": {"V": [{"name": "point", "type": "Float", "arity": 3, "dense": False, "vals": [[0, [f2b(5.0), f2b(6.0), f2b(7.0)]]]}]}},
                         "geogram_ascii", {}))
    ctx.log("floats done; running %d save/load jobs" % len(jobs))
    res = run_jobs(jobs)
    ctx.log("implementation runs done")

    extra_batches = []
    lv_dbg = []
    fails_files = []
    fails_load = []
    skipped = {"n": 0, "total": 0}

    def skip(reason):
        skipped["n"] += 1
        ctx.count("SKIPPED by the harness: " + reason)
    save_terms, load_terms, rt_terms, stl_terms = [], [], [], []
    save_idx, load_idx, stl_idx = [], [], []
    fails = []
    for idx, (job, r) in enumerate(zip(jobs, res)):
        fmt = job["fmt"]
        skipped["total"] += 1
        if "driver_exc" in r or "build_exc" in r:
            skip("driver / build exception")
            ctx.notes.append("case %d: %s" % (idx, json.dumps(r)[:200]))
            if "driver_exc" in r:   # the driver died or timed out while saving / observing: that is a verdict, not a skip
                fails.append((idx, "save or the observation of the mesh after save failed: %s" % json.dumps(r["driver_exc"])[:200]))
            continue
        mi = r["mesh_in"]
        ctx.count("fmt " + fmt)
        ctx.count("class " + mi["class"])
        ctx.case_seen([job["mesh"], fmt, job.get("cfg"), job.get("ignore")],
                      nontrivial=bool(mi["E"] or mi["F"] or mi["C"]),
                      sample={"format": fmt, "mesh": {k: job["mesh"][k] for k in ("E", "F", "C")}, "cfg": job.get("cfg"),
                              "file": (r.get("file") or {}).get("text", "")[:200]})
        if fmt == "stl":
            msg = oracle_stl(job, r)
            if msg:
                fails.append((idx, msg))
            if not mesh_modelled(mi):
                skip("mesh outside the model's input type")
                continue
            if "file" in r:
                data = bytes.fromhex(r["file"]["hex"])
                flds = stl_fields(data)
                ref = stl_reference_reader(data)
                if flds is None:
                    fails.append((idx, "the file written is not a whole number of 50-byte facets after the 84-byte header"))
                    continue
                stl_terms.append("(%s, Some [%s], %s)" % (smesh_term(dict(mi, F=[] if "faces" in (job.get("ignore") or []) else mi["F"])),
                                                        "; ".join(sfield_term(f) for f in flds),
                                                        "None" if ref is None else "(Some %s)" % ("[" + "; ".join(zll(t) for t in ref) + "]")))
            else:
                stl_terms.append("(%s, None, None)" % smesh_term(mi))
            stl_idx.append(idx)
            continue
        msg = oracle_any(job, r)
        if msg:
            fails.append((idx, msg))
        for ck_, nm_, st_ in job.get("consulted") or []:
            ctx.count("attribute the exporter consults: %s %s.%s %s" % (fmt, ck_, nm_, st_))
        if not mesh_modelled(mi):
            skip("mesh outside the model's input type")
            continue
        sw = sw_term(job.get("cfg") or {}, job.get("ignore"))
        geo = fmt == "geogram_ascii"
        special = bool(job.get("consulted")) and not geo     # normals / uv_coords: outside the model's print_f (guard of the theorems)
        odd = any("wrong arity" in c[2] or "integer values" in c[2] for c in job.get("consulted") or [])
        if geo and any(c[1] in ("corner_adjacent_facet", "adjacent_cell") for c in job.get("consulted") or []):
            # written as a table of the format, not as a user attribute: outside geo_ok, the guard of the model's print_geo
            ctx.count("model terms not emitted: attribute name outside geo_ok (written as a table of the format)")
            continue
        if geo:
            mi = dict(mi, adj=r.get("adj"))
            if any(a[3][:1] == ["EXC"] or any(v[0] == "other" for v in a[3]) for al in (mi.get("attrs") or {}).values() for a in al):
                skip("attribute value outside the model")
                continue
            if not all(printable(a[0]) and all(v[0] != "s" or printable(v[1]) for v in a[3]) for al in mi["attrs"].values() for a in al):
                skip("non-ASCII attribute text")
                continue
        mt = mesh_term(mi, with_attrs=geo)
        if "file" in r:
            toks = tokenize_geogram(r["file"]["text"]) if geo else tokenize(r["file"]["text"], fmt)
            if not printable(r["file"]["text"].replace("\n", " ")):
                skip("non-ASCII file")
                continue
            if not special:
                save_terms.append("(%s, %s, %s, Some %s)" % (FMT_COQ[fmt], sw, mt, lines_term(toks)))
                save_idx.append(idx)
            else:
                ctx.count("model save / round-trip term not emitted: mesh carries normals / uv_coords (guard no_xyz_attrs / no_obj_attrs of the theorems); "
                          "the file is judged by the oracle, an independent reader and the model's parser")
            ld = r.get("load")
            if ld is not None and not (special and odd):
                ot, ct = obs_raw_term(ld, with_attrs=geo)
                if ot is not None:
                    load_terms.append("(%s, %s, %s, %s)" % (FMT_COQ[fmt], lines_term(toks), ot, ct))
                    load_idx.append(idx)
                else:   # elements that are not integers / values of a foreign type: the importer produced something outside the model
                    skip("loaded data not encodable")
                    fails.append((idx, "the loaded data holds elements that are not integers or values of a foreign type: %s" % json.dumps(ld.get("raw"))[:200]))
        elif not special:
            save_terms.append("(%s, %s, %s, None)" % (FMT_COQ[fmt], sw, mt))
            save_idx.append(idx)
        if special:
            pass
        elif geo and reserved_names_used(job):
            ctx.count("model round-trip test not emitted: attribute name outside geo_ok (reserved by the format)")
        else:
            rt_terms.append("(%s, %s, %s)" % (FMT_COQ[fmt], sw, mt))

    # ---- interoperability: independent reader on mouette's files, mouette's importers on the independent writer's files
    rr_terms, rw_terms, rw_idx, rw_jobs = [], [], [], []
    for idx, (job, r) in enumerate(zip(jobs, res)):
        fmt = job["fmt"]
        if fmt not in REF_FORMATS or "mesh_in" not in r or not mesh_modelled(r["mesh_in"]):
            continue
        mi = r["mesh_in"]
        if "file" in r and printable(r["file"]["text"].replace("\n", " ")) and not (fmt == "obj" and job.get("consulted")):
            toks = tokenize(r["file"]["text"], fmt)
            got = ref_read(fmt, toks)
            rr_terms.append("(%s, %s, %s)" % (FMT_COQ[fmt], lines_term(toks), raw_obs_term(got)))
            want = expected_ref_read(fmt, mi, job.get("cfg") or {}, job.get("ignore"))
            ok_shape = all(x >= 0 for e in want["E"] + want["F"] + want["C"] for x in e) and all(len(f) >= 3 for f in want["F"])
            if ok_shape and (got is None or any(got[k] != want[k] for k in "VEFC")):
                fails.append((idx, "an independent reader of the format finds %s in the file mouette wrote, the mesh has %s"
                              % (json.dumps(got)[:200], json.dumps(want)[:200])))
        if job.get("ignore") is None and not (job.get("cfg") or {}):
            rw_jobs.append({"k": "load", "fmt": fmt, "text": text_of_lines(ref_write(fmt, mi))})
            rw_idx.append(idx)
    # the optional parts of each format, as an independent writer may use them
    var_jobs, var_meta = [], []
    seen_fmt_kind = set()
    for idx, (job, r) in enumerate(zip(jobs, res)):
        fmt = job["fmt"]
        if fmt not in REF_FORMATS or "mesh_in" not in r or not mesh_modelled(r["mesh_in"]) or job.get("ignore") is not None or (job.get("cfg") or {}):
            continue
        mi = r["mesh_in"]
        if fmt == "mesh" and ctx.rng.random() < 0.3 and mi["V"]:
            mi = dict(mi, V=[[v[0], v[1], 0] for v in mi["V"]])     # a planar copy, for the two-dimensional Medit layout
        for label, text, want, kf in variant_files(fmt, mi, ctx.rng):
            if not quick or (fmt, label.split(" ")[0]) not in seen_fmt_kind or ctx.rng.random() < 0.25:
                seen_fmt_kind.add((fmt, label.split(" ")[0]))
                var_jobs.append({"k": "load", "fmt": fmt, "text": text})
                var_meta.append((fmt, label, want, kf))
    for fmt_, label_, text_, want_, kf_ in (
            ("obj", "witness: relative (negative) indices", "v 0.0 0.0 0.0\nv 1.0 0.0 0.0\nv 0.0 1.0 0.0\nf -3 -2 -1\n",
             {"V": sqv[:2] + [sqv[3]], "E": [], "F": [[0, 1, 2]], "C": []}, None),      # repaired in /repo: a regression case now
            ("mesh", "witness: counts on the keyword lines", "MeshVersionFormatted 2\nDimension 3\nVertices 1\n0.0 0.0 0.0 0\nEnd\n",
             {"V": [sqv[0]], "E": [], "F": [], "C": []}, "mesh/count-on-keyword-line"),
            ("mesh", "witness: two-dimensional file", "MeshVersionFormatted 2\nDimension 2\nVertices\n1\n0.0 0.0 7\nEnd\n",
             {"V": [sqv[0]], "E": [], "F": [], "C": []}, "mesh/dimension-2")):
        var_jobs.append({"k": "load", "fmt": fmt_, "text": text_})
        var_meta.append((fmt_, label_, want_, kf_))
    n_var_model = len(var_jobs)
    for label_, text_, want_ in stl_ascii_files(ctx.rng, 12 if quick else 120):
        var_jobs.append({"k": "load", "fmt": "stl", "text": text_})
        var_meta.append(("stl", "ASCII, " + label_, want_, None))
    var_res = run_jobs(var_jobs)
    var_terms = []
    for (fmt, label, want, kf), j2, r2 in zip(var_meta, var_jobs, var_res):
        ld = r2.get("load")
        ctx.count("independent writer, optional parts: %s %s" % (fmt, label))
        msg = oracle_load(fmt, ld, want)
        if msg:
            fails_load.append((fmt, label, j2, want, msg, kf))
        if fmt != "stl" and ld is not None and printable(j2["text"].replace("\n", " ").replace("\t", " ")):
            ot, ct = obs_raw_term(ld)
            if ot is not None:
                var_terms.append("(%s, %s, %s, %s)" % (FMT_COQ[fmt], lines_term(tokenize(j2["text"], fmt)), ot, ct))
    extra_batches.append(("refvar", var_terms, "check_load", "(fmt * list zline * option zraw * option (option string))"))

    geo_jobs, geo_idx = [], []
    gr_terms = []
    for idx, (job, r) in enumerate(zip(jobs, res)):
        if job["fmt"] != "geogram_ascii" or "mesh_in" not in r or not mesh_modelled(r["mesh_in"]):
            continue
        mi = r["mesh_in"]
        if "file" in r:
            msg = oracle_geogram_interop(mi, r.get("adj"), r["file"]["text"], job.get("ignore"))
            if msg:
                fails.append((idx, msg))
            if printable(r["file"]["text"].replace("\n", " ")):
                it = geo_ref_items(r["file"]["text"])
                gr_terms.append("(%s, %s)" % (lines_term(tokenize_geogram(r["file"]["text"])),
                                             "None" if it is None else "(Some [%s])" % "; ".join(
                                                 "(%s, %s, %s, %s, %s, %s)" % (z(a), cstr(b_), cstr(c_), cstr(d_), z(e_), z(f_)) for a, b_, c_, d_, e_, f_ in it)))
        if job.get("ignore") is None and all(len(c) == 4 for c in (mi["C"] or [])) and mi.get("FC") in (None, [x for f in (mi["F"] or []) for x in f]):
            geo_jobs.append({"k": "load", "fmt": "geogram_ascii", "text": geo_ref_write(mi, r.get("adj"), comments=ctx.rng.random() < 0.7)})
            geo_idx.append(idx)
    geo_res = run_jobs(geo_jobs)
    geo_terms = []
    for idx, j2, r2 in zip(geo_idx, geo_jobs, geo_res):
        mi = res[idx]["mesh_in"]
        ld = r2.get("load") or {"raw_exc": r2.get("driver_exc", {"exc": "?", "msg": ""})}
        ctx.count("reference-writer file loaded: geogram_ascii")
        want = {"V": [list(v) for v in mi["V"]], "E": [list(e) for e in (mi["E"] or [])], "F": mi["F"] or [], "C": mi["C"] or []}
        if "raw_exc" in ld:
            fails.append((idx, "loading a geogram_ascii file written by an independent writer raised %s: %s" % (ld["raw_exc"]["exc"], ld["raw_exc"]["msg"])))
        elif any(ld["raw"][k] != want[k] for k in "VEFC"):
            fails.append((idx, "a geogram_ascii file written by an independent writer loads as %s instead of %s"
                          % (json.dumps({k: ld["raw"][k] for k in "VEFC"})[:200], json.dumps(want)[:200])))
        else:
            mi2 = dict(mi, attrs={ck: [a for a in al if a[1] in GEO_TYPES and re.fullmatch(r"[A-Za-z0-9_:.-]+", a[0]) and a[0] not in GEO_RESERVED.get(ck, [])
                                       and (ck != "CF" or res[idx].get("adj") is not None)]
                                  for ck, al in (mi.get("attrs") or {}).items()})
            msg = oracle_geogram_attrs(mi2, res[idx].get("adj"), ld["raw"], None)
            if msg:
                fails.append((idx, "independent writer's geogram_ascii file: " + msg))
        ot, ct = obs_raw_term(ld, with_attrs=True)
        if ot is not None and printable(j2["text"].replace("\n", " ")):
            geo_terms.append("(Fgeo, %s, %s, %s)" % (lines_term(tokenize_geogram(j2["text"])), ot, ct))
    extra_batches.append(("georef", geo_terms, "check_load", "(fmt * list zline * option zraw * option (option string))"))
    extra_batches.append(("georead", gr_terms, "check_georead", "(list zline * option (list (Z * string * string * string * Z * Z)))"))
    rw_res = run_jobs(rw_jobs)
    for idx, j2, r2 in zip(rw_idx, rw_jobs, rw_res):
        fmt = jobs[idx]["fmt"]
        mi = res[idx]["mesh_in"]
        ld = r2.get("load") or {"raw_exc": r2.get("driver_exc", {"exc": "?", "msg": ""})}
        ctx.count("reference-writer file loaded: " + fmt)
        want = expected_load_of_ref(fmt, mi)
        if fmt == "off" and any(len(f) < 3 for f in want["F"]):
            pass
        elif "raw_exc" in ld:
            fails.append((idx, "loading a file written by an independent writer raised %s: %s" % (ld["raw_exc"]["exc"], ld["raw_exc"]["msg"])))
        elif any(ld["raw"][k] != want[k] for k in "VEFC"):
            fails.append((idx, "a file written by an independent writer loads as %s instead of %s" % (json.dumps({k: ld["raw"][k] for k in "VEFC"})[:200], json.dumps(want)[:200])))
        elif "class" in ld and ld["class"] != implied_class(want):
            fails.append((idx, "a file written by an independent writer loads as a %s, its content implies %s" % (ld["class"], implied_class(want))))
        ot, ct = obs_raw_term(ld)
        if ot is not None:
            rw_terms.append("(%s, %s, %s, %s, %s)" % (FMT_COQ[fmt], mesh_term(mi), lines_term(tokenize(j2["text"], fmt)), ot, ct))

    # ---- variant / malformed stream: edited copies of the files, mouette's importer against the model's parser
    lv_jobs, lv_meta = [], []
    nvar = 1 if quick else 2
    for idx, (job, r) in enumerate(zip(jobs, res)):
        fmt = job["fmt"]
        if fmt == "stl" or "file" not in r or not printable(r["file"]["text"].replace("\n", " ")):
            continue
        if job.get("consulted") and fmt != "geogram_ascii":
            continue      # vt / vn statements and normals columns: an edited copy leaves the model (dangling vt / vn references)
        geo = fmt == "geogram_ascii"
        base = tokenize_geogram(r["file"]["text"]) if geo else tokenize(r["file"]["text"], fmt)
        for _ in range(nvar):
            kind, L = mutate_lines(ctx.rng, base, geo)
            if ctx.rng.random() < 0.3:
                kind2, L = mutate_lines(ctx.rng, L, geo)
                kind += "+" + kind2
            text = text_of_lines(L)
            # the edit must survive re-tokenisation (the model is compared on the tokens of the file actually loaded)
            L2 = tokenize_geogram(text) if geo else tokenize(text, fmt)
            lv_jobs.append({"k": "load", "fmt": fmt, "text": text})
            lv_meta.append((fmt, kind, L2))
    # files of the test-suite's data directory: written by other programs (geogram, a Fortran mesh writer, Blender...)
    real = []
    for rel_, fmt in (("quads.obj", "obj"), ("one_ring_permut.obj", "obj"), ("two_pieces.obj", "obj"), ("cube.tet", "tet"),
                      ("quad_split2.geogram_ascii", "geogram_ascii"), ("cube86.mesh", "mesh"), ("spline03.mesh", "mesh")):
        pth = os.path.join(core.REPO, "tests", "data", rel_)
        if os.path.exists(pth):
            text = open(pth, newline="").read().replace("\r\n", "\n")
            if printable(text.replace("\n", " ").replace("\t", " ")) and "/" not in text.replace("//", ""):
                geo = fmt == "geogram_ascii"
                lv_jobs.append({"k": "load", "fmt": fmt, "text": text})
                lv_meta.append((fmt, "file " + rel_, tokenize_geogram(text) if geo else tokenize(text, fmt)))
                real.append(len(lv_jobs) - 1)
    lv_res = run_jobs(lv_jobs)
    for k in real:
        fmt, kind, L2 = lv_meta[k]
        ld = lv_res[k].get("load") or {}
        ctx.count("third-party file loaded: " + kind)
        if "raw_exc" in ld:
            fails_files.append("%s: loading raised %s: %s" % (kind, ld["raw_exc"]["exc"], ld["raw_exc"]["msg"]))
            continue
        if fmt == "geogram_ascii":
            g = geo_ref_read(lv_jobs[k]["text"])
        else:
            g = ref_read(fmt, L2)
        if g is None:
            ctx.notes.append("%s is outside the reference reader's grammar" % kind)
            continue
        got = ld["raw"]
        same = (got["V"] == g["V"] and sorted(sorted(e) for e in got["E"]) == sorted(sorted(e) for e in g["E"])
                and sorted(got["F"]) == sorted(g["F"]) and sorted(got["C"]) == sorted(g["C"]))
        if not same:
            fails_files.append("%s: mouette loads %s, an independent reader finds %s" % (kind, json.dumps({x: got[x] for x in "VEFC"})[:200], json.dumps({x: g[x] for x in "VEFC"})[:200]))
    lv_terms = []
    for (fmt, kind, L2), r2 in zip(lv_meta, lv_res):
        ld = r2.get("load")
        if ld is None:
            continue
        ctx.count("variant stream %s: %s" % (fmt, "rejected" if "raw_exc" in ld else "loaded"))
        ot, ct = obs_raw_term(ld, with_attrs=(fmt == "geogram_ascii"))
        if ot is not None:
            lv_terms.append("(%s, %s, %s, %s)" % (FMT_COQ[fmt], lines_term(L2), ot, ct))
            lv_dbg.append((fmt, kind, L2, ld))
    extra_batches.append(("loadvar", lv_terms, "check_load", "(fmt * list zline * option zraw * option (option string))"))

    # ---- sessions: two meshes saved and loaded several times in ONE process, in every format (objects and calls of a session do
    # not influence each other; call forms; explicit dim; upper-case extension; calls that raise in between; second generation)
    sess_jobs = gen_sessions(ctx.rng, 2 if quick else 14)
    sess_res = run_jobs(sess_jobs)
    sess_fails = []
    dim_terms = []
    n_sess_skipped = 0
    for sj, sr in zip(sess_jobs, sess_res):
        ctx.count("session (2 meshes, ~6 saves, ~14 loads in one process): " + sj["fmt"])
        if "build_exc" in sr:
            n_sess_skipped += 1
            ctx.count("SKIPPED by the harness: session mesh could not be built")
            continue
        for step, msg in oracle_session(sj, sr):
            sess_fails.append((sj, sr, step, msg))
        for c in sr.get("checks") or []:
            if len(c) > 2 and c[2] == "soft":
                ctx.count("session, informative: %s: %s" % (c[0], "yes" if c[1] else "no"))
        if sj["fmt"] != "stl" and "A" in sr and "file" in sr["A"] and printable(sr["A"]["file"]["text"].replace("\n", " ")):
            geo = sj["fmt"] == "geogram_ascii"
            toks = tokenize_geogram(sr["A"]["file"]["text"]) if geo else tokenize(sr["A"]["file"]["text"], sj["fmt"])
            for d, cls, same in sr.get("dims") or []:
                if not cls.startswith("EXC"):
                    dim_terms.append("(%s, %s, %s, %s)" % (FMT_COQ[sj["fmt"]], lines_term(toks), z(d), cstr(cls)))
    extra_batches.append(("loaddim", dim_terms, "check_load_dim", "(fmt * list zline * Z * string)"))
    ctx.obligation("harness: %d of %d sessions could not be built, at most 20%% allowed" % (n_sess_skipped, len(sess_jobs)), "harness",
                   n_sess_skipped <= 0.2 * len(sess_jobs), "")

    n_unknown = len(sess_fails)
    for idx, msg in fails:
        if not ctx.known(classify(jobs[idx], res[idx], msg)):
            n_unknown += 1
    for fmt_, label_, j2_, want_, msg_, kf_ in fails_load:
        if not (kf_ and ctx.known(kf_)):
            n_unknown += 1
    n_unknown += len(fails_files)
    ctx.obligation("oracle: every save -> load, every file of an independent writer and every third-party file is handled as the property says "
                   "(failures outside the listed known findings: %d; inside: %d)" % (n_unknown, len(fails) + len(fails_load) - n_unknown + len(fails_files)),
                   "oracle-on-implementation", n_unknown == 0, "%d failing cases, %d of unknown class (sessions: %d)"
                   % (len(fails) + len(fails_load) + len(fails_files) + len(sess_fails), n_unknown, len(sess_fails)))
    frac = skipped["n"] / max(1, skipped["total"])
    ctx.obligation("harness: %d of %d save/load cases skipped (%.1f%%), at most 5%% allowed; cases explored > 0" % (skipped["n"], skipped["total"], 100 * frac),
                   "harness", frac <= 0.05 and ctx.evaluations > 0, "skips by reason are in input_distribution under 'SKIPPED by the harness'")
    ctx.log("terms built")
    bad_s = bad_l = bad_r = bad_t = []
    bads = {}
    if b["model_ok"]:
        import concurrent.futures as cf
        batches = [
            ("save", save_terms, "check_save", "(fmt * switches * zmesh * option (list zline))"),
            ("load", load_terms, "check_load", "(fmt * list zline * option zraw * option (option string))"),
            ("roundtrip", rt_terms, "check_roundtrip", "(fmt * switches * zmesh)"),
            ("refread", rr_terms, "check_refread", "(fmt * list zline * option zraw)"),
            ("refwrite", rw_terms, "check_refwrite", "(fmt * zmesh * list zline * option zraw * option (option string))"),
            ("stl", stl_terms, "check_stl", "(smesh * option (list sfld) * option (list (list (list Z))))"),
        ] + extra_batches
        with cf.ThreadPoolExecutor(max_workers=len(batches)) as ex:
            futs = {name: ex.submit(ctx.run_cases, name, HEADER, terms, fn, case_type=ty, shard=shard_of(terms), timeout=600 if quick else 1500)
                    for name, terms, fn, ty in batches}
        bads = {name: f.result() for name, f in futs.items()}
        bad_s, bad_l, bad_r, bad_t = bads["save"], bads["load"], bads["roundtrip"], bads["stl"]
    else:
        ctx.obligation("correspondence batches", "correspondence", False, "model does not compile")
    for i in (bads.get("loadvar") or [])[:6]:
        fmt, kind, L2, ld = lv_dbg[i]
        ctx.log("disagreement (variant stream) fmt=%s edit=%s" % (fmt, kind))
        ctx.log("   file: %r" % text_of_lines(L2)[:500])
        ctx.log("   load: %s" % json.dumps({k: v for k, v in ld.items() if k != "loaded"})[:500])
    for name, bad, idxs in (("save", bad_s, save_idx), ("load", bad_l, load_idx), ("stl", bad_t, stl_idx)):
        for i in (bad or [])[:4]:
            j = idxs[i]
            ctx.log("disagreement (%s) case %d: fmt=%s mesh=%s cfg=%s ignore=%s" % (name, j, jobs[j]["fmt"], json.dumps(jobs[j]["mesh"])[:300],
                                                                            jobs[j].get("cfg"), jobs[j].get("ignore")))
            ctx.log("   file: %r" % (res[j].get("file") or {}).get("text", "")[:300])
            ctx.log("   load: %s" % json.dumps(res[j].get("load"))[:400])

    # ---- verdicts
    rep_load = set()
    for fmt, label, j2, want, msg, kf in sorted(fails_load, key=lambda x: len(x[2].get("text", ""))):
        key = kf or "%s/independent-writer/%s" % (fmt, label.split(",")[0].replace(" ", "-"))
        if key in rep_load:
            continue
        rep_load.add(key)
        ctx.violation("%s file of an independent writer (%s): %s" % (fmt, label, msg), {"load_job": j2, "want": want, "label": label, "class": key}, key=key)
    rep_sess = set()
    for sj, sr, step, msg in sorted(sess_fails, key=lambda t: len(json.dumps(t[0]))):
        key = "%s/session/%s" % (sj["fmt"], re.sub(r"[^a-zA-Z ]", "", msg.split(":")[0])[:60].strip().replace(" ", "-"))
        if key in rep_sess or sum(1 for k in rep_sess if k.startswith(sj["fmt"] + "/")) >= 3:
            continue
        rep_sess.add(key)
        ctx.violation("%s, several saves and loads in one process, %s: %s" % (sj["fmt"], step, msg),
                      {"session_job": sj, "step": step, "class": key}, key=key)
    for msg in fails_files:
        ctx.violation("file written by another program: " + msg, {"file": msg}, key="thirdparty/" + msg.split(":")[0])
    reported = set()
    keyed = [(classify(jobs[idx], res[idx], msg), idx, msg) for idx, msg in fails]      # every failing case is classified
    keyed.sort(key=lambda t: (ctx.known(t[0]) is not None, len(json.dumps(jobs[t[1]]["mesh"]))))   # unknown classes first, small inputs first
    n_shrunk = 0
    for key, idx, msg in keyed:
        job = jobs[idx]
        if key in reported:
            continue
        reported.add(key)
        if ctx.known(key):
            ctx.report_known(key, ctx.known(key)["what"])
            continue
        n_shrunk += 1
        if n_shrunk > 8:
            ctx.violation("%s: %s" % (job["fmt"], msg), {"job": job, "observed": res[idx], "class": key}, key=key)
            continue

        def still(mm, job=job):
            jj = dict(job, mesh=dict(job["mesh"], **{k: mm[k] for k in ("V", "E", "F", "C")}))
            rr = run_jobs([jj])[0]
            return "mesh_in" in rr and oracle_any(jj, rr) is not None
        small = shrink_mesh(job["mesh"], still)
        jj = dict(job, mesh=dict(job["mesh"], **{k: small[k] for k in ("V", "E", "F", "C")}))
        rr = run_jobs([jj])[0]
        m2 = oracle_any(jj, rr) if "mesh_in" in rr else None
        ctx.violation("%s: %s" % (job["fmt"], m2 or msg), {"job": jj if m2 else job, "observed": rr if m2 else res[idx], "class": key}, key=key)


def replay(ctx, data):
    if "load_job" in data:
        r = run_jobs([data["load_job"]])[0]
        print("file:\n" + data["load_job"].get("text", "")[:1500])
        print("observed:", json.dumps({k: v for k, v in (r.get("load") or r).items() if k != "loaded"})[:1500])
        m = oracle_load(data["load_job"]["fmt"], r.get("load"), data["want"])
        print("FAILS: " + m if m else "passes")
        return 1 if m else 0
    if "session_job" in data:
        r = run_jobs([data["session_job"]])[0]
        print("session:", json.dumps({k: v for k, v in data["session_job"].items() if k != "meshes"}))
        print("meshes:", json.dumps(data["session_job"]["meshes"])[:1500])
        print("checks:", json.dumps(r.get("checks")), "dims:", json.dumps(r.get("dims")), "failed calls:", json.dumps(r.get("failed_calls")))
        ms = oracle_session(data["session_job"], r)
        for step, m in ms:
            print("FAILS (%s): %s" % (step, m))
        if not ms:
            print("passes")
        return 1 if ms else 0
    if "job" not in data:
        print("replay file names no concrete input:", json.dumps(data)[:400])
        return 1
    job = data["job"]
    r = run_jobs([job])[0]
    print("observed:", json.dumps(r)[:1500])
    if "mesh_in" not in r:
        print("FAILS: could not build the mesh: %s" % json.dumps(r)[:300])
        return 1
    m = oracle_any(job, r)
    print("FAILS: " + m if m else "passes")
    return 1 if m else 0
