"""C03 - volume connectivity answers agree with the cell list; the extracted boundary surface is closed, exact,
outward-oriented, with mutually inverse index maps."""
import itertools
import json
import os
import random
import sys

from .. import core
from ..core import coq_list, coq_bool
from ..translate import c03 as tr
from ..impl import c03_meshgen as G
from ..impl import c03_oracle as O

META = {
    "property_id": "C03",
    "design_ref": "DESIGN.md section 5, C03",
    "technique": "Coq proof (incidence tables = brute-force incidences by list induction over the cell list; border "
                 "classification; handshake proof of closedness; orientation identity by ring/lra over R and Z; sorting by "
                 "walk keys; coverage by closure under face adjacency; index dicts; cache discipline) "
                 "+ translator-regenerated face tables / index expressions / comparisons / orientation tests of BOTH "
                 "extractors / det_3x3 / dict entries / lazy-guard tables + kernel-checked correspondence batches on generated "
                 "tetrahedral meshes (with and without faces/edges declared beforehand) with random query scripts",
    "level_text": "Machine-checked Coq theorems, for every volume M = tetrahedral cell list (any size, numbering, vertex order) "
                  "plus any faces / edges declared before construction (pairwise distinct triangles EACH LYING IN SOME CELL, "
                  "pairwise distinct vertex pairs: the guard `tet_mesh`; a declared face lying in no cell is outside - the code "
                  "lists it as border and _BoundaryConnectivity raises IndexError, shown as an Example, not a theorem), about "
                  "an executable model of volume.py's connectivity, of the face/edge completion and of both boundary "
                  "extractors. Regenerated from the source on every run: the three tetrahedron tables, C[:i]+C[i+1:], the "
                  "comparisons, the orientation test of _BoundaryConnectivity AND of extract_boundary_of_volume (face tuple, "
                  "guard, flip test, flipped tuple), det_3x3, the m2b/b2m dict entries of both extractors, the lazy-cache "
                  "guard tables. PROVED (full): incidence tables equal brute force (face_to_cells, cell_to_face with i-th "
                  "face opposite i-th vertex, cell_to_cell under conformity, vertex_to_cell as the set the double loop "
                  "collects, edge_to_face, edge_to_cell as sets), no exception while building them; border classification; "
                  "boundary closed (handshake), transported to both extracted surfaces, exactly two faces per surface edge "
                  "under the stated guard manifold_boundary; orientation identity over R and Z; every face emitted by EITHER "
                  "extractor is the border face renumbered and outward for a non-degenerate cell, whatever the cell's "
                  "orientation or the declared order of the face, and the two extractors agree (repair 832f457: the standalone "
                  "extractor copied the stored order = inward for right-handed cells); vertex/face dicts as written are "
                  "inverse; edge dicts total both ways and inverse; no AttributeError for any call order; rotational order "
                  "around an edge (C03_edge_ring, full): for every start cell the sort never raises nor runs out of fuel and "
                  "returns permutations of the edge's cells and faces; when it reports sorted, the cells are duplicate-free "
                  "with consecutive cells sharing a face through the edge AND the faces are duplicate-free with consecutive "
                  "faces bounding a common cell (each walk crosses distinct faces; a face crossed by both walks can only be "
                  "the closing face of a ring, whose backward key wins); conforming + face-connected cells => sorted. "
                  "STRUCTURAL / TESTED ONLY: the partitions boundary ++ interior (two halves of one filter in the model); "
                  "that answers do not depend on the query order (the model is pure; scripts of 3-25 calls in random order "
                  "test it); set enumeration orders. The hand-written part of the model is tied to the code by "
                  "kernel-evaluated correspondence batches.",
    "level_note": "Trusted: Coq kernel + vm_compute; the c03 translator; the correspondence harness (mesh generators, "
                  "driver canonicalisation); CPython dict/set/list semantics (set enumeration order enters the model as a "
                  "parameter: the observed order must be a permutation of the model's set; the start cell of a sorted ring "
                  "is any cell of the edge); float arithmetic of det_3x3 is exact on the small integer coordinates used; "
                  "`Reals` axioms only in the orientation theorems over R. Orientation: 'outward' = right-hand normal of "
                  "(a,b,c) points away from the cell's fourth vertex, independent of any sign convention for cells. "
                  "Inputs exercised beyond the theorems' guard: declared edges in every spelling (both directions, repeated, "
                  "invalid pairs mixed in - modelled by norm_edges = what _prepare_edges keeps, lemma norm_edges_ok), vertex "
                  "coordinates as python ints / uint8 / uint16 / int8 / int32 / float32 rows, and histories query -> swap two "
                  "cells in place -> connectivity.clear() -> query with each accessor first (oracle only: the model is a "
                  "function of one cell list; cell_to_cell and the border lists are excluded there because they live in the "
                  "persistent 'adjacent_cell' attribute / in VolumeMesh caches that connectivity.clear() does not own); the "
                  "translator pins clear() (every cache attribute of __init__ reset exactly once, super().clear() called). "
                  "Deliberately left free (oracle accepts any): the exception class/message of any refusal (recorded for "
                  "information; a query the text says must be answered may not raise at all); whether a query about a "
                  "non-existent / non-incident element (face_id / edge_id of a non-face, other_face_side / common_face / "
                  "in_cell_index / in_cell_face_index without incidence, out-of-range ids) answers None or refuses; the order "
                  "of face_to_cells, cell_to_cell, vertex_to_cell, cell_to_edge, of the unsorted edge tables and of the six "
                  "border/interior lists (sets, no duplicates); the start, direction and mutual offset of the sorted cell and "
                  "face rings around an edge; the numbering of faces/edges beyond what mesh.faces/mesh.edges expose; the "
                  "vertex / edge / face numbering of the extracted surfaces, the order and rotation of their faces "
                  "(only outward orientation, exactness, closedness and inverse maps are required); bool vs 0/1, numpy vs "
                  "python integers, list vs tuple vs array rows, class names, warnings, extra attributes; vertex positions "
                  "up to 1e-9(1+|x|). The Coq correspondence is stricter (it follows the code's choices): when only it "
                  "disagrees the verdict is `no-failing-input-found`, never a concrete violation.",
}

HEADER = """From Coq Require Import String List Arith Bool ZArith.
Import ListNotations.
Require Import MV.Lib.Base MV.C03.Gen MV.C03.Model MV.C03.Run.
Open Scope nat_scope.
"""

DRIVER = "vf.impl.c03_driver"
KINDS = ["list", "tuple", "numpy", "from_arrays"]
EDGE_DEP = ("edge", "edge_v", "cell_to_edge", "edge_id", "is_edge_on_border", "is_edge_on_border_v", "boundary_edges",
            "interior_edges", "enable_bc")


def gen(ctx):
    return tr.gen()


# ---------------------------------------------------------------------- scripts
def counts(mesh):
    C = mesh["C"]
    tris = sorted({tuple(sorted(t)) for c in C for t in itertools.combinations(c, 3)})
    sides = sorted({tuple(sorted(t)) for c in C for t in itertools.combinations(c, 2)})
    return tris, sides


def gen_script(rng, mesh, n_ops, manifold, sort):
    C = mesh["C"]
    nv, nc = len(mesh["V"]), len(C)
    tris, sides = counts(mesh)
    nf, ne = len(tris), len(sides)

    def rc():
        return rng.randrange(nc)

    def one():
        k = rng.choice(["face_to_cells", "face_to_cells", "n_F2C", "cell_to_face", "cell_to_face", "cell_to_cell",
                        "cell_to_cell", "other_face_side", "common_face", "vertex_to_cell", "vertex_to_cell",
                        "in_cell_index", "in_cell_face_index", "edge", "edge", "edge", "cell_to_edge", "face_id",
                        "edge_id", "is_face_on_border", "is_face_on_border_v", "is_vertex_on_border",
                        "is_edge_on_border", "is_edge_on_border_v", "boundary_faces", "interior_faces",
                        "boundary_edges", "interior_edges", "boundary_vertices", "interior_vertices"])
        if k in ("face_to_cells", "n_F2C", "is_face_on_border"):
            return [k, rng.randrange(nf)]
        if k in ("cell_to_face", "cell_to_cell", "cell_to_edge"):
            return [k, rc()]
        if k == "other_face_side":
            return [k, rc(), rng.randrange(nf)]
        if k == "common_face":
            return [k, rc(), rc()]
        if k in ("vertex_to_cell", "is_vertex_on_border"):
            return [k, rng.randrange(nv)]
        if k == "in_cell_index":
            c = rc()
            return [k, c, rng.choice(C[c]) if rng.random() < 0.7 else rng.randrange(nv)]
        if k == "in_cell_face_index":
            return [k, rc(), rng.randrange(nf)]
        if k == "edge":
            return [k, rng.randrange(ne), rng.choice(["cf", "fc"])]
        if k == "is_edge_on_border":
            return [k, rng.randrange(ne)]
        if k in ("face_id", "is_face_on_border_v"):
            if rng.random() < 0.85 or k == "is_face_on_border_v":
                t = list(rng.choice(tris))
            else:
                t = rng.sample(range(nv), 3) if nv >= 3 else list(tris[0])
            rng.shuffle(t)
            return [k] + t
        if k in ("edge_id", "is_edge_on_border_v"):
            if rng.random() < 0.85 or k == "is_edge_on_border_v":
                t = list(rng.choice(sides))
            else:
                t = rng.sample(range(nv), 2)
            rng.shuffle(t)
            return [k] + t
        return [k]

    ops = [one() for _ in range(n_ops)]
    for o in ops:
        if o[0] == "face_id" and rng.random() < 0.5:
            o[0] = rng.choice(["face_id_t", "face_id_l"])        # face_id((a,b,c)) / face_id([a,b,c])
    if rng.random() < 0.3:                                        # the same call two or three times in a row / again later
        for _ in range(rng.randint(1, 4)):
            o = list(rng.choice(ops))
            k = rng.randrange(len(ops) + 1)
            ops[k:k] = [o] * rng.choice([1, 2])
            ops.append(list(o))
    if rng.random() < 0.12:                                       # an out-of-range id in between: state afterwards intact
        for _ in range(rng.randint(1, 2)):
            o = rng.choice([["bad:face_to_cells", nf + rng.randint(0, 5)], ["bad:cell_to_face", nc + rng.randint(0, 3)],
                            ["bad:cell_to_cell", nc + 1], ["bad:edge", ne + rng.randint(0, 4), "cf"],
                            ["bad:is_vertex_on_border", nv + 2], ["bad:vertex_to_cell", nv], ["bad:is_edge_on_border", ne]])
            ops.insert(rng.randrange(len(ops) + 1), o)
    if rng.random() < 0.75:
        ops.insert(rng.randrange(len(ops) + 1), ["enable_bc"])
    if rng.random() < 0.75:
        ops.insert(rng.randrange(len(ops) + 1), ["extract"])
    return ops


def full_script(mesh, first=None):
    """every accessor on every element (used while shrinking a mesh)"""
    C = mesh["C"]
    nv, nc = len(mesh["V"]), len(C)
    tris, sides = counts(mesh)
    ops = []
    for f in range(len(tris)):
        ops += [["face_to_cells", f], ["is_face_on_border", f]]
    for c in range(nc):
        ops += [["cell_to_face", c], ["cell_to_cell", c], ["cell_to_edge", c]]
    for v in range(nv):
        ops += [["vertex_to_cell", v], ["is_vertex_on_border", v]]
    for e in range(len(sides)):
        ops += [["edge", e, "cf"], ["is_edge_on_border", e]]
    ops += [["boundary_faces"], ["interior_faces"], ["boundary_edges"], ["interior_edges"], ["boundary_vertices"],
            ["interior_vertices"], ["enable_bc"], ["extract"]]
    if first:
        ops = [o for o in ops if o[0] == first] + [o for o in ops if o[0] != first]
    return ops


def gen_case(rng, big=False):
    if rng.random() < 0.05:
        mesh, F0 = G.fan_with_cell0_inside(rng)
        shared = [t for t in counts(mesh)[1] if sum(1 for c in mesh["C"] if t[0] in c and t[1] in c) >= 2]
        case = {"argrep": "int", "scale_exp": 0, "collide": False, "degenerate": False, "V": mesh["V"], "C": mesh["C"],
                "F0": F0, "E0": [], "kind": rng.choice(KINDS), "sort": True,
                "script": gen_script(rng, mesh, 4, True, True)
                + [["edge_v", t[0], t[1], rng.choice(["cf", "fc"])] for t in shared],
                "tags": ["seed=fan-with-cell-0-inside"], "edge_manifold": True}
        return case
    mesh, tags = G.gen_mesh(rng, big=big)
    manifold = G.edge_manifold(mesh)
    sort = rng.random() < 0.75
    kind = rng.choice(KINDS)
    n_ops = rng.choice([3, 8, 15, 25])
    if rng.random() < 0.05:
        G.pad_vertices(rng, mesh, rng.randint(258, 272))          # vertex ids beyond 256
        tags.append("ids>256")
    F0, E0 = G.declare(rng, mesh)
    if F0:
        tags.append("declared-faces")
    if E0:
        tags.append("declared-edges")
    extra = {"argrep": rng.choice(["int", "int", "np.int64", "np.int32", "np.uint8"]),
             "scale_exp": rng.choice([0, 0, 0, -30, 40]), "collide": rng.random() < 0.1, "degenerate": False}
    if rng.random() < 0.05:
        z = rng.choice(["point", "flat"])
        mesh["V"] = [[0, 0, 0] if z == "point" else [p[0], p[1], 0] for p in mesh["V"]]
        extra["degenerate"] = True
        tags.append("degenerate-geometry")
    # vertex coordinates in every numeric representation (values unchanged; unsigned types need them >= 0)
    extra["vrep"] = "float"
    if extra["scale_exp"] == 0 and rng.random() < 0.45:
        vr = rng.choice(["int", "uint8", "uint16", "int8", "int32", "float32"])
        if vr in ("uint8", "uint16", "int8"):
            lo = [min(p[t] for p in mesh["V"]) for t in range(3)]
            mesh["V"] = [[p[t] - lo[t] for t in range(3)] for p in mesh["V"]]      # a translation: orientation unchanged
            hi = max(max(p) for p in mesh["V"])
            if hi > {"uint8": 255, "uint16": 65535, "int8": 127}[vr]:
                vr = "int32"
        extra["vrep"] = vr
    for k2 in ("argrep", "scale_exp", "collide", "vrep"):
        tags.append("%s=%s" % (k2, extra[k2]))
    if kind == "from_arrays":
        E0 = [e for e in E0 if max(e) < len(mesh["V"])]      # from_arrays refuses out-of-range indices (a legitimate refusal)
    script = gen_script(rng, mesh, n_ops, manifold, sort)
    if len(mesh["C"]) >= 2 and rng.random() < 0.15:
        # history: query, edit the cell list in place, connectivity.clear(), query again - each accessor in turn is the
        # FIRST one asked after the reset (cell_to_cell and the border lists are excluded: they live in a persistent
        # attribute / in VolumeMesh caches that connectivity.clear() does not own)
        i, j = rng.sample(range(len(mesh["C"])), 2)
        nf, ne = len(counts(mesh)[0]), len(counts(mesh)[1])
        after = [["face_to_cells", rng.randrange(nf)], ["n_F2C", rng.randrange(nf)], ["cell_to_face", i],
                 ["other_face_side", i, rng.randrange(nf)], ["vertex_to_cell", rng.choice(mesh["C"][i])],
                 ["edge", rng.randrange(ne), "cf"], ["edge", rng.randrange(ne), "fc"], ["cell_to_edge", j],
                 ["in_cell_index", i, rng.choice(mesh["C"][j])], ["in_cell_face_index", i, rng.randrange(nf)],
                 ["common_face", i, j], ["face_to_cells", rng.randrange(nf)], ["cell_to_face", j]]
        first = after.pop(rng.randrange(len(after)))
        rng.shuffle(after)
        script = [o for o in script if o[0] not in ("enable_bc", "extract")]
        script += [["face_to_cells", rng.randrange(nf)], ["cell_to_face", j], ["edge", rng.randrange(ne), "cf"],
                   ["swap_clear", i, j], first] + after[:rng.randint(2, 6)]
        tags.append("history=edit+clear")
        tags.append("first-after-clear=" + first[0])
    case = {**extra, "V": mesh["V"], "C": mesh["C"], "F0": F0, "E0": E0, "kind": kind, "sort": sort,
            "script": script, "tags": tags, "edge_manifold": manifold}
    return case


# ---------------------------------------------------------------------- encoding into Gallina
def nl(l):
    return "[" + "; ".join(str(int(x)) for x in l) + "]"


def nll(ll):
    return "[" + "; ".join(nl(l) for l in ll) + "]"


def pairs(ps):
    return "[" + "; ".join("(%d, %d)" % (a, b) for a, b in ps) + "]"


def zt(p):
    return "(" + ", ".join(("(%d)%%Z" % x) if x < 0 else ("%d%%Z" % x) for x in p) + ")"


QC = {"face_to_cells": "QFaceToCells", "n_F2C": "QNF2C", "cell_to_face": "QCellToFace", "cell_to_cell": "QCellToCell",
      "other_face_side": "QOtherFaceSide", "common_face": "QCommonFace", "vertex_to_cell": "QVertexToCell",
      "in_cell_index": "QInCellIndex", "in_cell_face_index": "QInCellFaceIndex", "cell_to_edge": "QCellToEdge",
      "face_id": "QFaceId", "edge_id": "QEdgeId", "is_face_on_border": "QIsFaceBorder",
      "is_face_on_border_v": "QIsFaceBorderV", "is_vertex_on_border": "QIsVertexBorder",
      "is_edge_on_border": "QIsEdgeBorder", "is_edge_on_border_v": "QIsEdgeBorderV", "boundary_faces": "QBoundaryFaces",
      "interior_faces": "QInteriorFaces", "boundary_edges": "QBoundaryEdges", "interior_edges": "QInteriorEdges",
      "boundary_vertices": "QBoundaryVertices", "interior_vertices": "QInteriorVertices"}


def ans_term(a):
    k = a[0]
    if k == "none":
        return "ANone"
    if k == "nat" and a[1] >= 0:
        return "(ANat %d)" % a[1]
    if k == "bool":
        return "(ABool %s)" % coq_bool(a[1])
    if k == "list" and all(x >= 0 for x in a[1]):
        return "(AList %s)" % nl(a[1])
    if k == "pair" and all(x >= 0 for x in a[1] + a[2]):
        return "(APair %s %s)" % (nl(a[1]), nl(a[2]))
    return "AErr"


def wellformed_maps(d, keys):
    return all(all(a >= 0 and b >= 0 for a, b in d[k]) for k in keys)


def case_term(case, obs):
    qs = []
    bc = ex = "None"
    for op, a in zip(case["script"], obs["answers"]):
        if op[0] == "swap_clear":
            break           # the model is a function of ONE cell list: the edited phase is checked by the oracle
        if op[0].startswith("bad:"):
            continue
        if op[0] in ("face_id_t", "face_id_l"):
            op = ["face_id"] + list(op[1:])
        if op[0] == "edge_v":
            qs.append("(QEdgeV %d %d, %s)" % (op[1], op[2], ans_term(a)))
        elif op[0] == "edge":
            qs.append("(QEdge %d, %s)" % (op[1], ans_term(a)))
        elif op[0] == "enable_bc":
            if a[0] == "bc" and wellformed_maps(a[1], ["m2b_v", "b2m_v", "m2b_f", "b2m_f", "m2b_e", "b2m_e"]):
                d = a[1]
                vs = [v for _, v in d["b2m_v"]]
                bc = ("(Some {| b_vs := %s; b_m2b_v := %s; b_b2m_v := %s; b_faces := %s; b_edges := %s; b_m2b_f := %s; b_b2m_f := %s; "
                      "b_m2b_e := %s; b_b2m_e := %s |})"
                      % (nl(vs), pairs(d["m2b_v"]), pairs(d["b2m_v"]), nll(d["faces"]), nll(d["edges"]), pairs(d["m2b_f"]),
                         pairs(d["b2m_f"]), pairs(d["m2b_e"]), pairs(d["b2m_e"])))
            elif a[0] == "err":
                qs.append("(QBoundaryEdges, AErr)")     # the constructor goes through boundary_edges
            else:
                qs.append("(QBoundaryFaces, AErr)")     # malformed observation: make the batch disagree
        elif op[0] == "extract":
            if a[0] == "ex" and wellformed_maps(a[1], ["m2b_v", "b2m_v"]):
                d = a[1]
                vs = [v for _, v in d["b2m_v"]]
                ex = ("(Some {| x_vs := %s; x_m2b := %s; x_b2m := %s; x_faces := %s; x_edges := %s |})"
                      % (nl(vs), pairs(d["m2b_v"]), pairs(d["b2m_v"]), nll(d["faces"]), nll(d["edges"])))
            else:
                qs.append("(QBoundaryFaces, AErr)")
        else:
            qs.append("(%s%s, %s)" % (QC[op[0]], "".join(" %d" % x for x in op[1:]), ans_term(a)))
            if len(op) > 1:
                qs[-1] = "(" + "(%s%s)" % (QC[op[0]], "".join(" %d" % x for x in op[1:])) + ", " + ans_term(a) + ")"
    return ("{| k_nv := %d; k_cells := %s; k_pos := %s; k_sorted := %s; k_faces0 := %s; k_edges0 := %s; k_faces := %s; "
            "k_edges := %s; k_queries := %s; k_bc := %s; k_ex := %s |}"
            % (len(case["V"]), nll(case["C"]), coq_list([zt(p) for p in case["V"]]), coq_bool(case["sort"]),
               nll(case.get("F0") or []), nll(case.get("E0") or []),
               nll(obs.get("faces", [])), nll(obs.get("edges", [])), coq_list(qs), bc, ex))


# ---------------------------------------------------------------------- running
def run_batch(cases, timeout=900):
    nsh = max(1, min(core.NCPU, len(cases) // 12))
    payloads = [{"cases": [{k: c.get(k) for k in ("V", "C", "F0", "E0", "kind", "sort", "script", "argrep", "scale_exp", "collide", "degenerate", "vrep")} for c in cases[i::nsh]]} for i in range(nsh)]
    results = core.run_impl_parallel(DRIVER, payloads, timeout=timeout)
    obs = [None] * len(cases)
    for i, r in enumerate(results):
        for j, o in zip(range(i, len(cases), nsh), r["obs"]):
            obs[j] = o
    return obs


def run_one(case):
    return core.run_impl(DRIVER, {"cases": [{k: case.get(k) for k in ("V", "C", "F0", "E0", "kind", "sort", "script", "argrep", "scale_exp", "collide", "degenerate", "vrep")}]}, timeout=120)["obs"][0]


def which_fail(cands, key):
    """indices of the candidate cases that still fail with the same class (one driver process for all)"""
    if not cands:
        return []
    try:
        obs = core.run_impl(DRIVER, {"cases": [{k: c.get(k) for k in ("V", "C", "F0", "E0", "kind", "sort", "script", "argrep", "scale_exp", "collide", "degenerate", "vrep")} for c in cands]},
                            timeout=300)["obs"]
    except Exception:
        return []
    return [i for i, (c, o) in enumerate(zip(cands, obs)) if any(k == key for k, _ in O.check(c, o))]


def drop_cell(case, i):
    C = [c for j, c in enumerate(case["C"]) if j != i]
    used = sorted({v for c in C for v in c})
    ren = {v: k for k, v in enumerate(used)}
    cs = [set(c) for c in C]
    F0 = [[ren[v] for v in f] for f in (case.get("F0") or []) if any(set(f) <= c for c in cs)]
    E0 = [[ren[v] for v in e] for e in (case.get("E0") or []) if any(set(e) <= c for c in cs)]
    return {"V": [case["V"][v] for v in used], "C": [[ren[v] for v in c] for c in C], "F0": F0, "E0": E0}


def shrink(case, key, deadline):
    """greedy, batched: a single op if possible, else drop ops one at a time; then delete cells one at a time
    (re-scanning the smaller mesh with the exhaustive script)"""
    import time
    cur = dict(case)

    def min_script(cur):
        ops = cur["script"]
        w = which_fail([dict(cur, script=[o]) for o in ops], key)
        if w:
            return dict(cur, script=[ops[w[0]]])
        for _ in range(12):
            if len(cur["script"]) <= 1 or time.time() > deadline:
                break
            ops = cur["script"]
            w = which_fail([dict(cur, script=ops[:i] + ops[i + 1:]) for i in range(len(ops))], key)
            if not w:
                break
            cur = dict(cur, script=ops[:w[0]] + ops[w[0] + 1:])
        return cur

    cur = min_script(cur)
    first = cur["script"][-1][0] if cur["script"] else None
    for _ in range(40):
        if len(cur["C"]) <= 1 or time.time() > deadline:
            break
        cands = []
        for i in range(len(cur["C"])):
            m = drop_cell(cur, i)
            cands.append(dict(cur, V=m["V"], C=m["C"], F0=m["F0"], E0=m["E0"], script=full_script(m, first=first)))
        w = which_fail(cands, key)
        if not w:
            break
        cur = cands[w[0]]
    if time.time() <= deadline:
        cur = min_script(cur)
    return cur


WITNESS = {"V": [[0, 0, 0], [1, 0, 0], [0, 1, 0], [0, 0, 1], [0, -1, 0], [0, 0, -1]],
           "C": [[0, 1, 2, 3], [0, 1, 4, 5]], "kind": "list", "sort": True,
           "script": [["edge", 5, "cf"], ["edge", 1, "fc"], ["boundary_edges"], ["enable_bc"], ["cell_to_edge", 1]],
           "tags": ["witness=two-tets-sharing-an-edge (fixed e464500)"], "edge_manifold": False}


def run(ctx):
    quick = ctx.tier == "quick"
    n_cases = 260 if quick else 9000
    ctx.rule = ("tetrahedral meshes from seeds (single tet, 5-/6-tet cubes, cube grids, two tets glued along an edge or a "
                "vertex) under conformity-preserving edits (cell 1->4, face split, edge split, cell deletion), random "
                "renumbering, random cell order, random vertex order in each cell (random / all positive / all negative), "
                "cells given as lists, tuples, numpy rows or through from_arrays, neighbourhood sorting on/off, and a random "
                "script of 3-25 public connectivity / border queries with both boundary extractors at random positions. "
                "Non-trivial = at least 2 cells and at least one query whose answer is not empty/None; distinct = by "
                "canonical JSON of (vertices, cells, container kind, sort flag, script)")
    ctx.assumptions += ["set enumeration order (list(set), enumerate(set)) is not modelled: the observed order must be a "
                        "permutation of the model's set and the start cell of a sorted ring any cell of the edge",
                        "coordinates are small integers so that the float determinant of the orientation test is exact"]
    ok_gen = ctx.regen(sys.modules[__name__])
    b = ctx.build_props(extra_targets=["theories/C03/Run.vo"])
    ctx.hygiene(["Lib", "C03"])

    cases = []
    cdir = os.path.join(core.ROOT, "corpus", "C03")
    if os.path.isdir(cdir):
        for f in sorted(os.listdir(cdir)):
            if f.endswith(".json"):
                d = json.load(open(os.path.join(cdir, f)))
                cases.append(d.get("case", d))
    cases.append(dict(WITNESS))
    for i in range(n_cases):
        cases.append(gen_case(ctx.rng, big=(not quick and i % 10 == 0) or (quick and i % 40 == 0)))
    ctx.log("running %d cases on the implementation" % len(cases))
    obs = run_batch(cases)

    fails = []   # (index, key, msg)
    for idx, (c, o) in enumerate(zip(cases, obs)):
        for t in c.get("tags", []):
            ctx.count(t)
        ctx.count("cells<=%d" % (8 * ((len(c["C"]) + 7) // 8)))
        ctx.count("kind=" + c["kind"])
        ctx.count("sort=%s" % c["sort"])
        ctx.count("edge-manifold=%s" % c.get("edge_manifold"))
        for op in c["script"]:
            ctx.count("op " + op[0])
        nontriv = len(c["C"]) >= 2 and any(a[0] in ("nat", "bool", "bc", "ex") or (a[0] in ("list", "pair") and a[1])
                                           for a in o.get("answers", []))
        ctx.case_seen([c["V"], c["C"], c["kind"], c["sort"], c["script"]], nontrivial=nontriv,
                      sample={"cells": c["C"][:6], "script": c["script"][:6], "answers": o.get("answers", [])[:4]}
                      if len(c["C"]) > 1 and len(ctx.samples) < 4 else None)
        for key, msg in O.check(c, o):
            fails.append((idx, key, msg))
    ctx.obligation("oracle: every observed answer equals the brute-force inspection of the cell list; extracted surfaces "
                   "closed / exact / outward / maps inverse", "oracle-on-implementation",
                   all(ctx.known(k) for _, k, _ in fails), "%d failing observations: %s" % (len(fails), sorted({k for _, k, _ in fails})[:12]))

    bad = []
    if b["model_ok"]:
        terms = [case_term(c, o) for c, o in zip(cases, obs)]
        bad = ctx.run_cases("conn", HEADER, terms, "check_case", case_type="case", shard=20 if quick else 80, timeout=900)
    else:
        ctx.obligation("correspondence batches", "correspondence", False, "model does not compile")

    import time
    reported = set()
    deadline = time.time() + (45 if quick else 240)
    for idx, key, msg in fails:
        if key in reported:
            continue
        reported.add(key)
        case = cases[idx]
        if ctx.known(key):
            ctx.violation(msg, {"case": case, "class": key}, key=key)
            continue
        if len(ctx.violations) >= 4:
            # every failure class is reported; only the first four are shrunk
            ctx.violation(msg, {"case": case, "observed": obs[idx], "class": key}, key=key)
            continue
        ctx.log("oracle failure (%s): %s -- shrinking" % (key, msg))
        try:
            small = shrink(case, key, deadline)
            ob = run_one(small)
            m2 = [m for k, m in O.check(small, ob) if k == key]
            if not m2:
                small, ob = case, obs[idx]
        except Exception as ex:  # noqa
            small, ob, m2 = case, obs[idx], []
            ctx.log("shrinking failed: %r" % ex)
        ctx.violation(m2[0] if m2 else msg, {"case": small, "observed": ob, "class": key}, key=key)
    if bad and not fails:
        for i in bad[:3]:
            ctx.log("model/implementation disagreement on case %d: %s" % (i, json.dumps({k: cases[i].get(k) for k in ("V", "C", "F0", "E0", "kind", "sort", "script", "argrep", "scale_exp", "collide", "degenerate", "vrep")})))
            ctx.log("   observed: " + json.dumps(obs[i])[:1500])
        ctx.notes.append("model and implementation disagree on cases %s although the oracle accepts the implementation's answers" % bad[:10])
    if bad is None:
        ctx.notes.append("a correspondence batch could not be evaluated")


def replay(ctx, data):
    case = data.get("case")
    if not case:
        print("replay file names no concrete input:", json.dumps(data)[:600])
        return 1
    ob = run_one(case)
    fl = O.check(case, ob)
    print("case:", json.dumps({k: case.get(k) for k in ("V", "C", "F0", "E0", "kind", "sort", "script", "argrep", "scale_exp", "collide", "degenerate", "vrep")}))
    print("observed:", json.dumps(ob)[:3000])
    for k, m in fl:
        print("FAILS [%s]: %s" % (k, m))
    if not fl:
        print("passes")
    return 1 if fl else 0
