"""C17 - Tutte's embedding is a fold-free planar embedding onto the convex target."""
import json
import math
import os
import sys
import time
from fractions import Fraction as Fr

from .. import core
from ..core import coq_list, coq_bool
from ..impl import c17_meshgen as G
from ..impl import c17_oracle as O
from ..translate import c17 as tr

META = {
    "property_id": "C17",
    "design_ref": "DESIGN.md section 5, C17",
    "technique": "Coq proofs over Q about an executable model of tutte.py / laplacian_op.py / base.py whose border "
                 "parameters, Euler gate, Laplacian coefficient pattern, partition selectors, right-hand-side sign and "
                 "scatter table are regenerated from the source on every run (fail-closed translator); scipy's solver is "
                 "a hypothesis (any solution); per-run kernel-checked correspondence: an exact rational solution of the "
                 "model's system is verified in Coq and compared with mouette's floats, triangle orientations are "
                 "decided exactly; independent Python oracle",
    "level_text": "PROVED for all inputs (unbounded, Coq): border placement - circle parameters i/n strictly increasing "
                  "in [0,1) and the circle curve injective there (over R); square (after fix 59a0edf) positions are the "
                  "square's perimeter curve at a strictly increasing parameter in [0,4) for EVERY border length n>=3, "
                  "hence pairwise distinct and in cyclic order; every solution of the partitioned system puts each "
                  "interior vertex at the weighted average of its neighbours (weights = minus the off-diagonal Laplacian "
                  "entries, all 1/2 per face edge for uniform weights); per-corner, per-vertex and flat-mesh outputs carry "
                  "the same coordinates; the gate rejects iff V-E+F<>1; convexity of the targets (circle border polygon "
                  "strictly convex, over R; square border polygon weakly convex for every n>=3, flat only along one side); "
                  "discrete maximum principle (positive weights - automatic for uniform weights -, every interior vertex "
                  "linked to the border: every interior vertex lies in every closed half-plane containing the border "
                  "positions, i.e. in their convex hull; the combinatorial premises are reflected from the boolean test "
                  "disk_links_b, which every checked case must pass). Round 7, unconditional forms: C17_max_principle_disk - "
                  "the same conclusion under Floater's own hypothesis (the TOTAL weight of every edge at an interior vertex is "
                  "positive; single cotangent contributions may be negative) with the premises 'every face vertex is listed' "
                  "and 'every interior vertex has an edge path to the border' instead of any boolean guard (uniform weights: "
                  "C17_max_principle_uniform_disk, no weight hypothesis); C17_strict_interior - an interior vertex lies "
                  "STRICTLY inside every supporting half-plane that a border vertex it reaches is strictly inside of; "
                  "C17_border_edge_triangles - w.r.t. every edge (b1,b2) of a convex counter-clockwise border polygon every "
                  "such interior vertex is strictly on the polygon's side, i.e. triangles standing on a border edge are "
                  "strictly positively oriented (first geometric step of Tutte/Floater). PARTIAL: the fold-free clause is Tutte/Floater's theorem, stated but NOT proved; "
                  "what each run establishes instead, on its generated disks only, is kernel-checked evidence: an exact "
                  "rational solution of the model's system is verified (C17_fold_free_checker_soundness_partial is ONLY the "
                  "soundness of this per-case checker: an accepted certificate IS a solution "
                  "and its triangles are strictly co-oriented), mouette's floats agree with it to 1e-9, and all triangles of "
                  "mouette's own output have one strict orientation (decided exactly) - evidence, not proof.",
    "level_note": "Trusted: Coq kernel + vm_compute; the tutte/laplacian/base translator; the correspondence harness "
                  "(generators, driver, exact float->rational conversion, Python's atan2 to relate a circle point to its "
                  "turn fraction); scipy spsolve enters only as 'returns a solution' (its output is checked each run); "
                  "cmath.rect(r,t) = (r cos t, r sin t); numpy fancy indexing / csc duplicate summation / sequential "
                  "element assignment are modelled by hand and tied by the correspondence; connectivity "
                  "(vertex_to_corners, border cycle, interior/boundary lists) is taken as observed and re-checked. "
                  "Deliberately left free: the exception class and message of a refusal (a refusal is legitimate iff "
                  "V-E+F<>1, decided from the input; for a disk any exception is a violation); whether argument forms the "
                  "text does not name are answered or refused (non-bool flags, numpy integer face indices, float32 custom "
                  "array, a pre-existing uv_coords attribute, an unknown mode name) - if answered the answer must satisfy "
                  "the property; the starting vertex and direction of the border walk and the orientation sign of the "
                  "embedding; the order of the interior index list; last-bit float differences (house tolerance "
                  "1e-9(1+|x|) everywhere, collinearity on the square decided with it); what run()/worker() return, log "
                  "lines, warnings, extra attributes left on the mesh, dtypes; side effects on the input mesh or on the "
                  "caller's array (recorded, judged only through their consequences on later embeddings); equal spacing "
                  "on the circle. NOT free (fixed by the documented API): custom row k belongs to mesh.boundary_vertices[k].",
}

EXACT_ORIENT_BITS = 1500

HEADER = """From Coq Require Import ZArith QArith List Bool Uint63.
Import ListNotations.
Require Import MV.Lib.Base MV.C17.Gen MV.C17.Model MV.C17.Run.
Open Scope Q_scope.
Open Scope Z_scope.
"""


def gen(ctx):
    return tr.gen()


# ---------------------------------------------------------------------- case generation
def gen_disk_case(rng, nb=None, mode=None, cotan=None, small=False):
    """small=True (quick tier): at most 8 interior vertices / 44 faces, so that certificates stay small"""
    nb = nb or rng.randint(3, 40)
    mode = mode or rng.choice(["circle", "square", "custom"])
    cotan = (rng.random() < 0.4) if cotan is None else cotan
    max_f, max_v, max_i, max_ic = (44 + nb, 60, 8, 5) if small else (72, 56, 26, 9)
    for _ in range(80):
        kind = None
        edits = None
        lift = rng.random() < 0.4
        if cotan:
            r = rng.random()
            if r < 0.55:
                kind, edits, lift = "delaunay", 0, rng.random() < 0.3
            elif r < 0.75:
                kind, edits = "fan", rng.choice([0, 0, 1, 2])
            edits = edits if edits is not None else rng.choice([0, 1, 2, 3, 5])
        if small:
            if kind is None:
                kind = rng.choice(["chords", "fan", "wheel", "chords", "fan", "grid", "delaunay"] if nb <= 16 else ["chords", "fan", "chords", "fan", "wheel"])
            if edits is None:
                edits = rng.choice([0, 1, 2, 3, 4])
        kind, pts, faces = G.make_disk(rng, nb, kind=kind, n_edits=edits, planar_valid=cotan)
        if len(faces) > max_f or len(pts) > max_v:
            continue
        verts, fs = G.finish(rng, pts, faces, lift=lift)
        if not O.is_disk(len(verts), fs):
            continue
        if cotan and not G.nondegenerate(verts, fs, eps=0.05):
            continue
        onb = set(G.border_cycle(fs)[0])
        if len(verts) - len(onb) > (max_ic if cotan else max_i):
            continue
        break
    else:
        raise RuntimeError("generator could not produce a disk (nb=%s)" % nb)
    case = {"verts": verts, "faces": fs, "mode": mode, "cotan": bool(cotan), "kind": kind, "disk": True,
            "call": gen_call_form(rng)}
    add_polygon(rng, case)
    return vary_geometry(rng, case)


def add_polygon(rng, case):
    cyc = G.border_cycle(case["faces"])[0]
    k0 = rng.randrange(len(cyc))
    cyc = cyc[k0:] + cyc[:k0]
    case["cycle"] = cyc
    case["poly"] = G.convex_polygon(rng, len(cyc))


MODES = ("circle", "square", "custom")


def gen_call_form(rng):
    """how the optional constructor arguments are written: positionally / by keyword / omitted when default /
    explicitly with their default None (custom_boundary, uv_attr)"""
    if rng.random() < 0.35:
        return None                      # the plain all-keyword call
    return {"mode": rng.choice(["pos", "kw", "omit"]), "cotan": rng.choice(["pos", "kw", "omit"]),
            "verbose": rng.choice(["pos", "kw", "omit"]), "corners": rng.choice(["kw", "omit"]),
            "cb": rng.choice(["omit", "none", "none"]), "uv_attr": rng.choice(["omit", "none"]),
            # representations: flags as bool / int 0,1 / numpy.bool_; face indices as int / numpy ints; custom array dtype
            "flags": rng.choice(["bool", "int", "np"]), "idx": rng.choice(["int", "np64", "np32"]),
            "cb_dtype": rng.choice(["f64", "f32"]),
            # run() / worker() / run() twice / run(), read flat_mesh, run() again
            "invoke": rng.choice(["run", "call", "twice", "flat-rerun"]),
            # every public attribute / property of the worker (flat_mesh, uvs, ...) read BEFORE run()
            "peek": rng.random() < 0.6}


def vary_geometry(rng, case):
    """geometry the result must not depend on: a power-of-two scale (exact), and - uniform weights are purely
    combinatorial - degenerate coordinates with valid connectivity (all vertices coincident / on a line / all zero)"""
    r = rng.random()
    V = case["verts"]
    if r < 0.12:
        k = rng.choice([-40, -23, 30, 66])
        case["verts"] = [[x * 2.0 ** k for x in p] for p in V]
        case["geometry"] = "scaled 2^%d" % k
    elif r < 0.24 and not case["cotan"] and "seq" not in case:
        kind = rng.choice(["all-zero", "coincident", "line"])
        case["verts"] = [[0.0, 0.0, 0.0] if kind == "all-zero" else [3.0, -1.5, 0.25] if kind == "coincident" else [p[0], 0.0, 0.0] for p in V]
        case["geometry"] = kind
    return case


def gen_sequence_case(rng, small=True):
    """several embeddings one after the other on ONE mesh object: cotangent then uniform, uniform then cotangent,
    attributes computed persistently beforehand, changing boundary modes.  Geometry with obtuse / thin triangles so
    that cotangent and uniform weights give visibly different embeddings."""
    nb = rng.randint(4, 14)
    for _ in range(80):
        kind, pts, faces = G.make_disk(rng, nb, kind=rng.choice(["fan", "wheel", "chords", "delaunay"]),
                                       n_edits=rng.choice([1, 2, 3, 4]), planar_valid=True)
        verts, fs = G.finish(rng, pts, faces, lift=rng.random() < 0.5)
        if not O.is_disk(len(verts), fs) or not G.nondegenerate(verts, fs, eps=0.05):
            continue
        ni = len(verts) - len(G.border_cycle(fs)[0])
        if 1 <= ni <= 5 and len(fs) <= 40:
            break
    else:
        raise RuntimeError("generator could not produce a sequence disk")
    case = {"verts": verts, "faces": fs, "mode": "circle", "cotan": False, "kind": "seq-" + kind, "disk": True}
    add_polygon(rng, case)
    pat = rng.choice(["cot-uni", "uni-cot-uni", "pre-cotangent", "pre-angles", "random", "random", "move-fresh", "move-uniform"])
    m = lambda: rng.choice(MODES)
    if pat == "cot-uni":
        seq = [{"mode": m(), "cotan": True}, {"mode": m(), "cotan": False}]
    elif pat == "uni-cot-uni":
        seq = [{"mode": m(), "cotan": False}, {"mode": m(), "cotan": True}, {"mode": m(), "cotan": False}]
    elif pat == "pre-cotangent":
        seq = [{"mode": m(), "cotan": False, "pre": "cotangent"}, {"mode": m(), "cotan": True}]
    elif pat == "pre-angles":
        seq = [{"mode": m(), "cotan": False, "pre": "angles"}, {"mode": m(), "cotan": True}, {"mode": m(), "cotan": False}]
    elif pat == "move-fresh":      # vertices move BEFORE any cotangent / angle attribute exists: nothing can be stale
        seq = [{"mode": m(), "cotan": False}, {"mode": m(), "cotan": True, "move": gen_move(rng, case)}]
    elif pat == "move-uniform":    # vertices move after a cotangent run, then UNIFORM weights are asked: geometry-free
        seq = [{"mode": m(), "cotan": True}, {"mode": m(), "cotan": False, "move": gen_move(rng, case)}]
    else:
        seq = [{"mode": m(), "cotan": rng.random() < 0.5,
                "pre": rng.choice([None, None, "cotangent", "angles", "uv_garbage", "bad-mode"])}
               for _ in range(rng.randint(2, 4))]
    for st in seq:
        st["call"] = gen_call_form(rng)
    case["seq"] = seq
    case["pattern"] = pat
    return case


def gen_move(rng, case):
    """move one interior vertex inside its star (all incident triangles keep their orientation and a decent area)"""
    V, F = case["verts"], case["faces"]
    onb = set(G.border_cycle(F)[0])
    inner = [v for v in range(len(V)) if v not in onb]
    rng.shuffle(inner)

    def cr(a, b, c):
        u = [b[i] - a[i] for i in range(3)]
        w = [c[i] - a[i] for i in range(3)]
        return [u[1] * w[2] - u[2] * w[1], u[2] * w[0] - u[0] * w[2], u[0] * w[1] - u[1] * w[0]]
    for v in inner:
        star = [f for f in F if v in f]
        nbv = sorted({x for f in star for x in f if x != v})
        for _ in range(8):
            j = rng.choice(nbv)
            t = rng.choice([0.3, 0.4, 0.5])
            new = [G.q64(V[v][i] * (1 - t) + V[j][i] * t) for i in range(3)]
            ok = True
            for f in star:
                old_n = cr(*[V[x] for x in f])
                new_n = cr(*[(new if x == v else V[x]) for x in f])
                if sum(a * b for a, b in zip(old_n, new_n)) <= 0.2 * sum(a * a for a in old_n) or math.sqrt(sum(a * a for a in new_n)) < 0.05:
                    ok = False
            if ok and new != V[v]:
                return [[v, new]]
    return []


def gen_non_disk(rng, n):
    """surfaces with V-E+F <> 1 (every kind in turn): closed ones, several components, and - the ones a sloppy gate lets
    through - surfaces WITH a border and chi < 1 (punctured torus: one border cycle; annulus: two), in every boundary
    mode incl. a custom array with one row per border vertex"""
    k, v, f = G.non_disk(rng, G.NON_DISK_KINDS[n % len(G.NON_DISK_KINDS)])
    case = {"verts": v, "faces": f, "mode": rng.choice(["circle", "square"]), "cotan": rng.random() < 0.3,
            "kind": k, "disk": False}
    cyc = [x for c in G.border_cycle(f) if c for x in c]
    if len(cyc) >= 3 and len(set(cyc)) == len(cyc):
        case["cycle"] = cyc
        case["poly"] = G.convex_polygon(rng, len(cyc))
        case["mode"] = "custom" if (n // len(G.NON_DISK_KINDS)) % 2 == 1 else MODES[n % 3]
    return case


def gen_cases(ctx):
    rng = ctx.rng
    quick = ctx.tier == "quick"
    cases = []
    if quick:
        # every border length 3..40, two of the three boundary modes each (rotating with the seed), small interiors
        rot = rng.randrange(3)
        for nb in range(3, 41):
            cases.append(gen_disk_case(rng, nb=nb, mode=MODES[(nb + rot) % 3], cotan=False, small=True))
            cases.append(gen_disk_case(rng, nb=nb, mode=MODES[(nb + rot + 1) % 3], cotan=(nb % 2 == 0), small=True))
        for _ in range(10):
            cases.append(gen_disk_case(rng, small=True))
        for _ in range(12):
            cases.append(gen_sequence_case(rng))
        for n in range(10):
            cases.append(gen_non_disk(rng, n))
        return cases
    for rd in range(18):
        for nb in range(3, 41):
            for mode in MODES:
                cases.append(gen_disk_case(rng, nb=nb, mode=mode, cotan=False))
            cases.append(gen_disk_case(rng, nb=nb, cotan=True))
        for _ in range(40):
            cases.append(gen_disk_case(rng))
        for _ in range(24):
            cases.append(gen_sequence_case(rng))
        for n in range(16):
            cases.append(gen_non_disk(rng, n))
    return cases


# ---------------------------------------------------------------------- exact arithmetic helpers
def zlit(n):
    """bare integer literal: the case files open Z_scope last (scope annotations on every literal parse slowly)"""
    return "(%d)" % n if n < 0 else "%d" % n


def zlist(xs):
    return coq_list([zlit(int(x)) for x in xs])


def zbig(n):
    """big integers as base-2^62 limbs of primitive integers (decimal Z literals parse quadratically in Coq)"""
    if abs(n) < 10 ** 9:
        return zlit(n)
    a, limbs = abs(n), []
    while a:
        limbs.append("%d%%uint63" % (a & ((1 << 62) - 1)))
        a >>= 62
    return "(zbig %s [%s])" % ("true" if n < 0 else "false", "; ".join(limbs))


def qlit(x):
    fr = Fr(x)
    return "(%s # %d)" % (("(%d)" % fr.numerator) if fr.numerator < 0 else "%d" % fr.numerator, fr.denominator)


def flit(x):
    """a binary64 as (fq sign mantissa exponent): exact, and cheap for Coq to parse"""
    x = float(x)
    if x != x or x in (float("inf"), float("-inf")):
        raise ValueError("non-finite output %r" % x)
    if x == 0:
        return "(fq false 0%uint63 0)"
    m, e = math.frexp(abs(x))
    mi = int(m * (1 << 53))
    e -= 53
    while mi % 2 == 0:
        mi //= 2
        e += 1
    assert mi * Fr(2) ** e == Fr(abs(x))
    return "(fq %s %d%%uint63 %s)" % ("true" if x < 0 else "false", mi, zlit(e))


def fpair(p):
    return "(%s, %s)" % (flit(p[0]), flit(p[1]))


def bareiss_solve(A, B):
    """fraction-free Gauss-Jordan on integers; returns X as Fractions (k x r) or None"""
    k = len(A)
    if k == 0:
        return []
    r = len(B[0])
    M = [list(A[i]) + list(B[i]) for i in range(k)]
    prev = 1
    for c in range(k):
        p = next((i for i in range(c, k) if M[i][c] != 0), None)
        if p is None:
            return None
        if p != c:
            M[c], M[p] = M[p], M[c]
        piv = M[c][c]
        rowc = M[c]
        for i in range(k):
            if i == c:
                continue
            f = M[i][c]
            ri = M[i]
            M[i] = [(piv * ri[j] - f * rowc[j]) // prev for j in range(k + r)]
        prev = piv
    return [[Fr(M[i][k + j], M[i][i]) for j in range(r)] for i in range(k)]


def lcm(a, b):
    return a // math.gcd(a, b) * b


def certificate(case, obs):
    """Exact rational solution of  L[free,free] X = - L[free,bnd] B  with the weights and border data the model uses.
    Returns dict(D, NU, NV, B, posw, weights) or None (singular)."""
    faces = case["faces"]
    free, bnd = obs["free"], obs["bnd"]
    n = len(bnd)
    uv = obs["uv_vertex"]
    if case["mode"] == "square":
        B = [(Fr(round(uv[v][0] * n), n), Fr(round(uv[v][1] * n), n)) for v in bnd]
    elif case["mode"] == "custom":
        B = [(Fr(r[0]), Fr(r[1])) for r in obs["custom_rows"]]
    else:
        B = [(Fr(uv[v][0]), Fr(uv[v][1])) for v in bnd]
    L = {}
    wedge = {}
    for t, (p, q, r) in enumerate(faces):
        if case["cotan"]:
            a, b, c = (Fr(obs["cot"][3 * t + k]) / 2 for k in range(3))
        else:
            a = b = c = Fr(1, 2)
        for (i, j, w) in ((p, q, c), (q, r, a), (r, p, b)):
            L[(i, i)] = L.get((i, i), 0) + w
            L[(j, j)] = L.get((j, j), 0) + w
            L[(i, j)] = L.get((i, j), 0) - w
            L[(j, i)] = L.get((j, i), 0) - w
            key = (min(i, j), max(i, j))
            wedge[key] = wedge.get(key, 0) + w
    fset = set(free)
    posw = all(w > Fr(1, 10 ** 9) for (i, j), w in wedge.items() if i in fset or j in fset)
    A = [[L.get((i, j), Fr(0)) for j in free] for i in free]
    R = [[-sum(L.get((i, v), Fr(0)) * B[k][c] for k, v in enumerate(bnd)) for c in (0, 1)] for i in free]
    Ai, Ri = [], []
    for ra, rr in zip(A, R):
        m = 1
        for x in ra + rr:
            m = lcm(m, Fr(x).denominator)
        Ai.append([int(x * m) for x in ra])
        Ri.append([int(x * m) for x in rr])
    X = bareiss_solve(Ai, Ri)
    if X is None:
        return None
    D = 1
    for row in X:
        for x in row:
            D = lcm(D, x.denominator)
    NU = [int(row[0] * D) for row in X]
    NV = [int(row[1] * D) for row in X]
    return {"D": D, "NU": NU, "NV": NV, "B": B, "posw": posw}


def canonical_border(case, obs):
    """The starting vertex and the direction of the border walk are free.  For circle / square the model numbers the
    border by increasing curve parameter, so the border list handed to the model is the set of border vertices sorted by
    the parameter of their OBSERVED position (for the pristine code this is extract_border_cycle's order)."""
    if case["mode"] == "custom" or not obs.get("bnd"):
        return
    uv = obs["uv_vertex"]

    def par(v):
        x, y = uv[v]
        if case["mode"] == "circle":
            return math.atan2(y, x) % (2 * math.pi) if abs(math.atan2(y, x)) > 1e-12 else 0.0
        e = 1e-9
        if abs(y) <= e and x < 1 - e:
            return x
        if abs(x - 1) <= e and y < 1 - e:
            return 1 + y
        if abs(y - 1) <= e and x > e:
            return 3 - x
        return 4 - y
    obs["bnd"] = sorted(obs["bnd"], key=par)


def turn_pairs(case, obs):
    if case["mode"] != "circle":
        return []
    out = []
    for v in obs["bnd"]:
        u, w = obs["uv_vertex"][v]
        out.append((math.atan2(w, u) / (2 * math.pi) % 1.0, math.atan2(u, w) / (2 * math.pi) % 1.0))
    return out


def case_term(case, obs, cert):
    faces = case["faces"]
    fz = coq_list(["(%s, %s, %s)" % (zlit(a), zlit(b), zlit(c)) for a, b, c in faces])
    mode = {"circle": "MCircle", "square": "MSquare", "custom": "MCustom"}[case["mode"]]
    rejected = obs["status"] == "rejected"
    if rejected or cert is None:
        return ("(mk_case %s %s %s [] %s [] %s %s [] [] [] [] [] [] [] 1 [] [] true false)"
                % (zlit(len(case["verts"])), fz, coq_bool(case["cotan"]), mode, coq_bool(rejected), zlit(obs["ne"])))
    cot = coq_list([flit(x) for x in obs.get("cot", [])]) if case["cotan"] else "[]"
    custom = coq_list([coq_list([flit(x) for x in r]) for r in obs.get("custom_rows", [])]) if case["mode"] == "custom" else "[]"
    pool, where = [], {}

    def ix(L):
        out = []
        for p in L:
            key = (float(p[0]).hex(), float(p[1]).hex())
            if key not in where:
                where[key] = len(pool)
                pool.append(p)
            out.append(where[key])
        return zlist(out)
    iV, iC = ix(obs["uv_vertex"]), ix(obs["uv_corner"])
    ifV, ifC = ix([p[:2] for p in obs["flat_vertex"]]), ix([p[:2] for p in obs["flat_corner"]])
    return ("(mk_case_p %s %s %s %s %s %s false %s %s %s %s %s %s %s %s %s %s %s %s %s %s)"
            % (zlit(len(case["verts"])), fz, coq_bool(case["cotan"]), cot, mode, custom, zlit(obs["ne"]),
               zlist(obs["free"]), zlist(obs["bnd"]), coq_list([fpair(p) for p in pool]), iV, iC, ifV, ifC,
               coq_list([fpair(p) for p in turn_pairs(case, obs)]), zbig(cert["D"]), coq_list([zbig(x) for x in cert["NU"]]), coq_list([zbig(x) for x in cert["NV"]]),
               coq_bool(cert["posw"]), coq_bool(cert["D"].bit_length() <= EXACT_ORIENT_BITS)))


def unit_term(case, term):
    """(keyword custom_boundary written by the caller?, written as None?, case)"""
    call = case.get("call") or {}
    present = case["mode"] == "custom" or call.get("cb") == "none"
    given_none = case["mode"] != "custom" and call.get("cb") == "none"
    return "(%s, %s, %s)" % (coq_bool(present), coq_bool(given_none), term)


# ---------------------------------------------------------------------- running the implementation
def run_impl_cases(cases, timeout=900):
    if not cases:
        return []
    nsh = max(1, min(core.NCPU // 2 if len(cases) < 600 else core.NCPU, len(cases) // 8))
    res = core.run_impl_parallel("vf.impl.c17_driver", [{"cases": cases[i::nsh]} for i in range(nsh)], timeout=timeout)
    obs = [None] * len(cases)
    for i, r in enumerate(res):
        for j, o in zip(range(i, len(cases), nsh), r["obs"]):
            obs[j] = o
    return obs


def strip(case):
    return {k: v for k, v in case.items() if not k.startswith("_")}


# ---------------------------------------------------------------------- shrinking (ear removal keeps a disk a disk)
def renumber(case, faces):
    used = sorted({v for f in faces for v in f})
    m = {v: i for i, v in enumerate(used)}
    c = dict(case)
    c["verts"] = [case["verts"][v] for v in used]
    c["faces"] = [[m[v] for v in f] for f in faces]
    if "cycle" in case:
        cyc = G.border_cycle(c["faces"])
        if len(cyc) != 1 or cyc[0] is None:
            return None
        c["cycle"] = cyc[0]
        import random
        n = len(cyc[0])
        c["poly"] = [[round(40 * math.cos(2 * math.pi * k / n) * 8) / 8.0, round(40 * math.sin(2 * math.pi * k / n) * 8) / 8.0] for k in range(n)]
        if len({tuple(p) for p in c["poly"]}) != n:
            return None
    return c


def shrink(case, key, budget=40):
    """remove faces one at a time while the case stays a disk and still fails the oracle with the same key"""
    cur = case
    tries = 0
    improved = True
    while improved and tries < budget:
        improved = False
        cands = []
        for i in range(len(cur["faces"])):
            fs = cur["faces"][:i] + cur["faces"][i + 1:]
            if len(fs) >= 1:
                c2 = renumber(cur, fs)
                if c2 is not None and O.is_disk(len(c2["verts"]), c2["faces"]):
                    cands.append(c2)
        # test candidates in batches through one driver call
        for s in range(0, len(cands), 16):
            if tries >= budget:
                break
            batch = cands[s:s + 16]
            tries += 1
            try:
                ob = core.run_impl("vf.impl.c17_driver", {"cases": [strip(c) for c in batch]}, timeout=300)["obs"]
            except Exception:
                break
            hit = None
            for c2, o in zip(batch, ob):
                if any(k == key for k, _ in O.oracle(c2, o)):
                    hit = c2
                    break
            if hit is not None:
                cur = hit
                improved = True
                break
    return cur


# ---------------------------------------------------------------------- the check
def describe(case):
    cyc = G.border_cycle(case["faces"])
    nb = len(cyc[0]) if case.get("disk") and cyc and cyc[0] else 0
    return nb, len(case["verts"]) - nb


def has_chord(case):
    cyc = G.border_cycle(case["faces"])[0]
    onb = set(cyc)
    bedges = {(min(a, b), max(a, b)) for a, b in zip(cyc, cyc[1:] + cyc[:1])}
    for f in case["faces"]:
        for k in range(3):
            a, b = f[k], f[(k + 1) % 3]
            if a in onb and b in onb and (min(a, b), max(a, b)) not in bedges:
                return True
    return False


def run(ctx):
    ctx.rule = ("triangulated disks of every border length 3..40 (chord-only polygons, fans, wheels, grids, Delaunay "
                "triangulations; random face / edge / border-edge splits and edge flips; random renumbering, face "
                "rotation, orientation reversal, 3D lift) x boundary circle/square/custom convex polygon x uniform / "
                "cotangent weights, both storages on every case; plus non-disks (sphere, annulus, torus, two components, "
                "isolated vertex); plus SEQUENCES of 2-4 embeddings on ONE mesh object (cotangent then uniform, uniform then cotangent, "
                "cotan/angles attributes computed persistently beforehand, changing boundary modes), every step judged against "
                "the weights it asked for; the optional constructor arguments are written positionally / by keyword / omitted / "
                "explicitly with their default None (custom_boundary, uv_attr) at random. Quick tier: interiors <= 8 vertices; thorough: up to 26. Non-trivial = an accepted disk with at least one interior vertex; distinct = by "
                "canonical JSON of (vertices, faces, mode, weights, polygon)")
    ctx.assumptions += [
        "scipy.sparse.linalg.spsolve is not modelled: the theorems quantify over every solution of the partitioned system; "
        "each run verifies in Coq an exact rational solution and compares mouette's floats with it (1e-9 relative)",
        "circle mode: cos/sin are not evaluated in Coq; Python's atan2 relates each observed border point to its turn "
        "fraction, which the kernel compares with the generated parameter i/n; the exact system then uses the observed "
        "border floats",
        "cotangent weights enter the model as the per-corner values mouette computed (attribute 'cotan'); the oracle "
        "recomputes them independently from the coordinates",
        "Tutte/Floater's fold-free theorem is NOT proved; the orientation of every triangle is decided exactly per case "
        "(evidence)"]
    ctx.regen(sys.modules[__name__])
    b = ctx.build_props(extra_targets=["theories/C17/Run.vo"])
    if not b["model_ok"]:
        # the tree is shared (one Makefile / dependency scan for all properties): a concurrent regeneration by another
        # check can make this step fail transiently; the model is only declared broken if it fails twice
        time.sleep(3)
        ok2, log2 = ctx.make(["theories/C17/Model.vo", "theories/C17/Run.vo"])
        ctx.log("model build retried: %s" % ("ok" if ok2 else "failed again\n" + core.tail(log2, 15)))
        b["model_ok"] = ok2
    ctx.hygiene(["Lib", "C17"])

    corpus = []
    cdir = os.path.join(core.ROOT, "corpus", "C17")
    if os.path.isdir(cdir):
        for f in sorted(os.listdir(cdir)):
            if f.endswith(".json"):
                corpus.append(json.load(open(os.path.join(cdir, f))))
    cases = corpus + gen_cases(ctx)
    ctx.log("%d cases (%d from the corpus, %d sequences on one mesh object); running mouette"
            % (len(cases), len(corpus), sum(1 for c in cases if "seq" in c)))
    obs = run_impl_cases([strip(c) for c in cases])
    ctx.log("implementation done; oracle + certificates")

    # one unit = one embedding request with what it returned; a sequence case gives one unit per step, each judged
    # against the weights / boundary mode that step ASKED for
    units = []
    for ci, (c, o) in enumerate(zip(cases, obs)):
        if "seq" in c:
            steps = o.get("steps", [])
            for k, (view, stale) in enumerate(seq_views(c)):
                ob = steps[k] if k < len(steps) else {"status": "error:no observation for this step"}
                view["_stale_cache"] = stale
                units.append((view, ob, ci, k))
        else:
            units.append((c, o, ci, None))

    fails = []
    terms, term_idx = [], []
    dropped = skipped_exact = 0
    for ui, (c, o, ci, step) in enumerate(units):
        fl = O.oracle(c, o)
        if step is not None and o.get("late") and o.get("status") == "ok":
            fl = fl + late_failures(c, o)
            ctx.count("sequence: an earlier embedding's result object changed when a later embedding ran")
        for key, msg in fl:
            if step is not None:
                key = seq_key(c, key)
                msg = "step %d of %s on one mesh object (%s, %s weights asked): %s" % (
                    step, json.dumps([[s_["mode"], "cotan" if s_["cotan"] else "uniform", s_.get("pre")] for s_ in cases[ci]["seq"]]),
                    c["mode"], "cotangent" if c["cotan"] else "uniform", msg)
            fails.append((ui, key, msg))
        st = o.get("status", "error")
        ctx.count("status " + st.split(":")[0])
        ctx.count("mode %s / %s" % (c["mode"], "cotan" if c["cotan"] else "uniform"))
        ctx.count("seed " + str(c.get("kind")))
        cf = c.get("call") or {}
        ctx.count("call: custom_boundary " + ("array" if c["mode"] == "custom" else "=None explicitly" if cf.get("cb") == "none" else "omitted"))
        ctx.count("call: boundary_mode %s, use_cotan %s, save_on_corners %s, uv_attr %s"
                  % (cf.get("mode", "kw"), cf.get("cotan", "kw"), cf.get("corners", "kw"), cf.get("uv_attr", "omit")))
        ctx.count("call: flags as %s, face indices as %s, invoked by %s%s" % (cf.get("flags", "bool"), cf.get("idx", "int"), cf.get("invoke", "run"), ", public attributes read before run()" if cf.get("peek") else ""))
        if c.get("geometry"):
            ctx.count("geometry: " + c["geometry"].split(" ")[0])
        if step is not None and cases[ci]["seq"][step].get("move"):
            ctx.count("sequence: vertices moved before this step" + (" (a cotan/angles cache existed)" if c.get("_stale_cache") else ""))
        if step is not None:
            ctx.count("sequence step %d%s" % (step, (" after persistent " + cases[ci]["seq"][step]["pre"]) if cases[ci]["seq"][step].get("pre") else ""))
            if step > 0:
                prev = cases[ci]["seq"][step - 1]
                ctx.count("sequence: %s asked after %s on the same mesh" % ("cotan" if c["cotan"] else "uniform", "cotan" if prev["cotan"] else "uniform"))
        nontrivial = False
        if c.get("disk") and st == "ok":
            nb, ni = describe(c)
            ctx.count("border length %02d-%02d" % (nb - (nb - 3) % 5 if nb >= 3 else 0, nb - (nb - 3) % 5 + 4))
            ctx.count("border length %% 4 = %d" % (nb % 4))
            ctx.count("interior vertices " + ("0" if ni == 0 else "1" if ni == 1 else "2-5" if ni <= 5 else "6-15" if ni <= 15 else "16+"))
            if has_chord(c):
                ctx.count("has an interior edge joining two border vertices")
            deg = {}
            for f in c["faces"]:
                for v in f:
                    deg[v] = deg.get(v, 0) + 1
            if max(deg.values()) >= 8:
                ctx.count("has a vertex of valence >= 8")
            ctx.count("fold-free promised: " + str(o.get("_guard")))
            nontrivial = ni >= 1
        ctx.case_seen([c["verts"], c["faces"], c["mode"], c["cotan"], c.get("poly") if c["mode"] == "custom" else None,
                       cases[ci].get("seq"), step], nontrivial=nontrivial,
                      sample={"mode": c["mode"], "cotan": c["cotan"], "n_vertices": len(c["verts"]), "faces": c["faces"][:6],
                              "status": st, "uv_vertex": (o.get("uv_vertex") or [])[:4]})
        if o.get("_input_changed"):
            ctx.count("input mesh vertices changed by the embedding (not constrained by the text; recorded only)")
        if o.get("_refused_unnamed_form"):
            ctx.count("refused an argument form the property does not name (accepted): " + str(o.get("exception"))[:60])
        elif st == "rejected":
            ctx.count("refusal raised " + str(o.get("exception")).split(":")[0])
            terms.append(unit_term(c, case_term(c, o, None)))
            term_idx.append(ui)
        elif st == "ok":
            canonical_border(c, o)
            try:
                cert = certificate(c, o)
            except Exception as ex:      # e.g. the implementation did not leave the cotangents it was asked to use
                ctx.count("DROPPED from the correspondence: no certificate (%s)" % type(ex).__name__)
                dropped += 1
                continue
            if cert is None:
                ctx.count("DROPPED from the correspondence: interior system singular (no certificate)")
                dropped += 1
                continue
            if cert["D"].bit_length() > EXACT_ORIENT_BITS:
                ctx.count("exact-solution orientation NOT evaluated (denominator > %d bits); float orientation still decided exactly" % EXACT_ORIENT_BITS)
                skipped_exact += 1
            else:
                ctx.count("exact-solution orientation evaluated (if promised)")
            terms.append(unit_term(c, case_term(c, o, cert)))
            term_idx.append(ui)
        else:
            dropped += 1      # driver error: also an oracle failure (key 'error'), reported below
    unknown = [f for f in fails if not ctx.known(f[1])]
    ctx.obligation("oracle: border placement, weighted-average residual, strict common orientation, outputs agree, gate - on every case",
                   "oracle-on-implementation", not unknown,
                   "%d failing observations, %d not covered by a listed known finding" % (len(fails), len(unknown)))
    ctx.extra["units"] = len(units)
    ctx.extra["dropped_from_correspondence"] = dropped
    ctx.extra["exact_orientation_skipped"] = skipped_exact
    ctx.obligation("harness coverage: at least one unit evaluated, at most 3% of the units dropped (no certificate / driver error), "
                   "at most 10% without exact-solution orientation",
                   "harness", len(units) > 0 and dropped * 100 <= 3 * len(units) and skipped_exact * 10 <= len(units),
                   "%d units, %d dropped, %d without exact-solution orientation" % (len(units), dropped, skipped_exact))

    bad = []
    if b["model_ok"]:
        ctx.log("correspondence: %d case terms" % len(terms))
        shard = max(4, min(400, -(-len(terms) // core.NCPU)))
        r = ctx.run_cases("tutte", HEADER, terms, "check_unit", case_type="(bool * bool * tcase)", shard=shard, timeout=900)
        bad = [term_idx[i] for i in (r or [])]
    else:
        ctx.obligation("correspondence batches", "correspondence", False, "model does not compile")

    # verdicts
    reported = set()
    fails.sort(key=lambda t: (units[t[0]][3] is None, len(units[t[0]][0]["faces"]), t[0]))   # sequences first, then small cases
    t_search = time.time()
    for ui, key, msg in fails:
        if key in reported:
            continue
        reported.add(key)
        view, ob, ci, step = units[ui]
        if ctx.known(key):
            ctx.report_known(key, ctx.known(key)["what"])
            continue
        if step is not None:
            small = cases[ci]
            if time.time() - t_search < 25:
                small = shrink_sequence(small, step, key)
            ctx.violation("Tutte embedding: " + msg, {"case": strip(small), "class": key}, key=key)
            continue
        small = view
        if view.get("disk") and key != "error":
            try:
                if time.time() - t_search < 25:
                    small = shrink(view, key, budget=8)
            except Exception as ex:  # shrinking is best effort
                ctx.log("shrink failed: %r" % ex)
        ob2 = core.run_impl("vf.impl.c17_driver", {"cases": [strip(small)]}, timeout=300)["obs"][0]
        fl = [m for k, m in O.oracle(small, ob2) if k == key]
        ctx.violation("Tutte embedding: " + (fl[0] if fl else msg), {"case": strip(small), "class": key}, key=key)
    if bad and not fails:
        ctx.notes.append("model and implementation disagree on units %s but the oracle accepts the implementation's outputs" % bad[:8])
        for i in bad[:3]:
            c, o, ci, step = units[i]
            ctx.log("disagreement on unit %d (case %d, step %s): mode=%s cotan=%s nv=%d nf=%d status=%s"
                    % (i, ci, step, c["mode"], c["cotan"], len(c["verts"]), len(c["faces"]), o.get("status")))


def late_failures(view, ob):
    """the result object of a finished embedding, read again after later embeddings of the same mesh: it must still be
    an embedding for ITS configuration (judged by the same oracle, not by comparison with the earlier reading)"""
    late = ob["late"]
    if "error" in late:
        return [("late-result", "the result of this embedding can no longer be read after a later embedding: " + late["error"])]
    ob2 = dict(ob, uv_vertex=late["uv_vertex"], uv_corner=late["uv_corner"])
    ob2.pop("late", None)
    return [("late-result", "read again after a later embedding of the same mesh, this embedding's result no longer satisfies the property: " + m)
            for k, m in O.oracle(view, ob2) if k not in ("outputs",)][:1] + \
           [("late-result", "read again after a later embedding of the same mesh: " + m) for k, m in O.oracle(view, ob2) if k == "outputs"][:1]


def seq_views(case):
    """per step: (the case as that step sees it - mode, weights, call form, vertices after the moves so far -,
    whether a persistent cotan/angles attribute computed BEFORE a later vertex move is still on the mesh)"""
    out = []
    verts = [list(p) for p in case["verts"]]
    cache = False          # a cotan / angles attribute exists on the mesh
    stale = False          # ... and vertices moved after it was computed
    for st in case["seq"]:
        if st.get("move"):
            verts = [list(p) for p in verts]
            for v, xyz in st["move"]:
                verts[int(v)] = [float(x) for x in xyz]
            if cache:
                stale = True
        if st.get("pre") in ("cotangent", "angles"):
            cache = True
        view = dict(case, mode=st["mode"], cotan=st["cotan"], call=st.get("call"), verts=verts, _pre=st.get("pre"))
        out.append((view, bool(stale and st["cotan"])))
        if st["cotan"]:
            cache = True
    return out


STALE_KEY = "seq/stale-cotan-cache-after-vertex-move"


def seq_key(view, key):
    """failure class of a sequence step.  Only the weighted-average / fold-free clauses of a COTANGENT step that runs
    after the caller moved vertices while a persistent cotan/angles attribute already existed are filed under the
    known finding; everything else keeps its own key."""
    if view.get("_stale_cache") and key in ("harmonic", "foldfree"):
        return STALE_KEY
    return "seq/" + key


def seq_failures(case, ob):
    """(step, key, message) for every failing step of a sequence case"""
    out = []
    steps = ob.get("steps", [])
    for k, (view, stale) in enumerate(seq_views(case)):
        view["_stale_cache"] = stale
        o = steps[k] if k < len(steps) else {"status": "error:no observation for this step"}
        fl = O.oracle(view, o)
        if o.get("late") and o.get("status") == "ok":
            fl = fl + late_failures(view, o)
        for key, msg in fl:
            out.append((k, seq_key(view, key), msg))
    return out


def shrink_sequence(case, step, key):
    """keep only the steps needed for the failure: try (culprit, failing) pairs and then the failing step alone"""
    seq = case["seq"]
    cands = [[seq[j], seq[step]] for j in range(step)] + [seq[:step + 1]]
    for cand in cands:
        c2 = dict(case, seq=cand)
        try:
            ob = core.run_impl("vf.impl.c17_driver", {"cases": [strip(c2)]}, timeout=300)["obs"][0]
        except Exception:
            continue
        if any(k == len(cand) - 1 and ky == key for k, ky, _ in seq_failures(c2, ob)):
            return c2
    return case


def replay(ctx, data):
    if "case" not in data:
        print("replay file names no concrete input:", json.dumps(data)[:400])
        return 1
    case = data["case"]
    ob = core.run_impl("vf.impl.c17_driver", {"cases": [strip(case)]}, timeout=300)["obs"][0]
    if "seq" in case:
        print("sequence on one mesh object:", json.dumps(case["seq"]))
        fl = [("step %d %s" % (k, ky), m) for k, ky, m in seq_failures(case, ob)]
        for k, st in enumerate(ob.get("steps", [])):
            print("step %d status: %s" % (k, st.get("status")), "uv per vertex:", json.dumps(st.get("uv_vertex")))
    else:
        fl = O.oracle(case, ob)
        print("status:", ob.get("status"))
        if ob.get("status") == "ok":
            print("border (as partitioned):", ob["bnd"])
            print("uv per vertex:", json.dumps(ob["uv_vertex"]))
    for k, m in fl:
        print("FAILS [%s]: %s" % (k, m))
    if not fl:
        print("passes")
    return 1 if fl else 0
