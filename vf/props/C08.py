"""C08 - discrete differential operators satisfy their defining identities."""
import json
import math
import os
import sys

import numpy as np

from .. import core
from ..core import zlit, coq_list, coq_bool
from ..translate import c08 as tr

META = {
    "property_id": "C08",
    "design_ref": "DESIGN.md section 5, C08 (Appendix B8)",
    "technique": "Coq proof over an arbitrary field / commutative ring (ring, field, induction over the element lists, a "
                 "bilinear-form argument for the sparse product N^T D N) and over R for the sqrt-bearing geometry, about an "
                 "executable model of the operator assembly whose (row, col, value) patterns, weights, index formulas, option "
                 "order and shapes are regenerated from the source by a fail-closed translator on every run + kernel-checked "
                 "correspondence batches (binary64 with tolerance for every operator and option, exact rationals where "
                 "sqrt-free) + independent numpy oracle",
    "level_text": "Machine-checked, unbounded Coq theorems about the model of operators/{laplacian_op,gradient_op,mass,"
                  "adjacency}.py and of the face bases of processing/connection.py (assembly patterns regenerated from the "
                  "source each run). FULL: the cotan/uniform vertex, edge, dual (N^T D N with the model's sparse products) and "
                  "volume Laplacians are symmetric with zero row sums for every element list and every weight; the tetrahedral "
                  "dual Laplacian has zero row sums always and is symmetric whenever cell_to_cell is symmetric (hypothesis "
                  "named; a C03 fact); for every list of non-degenerate triangles the cotan Laplacian equals the independently "
                  "assembled P1 stiffness matrix entrywise (any field; over R with the cotangent exactly as geometry.cotan "
                  "computes it); the gradient rows applied to an affine function give its tangential gradient in the face basis, "
                  "over R with geometry.face_basis as SurfaceConnectionFaces uses it (proved to be a direct orthonormal tangent "
                  "basis); real gradient = stacked complex one; mass matrices are diagonal, options act entrywise with sqrt "
                  "before inverse, vertex masses sum to 3 x area (4 x volume), face/cell masses to the area/volume, areas and "
                  "vertex masses are positive on non-degenerate meshes (R); graph Laplacian = degree - adjacency; adjacency and "
                  "vertex-edge / vertex-face operators have exactly the documented coefficient per incidence; Re(G* A G) = L "
                  "literally for the model's matrices (generic sparse products, any direct orthonormal tangent bases; over R "
                  "with the code's bases); row k of the assembled gradient matrix times the vertex values of an affine function "
                  "is its tangential gradient in face k; cell volumes, volume vertex masses and every inverse/sqrt option stay "
                  "positive (R). The two theorems that were conditional on model-level tests are now stated on the input lists alone: "
                  "the edge mass matrix sums to the total area on every oriented manifold surface with a consistent edge list "
                  "(surface_manifold_ok: no half-edge in two faces, stored edges pairwise distinct in both directions, every side "
                  "of every face stored; C08_mass_edges, positivity over R), the tetrahedral dual Laplacian is symmetric on every "
                  "conforming tetrahedral mesh (cells_conforming: four distinct vertices per cell, every triangular face in at most "
                  "one other cell; C08_sym_rowsum_tetra) - both predicates are evaluated by the kernel on every generated case. "
                  "RESTATEMENTS (pin the generated patterns, "
                  "count as tests): C08_incidence_patterns, C08_documented_weights_shapes, the option conjuncts of C08_mass, "
                  "C08_gradient_real_rows. ONLY TESTED (correspondence + oracle): FlatConnectionFaces bases, the values of the "
                  "edge / dual-cotan / volume Laplacian weights beyond symmetry and zero row sums (cotan_edge_diagonal values "
                  "are checked by the oracle), one stored coefficient per incidence (raw nnz reported by the driver), call "
                  "sequences on one mesh object (results, repeatability, before/after snapshot of the stored data).",
    "level_note": "Trusted: Coq kernel + vm_compute; the translator vf/translate/c08.py; the correspondence harness "
                  "(mesh generators, driver canonicalisation of scipy matrices = summed coefficients, tolerance 1e-9 on "
                  "binary64 runs from integer coordinates, 1e-12 against exact rationals); scipy's sparse constructors / products "
                  "(sum of duplicate coefficients, @) and lil assignment; mesh.edges and connectivity queries (C01-C03) are "
                  "re-derived from the face / cell list in the model and compared through the matrices; floating-point "
                  "round-off is outside the theorems (they are over fields). The connection-valued (complex transport) variants "
                  "of the Laplacians are outside C08's sentence and not modelled. Stdlib real-number axioms only for the "
                  "theorems stated over R. Deliberately left free (oracle, driver and kernel batches do not constrain them): the "
                  "sparse format, dtype and index types of the returned matrices, whether zero coefficients are stored; which "
                  "direct orthonormal tangent basis a connection picks; the VALUE of the uniform weight (only: one constant per "
                  "incidence; same for the uniform dual / edge / tetrahedral Laplacians), the clamp of a vanishing dual cotangent "
                  "weight, the values of the volume Laplacian beyond symmetry and zero row sums (the kernel batches "
                  "still compare them with the model: a change there is `unproved`, never a concrete violation); exception class "
                  "and message of any refusal; whether calls the text does not speak about are refused or answered (flags given "
                  "as int / numpy.bool_, numpy weight types, explicit scipy format names, meshes outside the quantifier: "
                  "degenerate geometry, vertices or stored edges of no face, sort_neighborhoods switched off; an answer, if "
                  "given, must satisfy the property); new attributes, warnings, log lines; equivalent recomputation of a cached "
                  "attribute (stored numeric data is compared with 1e-9 (1 + |x|)); last-bit differences (house tolerance "
                  "everywhere, also against exact rationals). Model conventions that differ from Python outside the property's quantifier: "
                  "vertex indices out of range read the origin (Python raises / wraps), and coefficients are SUMMED where "
                  "the code assigns into a lil matrix - the two agree for duplicate-free, loop-free edge lists and faces "
                  "with distinct vertices, which the kernel checks on every case (edges_ok); the translator refuses an "
                  "assignment where accumulation matters (volume Laplacian diagonal).",
}

HEADER = """From Coq Require Import ZArith List Bool.
Import ListNotations.
Require Import MV.C08.Ops MV.C08.Gen MV.C08.Model MV.C08.Run.
Open Scope Z_scope.
"""


def gen(ctx):
    return tr.gen()


# ====================================================================== generators (integer coordinates)
def nondegenerate_faces(V, F):
    for a, b, c in F:
        u = [V[b][k] - V[a][k] for k in range(3)]
        v = [V[c][k] - V[a][k] for k in range(3)]
        cr = (u[1] * v[2] - u[2] * v[1], u[2] * v[0] - u[0] * v[2], u[0] * v[1] - u[1] * v[0])
        if cr == (0, 0, 0):
            return False
    return True


def projection_embedded(V, F):
    """all faces have the same orientation in the xy-projection (no fold after jitter)"""
    sg = set()
    for a, b, c in F:
        d = (V[b][0] - V[a][0]) * (V[c][1] - V[a][1]) - (V[b][1] - V[a][1]) * (V[c][0] - V[a][0])
        sg.add(d > 0)
        if d == 0:
            return False
    return len(sg) == 1


def det3(a, b, c):
    return (a[0] * b[1] * c[2] + a[1] * b[2] * c[0] + a[2] * b[0] * c[1]
            - a[0] * b[2] * c[1] - a[1] * b[0] * c[2] - a[2] * b[1] * c[0])


def nondegenerate_cells(V, C):
    for a, b, c, d in C:
        r = [[V[x][k] - V[d][k] for k in range(3)] for x in (a, b, c)]
        if det3(*r) == 0:
            return False
    return True


def grid_surface(rng, nx, ny, planar, holes=False):
    """(nx x ny) cells lattice disk, each cell cut along a random diagonal, random heights unless planar."""
    V = []
    sc = rng.choice([1, 2, 3])
    for i in range(nx + 1):
        for j in range(ny + 1):
            V.append([sc * i, sc * j, 0 if planar else rng.randint(-2, 2)])
    if sc == 3 and rng.random() < 0.5:
        for p in V:  # in-plane jitter keeps the projection non-degenerate for sc = 3
            p[0] += rng.randint(-1, 1)
            p[1] += rng.randint(-1, 1)
    F = []
    idx = lambda i, j: i * (ny + 1) + j
    skip = set()
    if holes and nx >= 3 and ny >= 3:
        skip.add((rng.randint(1, nx - 2), rng.randint(1, ny - 2)))
    for i in range(nx):
        for j in range(ny):
            if (i, j) in skip:
                continue
            a, b, c, d = idx(i, j), idx(i + 1, j), idx(i + 1, j + 1), idx(i, j + 1)
            if rng.random() < 0.5:
                F += [(a, b, c), (a, c, d)]
            else:
                F += [(a, b, d), (b, c, d)]
    return V, F


def fan_surface(rng, k, closed):
    """k triangles around a centre; closed -> interior vertex, else a border vertex with k faces."""
    ring = [(4, 0), (3, 3), (0, 4), (-3, 3), (-4, 0), (-3, -3), (0, -4), (3, -3)]
    if closed:
        k = max(3, min(k, 8))
        sel = {3: [0, 3, 5], 4: [0, 2, 4, 6], 5: [0, 1, 3, 5, 6], 6: [0, 1, 3, 4, 5, 7], 7: [0, 1, 2, 3, 4, 5, 6],
               8: list(range(8))}[k]
        pts = [ring[i] for i in sel]
    else:
        k = max(1, min(k, 6))
        pts = ring[:k + 1]
    V = [[0, 0, rng.randint(0, 3)]] + [[x, y, rng.randint(-1, 1)] for x, y in pts]
    n = len(pts)
    F = []
    for i in range(n if closed else n - 1):
        F.append((0, 1 + i, 1 + (i + 1) % n))
    return V, F


def polyhedron(rng):
    kind = rng.choice(["tet", "octa", "cube", "bipyramid", "prism"])
    if kind == "tet":
        V = [[0, 0, 0], [3, 0, 0], [0, 3, 0], [0, 0, 3]]
        F = [(0, 2, 1), (0, 1, 3), (1, 2, 3), (0, 3, 2)]
    elif kind == "octa":
        V = [[2, 0, 0], [-2, 0, 0], [0, 2, 0], [0, -2, 0], [0, 0, 2], [0, 0, -2]]
        F = [(0, 2, 4), (2, 1, 4), (1, 3, 4), (3, 0, 4), (2, 0, 5), (1, 2, 5), (3, 1, 5), (0, 3, 5)]
    elif kind == "cube":
        V = [[x, y, z] for x in (0, 2) for y in (0, 2) for z in (0, 2)]
        Q = [(0, 1, 3, 2), (4, 6, 7, 5), (0, 4, 5, 1), (2, 3, 7, 6), (0, 2, 6, 4), (1, 5, 7, 3)]
        F = []
        for a, b, c, d in Q:
            if rng.random() < 0.5:
                F += [(a, b, c), (a, c, d)]
            else:
                F += [(a, b, d), (b, c, d)]
    elif kind == "bipyramid":
        k = rng.choice([3, 4, 5])
        ring = {3: [(3, 0), (-2, 3), (-2, -3)], 4: [(3, 0), (0, 3), (-3, 0), (0, -3)],
                5: [(4, 0), (1, 4), (-3, 2), (-3, -2), (1, -4)]}[k]
        V = [[x, y, 0] for x, y in ring] + [[0, 0, 3], [0, 0, -3]]
        F = []
        for i in range(k):
            j = (i + 1) % k
            F += [(i, j, k), (j, i, k + 1)]
    else:  # triangular prism, closed
        V = [[0, 0, 0], [3, 0, 0], [0, 3, 0], [0, 0, 2], [3, 0, 2], [0, 3, 2]]
        F = [(0, 2, 1), (3, 4, 5)]
        for a, b in ((0, 1), (1, 2), (2, 0)):
            F += [(a, b, b + 3), (a, b + 3, a + 3)]
    # jitter that keeps the surface embedded enough for non-degeneracy (checked by the caller)
    if rng.random() < 0.5:
        V = [[3 * x + rng.randint(-1, 1), 3 * y + rng.randint(-1, 1), 3 * z + rng.randint(-1, 1)] for x, y, z in V]
    return V, F


def torus_surface(rng):
    """genus 1: three triangular cross-sections around a triangle (9 vertices, 18 faces), lattice coordinates"""
    Cc = [(6, 0), (-3, 5), (-3, -5)]
    Oo = [(2, 0), (-1, 2), (-1, -2)]
    V = []
    for i in range(3):
        (cx, cy), (ox, oy) = Cc[i], Oo[i]
        V += [[cx + ox, cy + oy, 0], [cx, cy, 2], [cx - ox, cy - oy, 0]]
    F = []
    idx = lambda i, j: 3 * (i % 3) + (j % 3)
    for i in range(3):
        for j in range(3):
            a, b, c, d = idx(i, j), idx(i + 1, j), idx(i + 1, j + 1), idx(i, j + 1)
            if rng.random() < 0.5:
                F += [(a, b, c), (a, c, d)]
            else:
                F += [(a, b, d), (b, c, d)]
    if rng.random() < 0.5:
        V = [[3 * x + rng.randint(-1, 1), 3 * y + rng.randint(-1, 1), 3 * z + rng.randint(-1, 1)] for x, y, z in V]
    return V, F


def two_components(rng):
    V1, F1 = polyhedron(rng) if rng.random() < 0.5 else fan_surface(rng, rng.randint(3, 8), closed=True)
    V2, F2 = fan_surface(rng, rng.randint(1, 5), closed=False) if rng.random() < 0.6 else polyhedron(rng)
    off = len(V1)
    V = V1 + [[x + 40, y + 7, z - 3] for x, y, z in V2]
    F = list(F1) + [tuple(x + off for x in f) for f in F2]
    return V, F


def split_face(rng, V, F):
    """1 -> 3 split of a random face by a lattice point near its barycentre (scaled by 3 first so that it is one)."""
    V = [[3 * x, 3 * y, 3 * z] for x, y, z in V]
    t = rng.randrange(len(F))
    a, b, c = F[t]
    g = [(V[a][k] + V[b][k] + V[c][k]) // 3 for k in range(3)]
    V.append(g)
    n = len(V) - 1
    F = F[:t] + [(a, b, n), (b, c, n), (c, a, n)] + F[t + 1:]
    return V, F


def scramble_surface(rng, V, F, isolated=False):
    n = len(V)
    if isolated:
        V = V + [[rng.randint(-3, 3), rng.randint(-3, 3), rng.randint(5, 7)]]
        n += 1
    perm = list(range(n))
    if not isolated or rng.random() < 0.5:
        rng.shuffle(perm)
    V2 = [None] * n
    for i, p in enumerate(perm):
        V2[p] = V[i]
    flip = rng.random() < 0.3
    F2 = []
    for f in F:
        f = tuple(perm[x] for x in f)
        k = rng.randrange(3)
        f = f[k:] + f[:k]
        if flip:
            f = (f[0], f[2], f[1])
        F2.append(f)
    rng.shuffle(F2)
    return V2, F2


def gen_surface(rng, tier):
    for _ in range(50):
        r = rng.random()
        planar = False
        if r < 0.12:
            V, F = fan_surface(rng, rng.randint(1, 6), closed=False)
            shape = "fan-open"
        elif r < 0.24:
            V, F = fan_surface(rng, rng.randint(3, 8), closed=True)
            shape = "fan-closed"
        elif r < 0.36:
            V, F = polyhedron(rng)
            shape = "closed-polyhedron"
        elif r < 0.40:
            V, F = torus_surface(rng)
            shape = "torus-genus1"
        elif r < 0.45:
            V, F = two_components(rng)
            shape = "two-components"
        elif r < 0.72:
            planar = True
            big = tier != "quick" and rng.random() < 0.15
            V, F = grid_surface(rng, rng.randint(1, 5 if big else 3), rng.randint(1, 5 if big else 3), True, holes=rng.random() < 0.3)
            shape = "planar-grid"
        else:
            big = tier != "quick" and rng.random() < 0.15
            V, F = grid_surface(rng, rng.randint(1, 5 if big else 3), rng.randint(1, 4 if big else 3), False, holes=rng.random() < 0.3)
            shape = "height-field"
        if rng.random() < 0.25 and not planar:
            V, F = split_face(rng, V, F)
            shape += "+split"
        if planar and rng.random() < 0.3:
            V, F = split_face(rng, V, F)
            shape += "+split"
        r2 = rng.random()
        iso = r2 < 0.06
        free = 0.06 <= r2 < 0.11
        V, F = scramble_surface(rng, V, F, isolated=iso or free)
        if iso:
            shape += "+isolated-vertex"
        E = None
        if free:
            # explicit edge list: every face edge, plus one edge of no face towards the extra vertex (last, or anywhere)
            shape += "+explicit-edges+free-edge"
            es = sorted({(min(f[k], f[(k + 1) % 3]), max(f[k], f[(k + 1) % 3])) for f in F for k in range(3)})
            rng.shuffle(es)
            used = {x for f in F for x in f}
            w = [i for i in range(len(V)) if i not in used][0]
            fe = (min(w, F[0][0]), max(w, F[0][0]))
            if rng.random() < 0.7:
                es.append(fe)
            else:
                es.insert(rng.randrange(len(es) + 1), fe)
            E = [list(e) if rng.random() < 0.7 else [e[1], e[0]] for e in es]   # some given as (max, min)
        degenerate = rng.random() < 0.05
        if degenerate:     # valid combinatorics, degenerate geometry: coincident vertices / everything in one point / flat faces
            mode = rng.choice(["all-equal", "two-coincide", "collinear"])
            if mode == "all-equal":
                V = [[1, 2, 3] for _ in V]
            elif mode == "two-coincide":
                V[F[0][1]] = list(V[F[0][0]])
            else:
                V = [[i_, 0, 0] for i_ in range(len(V))]
            c = {"kind": "surface", "V": V, "F": [list(f) for f in F], "shape": shape + "+degenerate-" + mode, "planar": False,
                 "degenerate": True}
            if E is not None:
                c["E"] = E
            return c
        if nondegenerate_faces(V, F) and (not shape.startswith(("planar-grid", "height-field")) or projection_embedded(V, F)):
            planar = all(p[2] == V[0][2] for p in V) and all(p[2] == 0 for p in V)
            c = {"kind": "surface", "V": V, "F": [list(f) for f in F], "shape": shape, "planar": planar}
            if E is not None:
                c["E"] = E
            r3 = rng.random()
            if r3 < 0.06:
                c["scale"] = -20
            elif r3 < 0.12:
                c["scale"] = 24
            if rng.random() < 0.08:
                c["sort_neighborhoods"] = False
            return c
    raise RuntimeError("generator failed to produce a non-degenerate surface")


KUHN = [(0, 1, 3, 7), (0, 1, 5, 7), (0, 2, 3, 7), (0, 2, 6, 7), (0, 4, 5, 7), (0, 4, 6, 7)]
FIVE = [(0, 1, 2, 4), (1, 2, 3, 7), (1, 4, 5, 7), (2, 4, 6, 7), (1, 2, 4, 7)]


def gen_volume(rng, tier):
    for _ in range(50):
        r = rng.random()
        if r < 0.15:
            V = [[0, 0, 0], [3, 0, 0], [0, 3, 0], [0, 0, 3]]
            C = [(0, 1, 2, 3)]
            shape = "tet"
        elif r < 0.35:
            V = [[0, 0, 0], [3, 0, 0], [0, 3, 0], [0, 0, 3], [3, 3, 3]]
            C = [(0, 1, 2, 3), (1, 2, 3, 4)]
            shape = "two-tets"
        elif r < 0.75:
            nx = rng.choice([1, 1, 2]) if tier == "quick" else rng.choice([1, 2, 2])
            cubes = [(i, 0, 0) for i in range(nx)]
            vid = {}
            V = []

            def vert(x, y, z):
                if (x, y, z) not in vid:
                    vid[(x, y, z)] = len(V)
                    V.append([3 * x, 3 * y, 3 * z])
                return vid[(x, y, z)]
            C = []
            kuhn = rng.random() < 0.6 or nx > 1
            for (i, j, k) in cubes:
                cs = [vert(i + (b & 1), j + ((b >> 1) & 1), k + ((b >> 2) & 1)) for b in range(8)]
                for t in (KUHN if kuhn else FIVE):
                    C.append(tuple(cs[x] for x in t))
            shape = "%s-cube-x%d" % ("kuhn" if kuhn else "five", nx)
        else:
            V = [[0, 0, 0], [6, 0, 0], [0, 6, 0], [0, 0, 6], [1, 2, 1]]
            C = [(1, 2, 3, 4), (0, 2, 3, 4), (0, 1, 3, 4), (0, 1, 2, 4)]
            shape = "tet-1to4"
        if rng.random() < 0.6:
            V = [[x + rng.randint(-1, 1), y + rng.randint(-1, 1), z + rng.randint(-1, 1)] for x, y, z in V]
            shape += "+jitter"
        n = len(V)
        perm = list(range(n))
        rng.shuffle(perm)
        V2 = [None] * n
        for i, p in enumerate(perm):
            V2[p] = V[i]
        C2 = []
        for c in C:
            c = [perm[x] for x in c]
            rng.shuffle(c)
            C2.append(c)
        rng.shuffle(C2)
        if rng.random() < 0.05:
            V2 = [[1, 1, 1] for _ in V2] if rng.random() < 0.5 else [[i_, 0, 0] for i_ in range(len(V2))]
            return {"kind": "volume", "V": V2, "C": C2, "shape": shape + "+degenerate", "degenerate": True}
        if nondegenerate_cells(V2, C2):
            c = {"kind": "volume", "V": V2, "C": C2, "shape": shape}
            r3 = rng.random()
            if r3 < 0.06:
                c["scale"] = -20
            elif r3 < 0.12:
                c["scale"] = 24
            return c
    raise RuntimeError("generator failed to produce a non-degenerate tet mesh")


def gen_polyline(rng, tier):
    n = rng.randint(2, 9)
    kind = rng.choice(["path", "cycle", "star", "tree+"])
    E = []
    if kind == "path":
        E = [(i, i + 1) for i in range(n - 1)]
    elif kind == "cycle":
        n = max(n, 3)
        E = [(i, (i + 1) % n) for i in range(n)]
    elif kind == "star":
        E = [(0, i) for i in range(1, n)]
    else:
        E = [(rng.randrange(i), i) for i in range(1, n)]
        for _ in range(rng.randint(0, 3)):
            a, b = rng.randrange(n), rng.randrange(n)
            if a != b and (a, b) not in E and (b, a) not in E:
                E.append((a, b))
    pts = set()
    V = []
    while len(V) < n:
        p = (rng.randint(-4, 4), rng.randint(-4, 4), rng.randint(-2, 2))
        if p not in pts:
            pts.add(p)
            V.append(list(p))
    perm = list(range(n))
    rng.shuffle(perm)
    E = [tuple(perm[x] for x in (e if rng.random() < 0.5 else e[::-1])) for e in E]
    rng.shuffle(E)
    return {"kind": "polyline", "V": V, "E": [list(e) for e in E], "shape": kind}


SURF_OPS = ["lap:1", "lap:0", "glap", "ced:1", "ced:0", "laptri:1", "laptri:0", "lapedges:1", "lapedges:0",
            "gradc:conn", "gradr:conn", "gag:conn", "massv:0,0", "massv:1,0", "massv:0,1", "massv:1,1", "massf:0", "massf:1",
            "masse:0", "masse:1", "adj:one", "adj:length", "adj:custom", "v2e:0", "v2e:1", "v2f"]
FLAT_OPS = ["gradc:flat", "gradr:flat", "gag:flat"]
VOL_OPS = ["vollap", "tetlap", "massvv:0,0", "massvv:1,0", "massvv:0,1", "massvv:1,1", "massvc:0,0", "massvc:1,0",
           "massvc:0,1", "massvc:1,1", "glap", "adj:one", "adj:length", "adj:custom", "v2e:0", "v2e:1"]
LINE_OPS = ["glap", "adj:one", "adj:length", "adj:custom", "v2e:0", "v2e:1"]
# exact (integer / dyadic) operators: compared in Q with equality
Q_EXACT = {"lap:0", "glap", "laptri:0", "lapedges:0", "adj:one", "adj:custom", "v2e:0", "v2e:1", "tetlap"}
# sqrt-free on planar lattice surfaces (and cell volumes anywhere): compared in Q, tolerance only for the implementation's rounding
Q_CLOSE_PLANAR = {"lap:1", "ced:1", "ced:0", "laptri:1", "lapedges:1", "massv:0,0", "massv:1,0", "massf:0", "massf:1",
                  "masse:0", "masse:1", "v2f"}
Q_CLOSE_VOL = {"massvv:0,0", "massvv:1,0", "massvc:0,0", "massvc:1,0"}


COMBINATORIAL = {"lap:0", "glap", "laptri:0", "lapedges:0", "adj:one", "adj:custom", "v2e:0", "v2e:1", "v2f", "tetlap"}
SURF_PRE = ["face_area", "cotangent", "corner_angles", "face_normals", "vertex_normals", "edge_length"]
VOL_PRE = ["cell_volume", "edge_length", "face_area"]
LINE_PRE = ["edge_length"]


def finish_case(rng, c, sequence=None):
    """attach the operator calls: every operator on a fresh mesh, or (sequence) a random call sequence on one mesh object"""
    if c["kind"] == "surface":
        ops = list(SURF_OPS) + (FLAT_OPS if c.get("planar") else [])
        pre = SURF_PRE
        if c.get("E"):   # dangling edges: the connection / feature detector is outside C08 there
            ops = [o for o in ops if not o.startswith(("grad", "gag"))]
            pre = [a for a in pre if a != "vertex_normals"]
    elif c["kind"] == "volume":
        ops = list(VOL_OPS)
        pre = VOL_PRE
    else:
        ops = list(LINE_OPS)
        pre = LINE_PRE
    c["custom_w"] = [rng.randint(-8, 24) / 4.0 for _ in range(200)]
    if c.get("degenerate"):     # coincident vertices / flat faces: only the operators that never look at coordinates
        ops = [o for o in ops if o in COMBINATORIAL]
        pre = []
    if sequence is None:
        sequence = "seq" in c
    if sequence and "seq" not in c:
        n = rng.randint(6, 16)
        seq = [rng.choice(ops) for _ in range(n)]
        # an option variant followed by the plain operator again, and plain repeats: what a stale / clobbered cache would break
        fam = [o for o in ops if ":" in o and o.split(":")[0] in ("massv", "massf", "masse", "massvv", "massvc", "ced", "lap", "laptri", "lapedges")]
        if fam:
            o = rng.choice(fam)
            base = o.split(":")[0]
            sib = [x for x in ops if x.split(":")[0] == base]
            plain = sib[0]
            k = rng.randrange(len(seq) + 1)
            seq[k:k] = [plain, o, plain]
        for _ in range(rng.randint(1, 3)):
            seq.append(rng.choice(seq))
        # calls that must be refused, after which the mesh must be as before and later answers unchanged
        for bad_ in ("bad:weights", "bad:meshtype"):
            if rng.random() < 0.3:
                seq.insert(rng.randrange(1, len(seq) + 1), bad_)
        c["seq"] = seq
        c["pre"] = [a for a in pre if rng.random() < 0.35]
        rng.shuffle(c["pre"])
    c["ops"] = list(c["seq"]) if "seq" in c else ops
    # call form of every call: flags as bool / int / numpy.bool_, options by keyword / position / omitted at their default,
    # scipy format name for the mass matrices, value and key types of the custom weights
    if "forms" not in c or len(c["forms"]) != len(c["ops"]):
        c["forms"] = [rng.randrange(72) for _ in c["ops"]]
    return c


def outside_quantifier(case):
    """meshes / settings the property's quantifier does not cover (degenerate geometry, vertices or stored edges of no face,
    a library switch turned off): there a refusal is as acceptable as an answer that satisfies the property"""
    if case.get("degenerate") or case.get("sort_neighborhoods") is False:
        return True
    if case["kind"] == "surface":
        if case.get("E"):
            return True
        if len({x for f in case["F"] for x in f}) < len(case["V"]):
            return True
    return False


def tolerated(case, o):
    """a refusal the property text allows"""
    return o is not None and "error" in o and (o.get("free_form") or outside_quantifier(case))


def results_of(case, obs):
    """[(operator name, what the implementation returned)] in call order"""
    if "steps" in obs:
        return [(st["op"], st) for st in obs["steps"]]
    return [(nm, obs["outs"].get(nm)) for nm in case["ops"]]


# ====================================================================== Gallina encoders
def lit(x):
    if x == "inf":
        return "(1, 5000)"
    if x == "-inf":
        return "((-1), 5000)"
    if x == "nan":
        raise ValueError("nan")
    x = float(x)
    if x == 0:
        return "(0, 0)"
    m, e = math.frexp(x)
    mi = int(m * (1 << 53))
    e -= 53
    while mi % 2 == 0:
        mi //= 2
        e += 1
    return "(%s, %s)" % (("(%d)" % mi) if mi < 0 else str(mi), ("(%d)" % e) if e < 0 else str(e))


def b2(s):
    return " ".join(coq_bool(x == "1") for x in s.split(","))


def opc_term(name, case, nedges):
    base, _, arg = name.partition(":")
    if base == "lap":
        return "(OLap %s)" % b2(arg)
    if base == "glap":
        return "OGraphLap"
    if base == "ced":
        return "(OCed %s)" % b2(arg)
    if base == "laptri":
        return "(OLapTri %s)" % b2(arg)
    if base == "lapedges":
        return "(OLapEdges %s)" % b2(arg)
    if base == "gradr":
        return "(OGradReal %s)" % coq_bool(arg == "flat")
    if base == "gag":
        return "(OGag %s)" % coq_bool(arg == "flat")
    if base == "massv":
        return "(OMassV %s)" % b2(arg)
    if base == "massf":
        return "(OMassF %s)" % b2(arg)
    if base == "masse":
        return "(OMassE %s)" % b2(arg)
    if base == "adj":
        if arg == "one":
            return "OAdjOne"
        if arg == "length":
            return "OAdjLen"
        return "(OAdjCustom %s)" % coq_list([lit(w) for w in case["custom_w"][:nedges]])
    if base == "v2e":
        return "(OV2E %s)" % b2(arg)
    if base == "v2f":
        return "OV2F"
    if base == "vollap":
        return "OVolLap"
    if base == "tetlap":
        return "OTetLap"
    if base == "massvv":
        return "(OMassVV %s)" % b2(arg)
    if base == "massvc":
        return "(OMassVC %s)" % b2(arg)
    raise ValueError(name)


def zt(t):
    return "(" + ", ".join(zlit(int(x)) for x in t) + ")"


def out_terms(case, obs, keep, finite_only=False):
    """list of '(opc, shape, entries)' terms for the calls whose operator name satisfies `keep` (None if one cannot be encoded)."""
    res = []
    ne = len(obs["edges"])
    for nm, o in results_of(case, obs):
        if not keep(nm):
            continue
        if o is not None and ("raised" in o or tolerated(case, o)):
            continue      # a refused call returns no matrix
        if o is None or "error" in o:
            return None
        if finite_only and any(isinstance(x_, str) for e_ in o["ent"] for x_ in e_):
            continue   # 1/0 entries: exact rationals have no infinity, the binary64 batch compares them
        sh = zt(o["shape"])
        base, _, arg = nm.partition(":")
        try:
            if base == "gradc":
                fl = coq_bool(arg == "flat")
                res.append("(OGradRe %s, %s, %s)" % (fl, sh, coq_list(["(%s, %s, %s)" % (zlit(i), zlit(j), lit(re)) for i, j, re, im in o["ent"] if re != 0])))
                res.append("(OGradIm %s, %s, %s)" % (fl, sh, coq_list(["(%s, %s, %s)" % (zlit(i), zlit(j), lit(im)) for i, j, re, im in o["ent"] if im != 0])))
            else:
                if o.get("complex"):
                    return None
                res.append("(%s, %s, %s)" % (opc_term(nm, case, ne), sh, coq_list(["(%s, %s, %s)" % (zlit(i), zlit(j), lit(v)) for i, j, v in o["ent"]])))
        except ValueError:
            return None
    return res


def case_term(case, obs, keep=lambda nm: True):
    finite_only = not callable(keep)     # the two exact-rational batches pass a list of operator names
    if not callable(keep):
        names = set(keep)
        keep = lambda nm: nm in names
    outs = out_terms(case, obs, keep, finite_only)
    if outs is None:
        return None
    return "(mkcase %s %s %s %s %s %s)" % (
        coq_list([zt(p) for p in case["V"]]),
        zlit(int(case.get("scale", 0))),
        coq_list([zt(f) for f in case.get("F", [])]),
        coq_list([zt(c) for c in case.get("C", [])]),
        coq_list([zt(e) for e in obs["edges"]]),
        coq_list(outs))


# ====================================================================== independent oracle (numpy, textbook definitions)
TOL = 1e-8


def dense(o, cplx=False):
    A = np.zeros(o["shape"], dtype=complex if cplx else float)
    for t in o["ent"]:
        if cplx:
            A[t[0], t[1]] = complex(fv(t[2]), fv(t[3]))
        else:
            A[t[0], t[1]] = fv(t[2])
    return A


def fv(x):
    return float(x) if not isinstance(x, str) else float(x)


def close(A, B, tol=TOL):
    A, B = np.asarray(A), np.asarray(B)
    if A.shape != B.shape:
        return False
    if A.size == 0:
        return True
    with np.errstate(all="ignore"):
        d = np.abs(A - B)
        same_inf = np.isinf(A) & np.isinf(B) & (np.sign(A.real) == np.sign(B.real))
        ok = (d <= tol * (1 + np.abs(B))) | same_inf
    return bool(np.all(ok))


def indep_edges(case):
    s = set()
    if case["kind"] == "surface":
        for f in case["F"]:
            for k in range(3):
                a, b = f[k], f[(k + 1) % 3]
                s.add((min(a, b), max(a, b)))
        for a, b in case.get("E") or []:
            s.add((min(a, b), max(a, b)))
    elif case["kind"] == "volume":
        for c in case["C"]:
            for i in range(4):
                for j in range(i + 1, 4):
                    s.add((min(c[i], c[j]), max(c[i], c[j])))
    else:
        for a, b in case["E"]:
            s.add((min(a, b), max(a, b)))
    return s


def same_result(a, b):
    if ("error" in a) != ("error" in b):
        return False
    if "error" in a:
        return True
    if a["shape"] != b["shape"] or bool(a.get("complex")) != bool(b.get("complex")):
        return False
    return close(dense(a, a.get("complex")), dense(b, b.get("complex")), 1e-9)


def oracle(case, obs):
    """C08 on what the implementation returned. For a call sequence on one mesh object: the identities must hold for the
    first and for the last answer of every operator, a repeated call must return the same matrix, and no call may change
    anything already stored on the mesh (vertices, elements, attributes)."""
    if "steps" not in obs:
        return oracle_outs(case, obs)
    if "error" in obs:
        return [("build", "mesh construction failed: " + obs["error"])]
    bad = []
    for nm, st in obs.get("pre", []):
        if st != "ok":
            bad.append(("seq/pre-error", "attributes.%s raised %s" % (nm, st)))
    first, last = {}, {}
    for k, st in enumerate(obs["steps"]):
        nm = st["op"]
        if nm.startswith("bad:"):
            if st.get("mutated"):
                bad.append(("seq/mutates-mesh", "the refused call %d (%s) changed data stored on the mesh: %s" % (k, nm, ", ".join(st["mutated"]))))
            continue
        if st.get("mutated"):
            bad.append(("seq/mutates-mesh", "call %d (%s) changed data already stored on the mesh: %s" % (k, nm, ", ".join(st["mutated"]))))
        if "error" in st and tolerated(case, st):
            continue
        if nm in first and not nm.startswith("grad") and not same_result(first[nm], st):
            bad.append(("seq/changed-on-repeat", "call %d (%s) returns a different matrix than the first call of %s on the same mesh" % (k, nm, nm)))
        first.setdefault(nm, st)
        last[nm] = st
    seen = set()
    for outs in (first, last):
        o2 = dict(obs)
        o2["outs"] = outs
        for key, msg in oracle_outs(case, o2):
            if (key, msg) not in seen:
                seen.add((key, msg))
                bad.append((key, msg))
    return bad


def oracle_outs(case, obs):
    with np.errstate(all="ignore"):
        return oracle_outs_(case, obs)


def oracle_outs_(case, obs):
    """Returns a list of (class-key, message) for every clause of C08 the observed matrices violate."""
    bad = []
    if "error" in obs:
        return [("build", "mesh construction failed: " + obs["error"])]
    outs = obs["outs"]
    V = np.array(case["V"], dtype=float) * 2.0 ** int(case.get("scale", 0))
    n = len(V)
    E = [tuple(e) for e in obs["edges"]]
    m = len(E)

    def get(name, shape=None, cplx=False):
        o = outs.get(name)
        if o is None:
            return None
        if "error" in o:
            if not tolerated(case, o):
                bad.append((name + "/error", "%s raised %s" % (name, o["error"])))
            return None
        if any(x_ == "nan" for e_ in o["ent"] for x_ in e_):
            bad.append((name + "/nan", "%s has NaN entries" % name))
            return None
        if shape is not None and tuple(o["shape"]) != tuple(shape):
            bad.append((name + "/shape", "%s has shape %s, expected %s (|V|=%d, |E|=%d)" % (name, tuple(o["shape"]), tuple(shape), n, m)))
            return None
        return dense(o, cplx)

    def sym_rowsum(name, A):
        if A is None:
            return
        scale = 1 + (float(np.max(np.abs(A[np.isfinite(A)]))) if A.size and np.any(np.isfinite(A)) else 0.0)
        if not close(A / scale, A.T / scale):
            bad.append((name + "/symmetric", "%s is not symmetric" % name))
        if not close(A.sum(axis=1) / scale, np.zeros(A.shape[0])):
            bad.append((name + "/rowsum", "%s has a non-zero row sum %s" % (name, A.sum(axis=1).tolist())))

    # ---- edges of the mesh are exactly the element edges, each once
    keys = [(min(a, b), max(a, b)) for a, b in E]
    ie = indep_edges(case)
    if len(set(keys)) != len(keys) or set(keys) != ie:
        bad.append(("edges", "mesh.edges %s is not the edge set of the elements" % (E,)))
        return bad
    eid = {k: i for i, k in enumerate(keys)}

    def single(name):
        o = outs.get(name)
        if o is not None and "error" not in o and o.get("dups"):
            bad.append((name + "/duplicates", "%s stores %d coefficients on positions that already carry one (more than one entry per incidence)"
                        % (name, o["dups"])))

    # exactly one stored coefficient per incidence (whether zero weights are stored or dropped is free)
    for nm in ("adj:one", "adj:length", "adj:custom", "v2e:0", "v2e:1", "v2f"):
        single(nm)
    # ---- graph laplacian / adjacency / vertex-edge incidence  (all mesh kinds)
    A1 = get("adj:one", (n, n))
    if A1 is not None:
        W = np.zeros((n, n))
        for a, b in ie:
            W[a, b] = W[b, a] = 1
        if not close(A1, W):
            bad.append(("adj:one/value", "adjacency_matrix('one') is not the 0/1 edge indicator"))
    GL = get("glap", (n, n))
    if GL is not None and A1 is not None:
        deg = np.zeros(n)
        for a, b in ie:
            deg[a] += 1
            deg[b] += 1
        if not close(GL, np.diag(deg) - A1):
            bad.append(("glap/degree-adjacency", "graph_laplacian != degree - adjacency"))
    AL = get("adj:length", (n, n))
    if AL is not None:
        W = np.zeros((n, n))
        for a, b in ie:
            W[a, b] = W[b, a] = math.sqrt(sum((V[a][k] - V[b][k]) ** 2 for k in range(3)))
        if not close(AL, W):
            bad.append(("adj:length/value", "adjacency_matrix('length') entries are not the edge lengths"))
    AC = get("adj:custom", (n, n))
    if AC is not None:
        W = np.zeros((n, n))
        for e, (a, b) in enumerate(E):
            W[a, b] = W[b, a] = case["custom_w"][e]
        if not close(AC, W):
            bad.append(("adj:custom/value", "adjacency_matrix(dict) does not put weights[e] on edge e"))
    for ori in ("0", "1"):
        M = get("v2e:" + ori, (n, m))
        if M is not None:
            W = np.zeros((n, m))
            for e, (a, b) in enumerate(E):
                W[a, e] = -1 if ori == "1" else 1
                W[b, e] = 1
            if not close(M, W):
                bad.append(("v2e/value", "vertex_to_edge_operator(oriented=%s): not one entry per incidence with sign -1 origin / +1 arrival" % ori))

    if case["kind"] == "surface":
        F = [tuple(f) for f in case["F"]]
        nf = len(F)
        # independent geometry
        area = np.zeros(nf)
        normal = np.zeros((nf, 3))
        K = np.zeros((n, n))
        for t, (a, b, c) in enumerate(F):
            nn = np.cross(V[b] - V[a], V[c] - V[a])
            area[t] = np.linalg.norm(nn) / 2
            normal[t] = nn / np.linalg.norm(nn)
            g = {}
            for (i, j, k) in ((a, b, c), (b, c, a), (c, a, b)):
                g[i] = np.cross(normal[t], V[k] - V[j]) / (2 * area[t])   # gradient of the hat function of i
            for i in (a, b, c):
                for j in (a, b, c):
                    K[i, j] += area[t] * float(np.dot(g[i], g[j]))
        L = get("lap:1", (n, n))
        sym_rowsum("lap:1", L)
        if L is not None and not close(L, K):
            bad.append(("lap:1/stiffness", "cotan laplacian differs from the independently assembled P1 stiffness matrix"))
        L0 = get("lap:0", (n, n))
        sym_rowsum("lap:0", L0)
        # the uniform option: ONE weight for every (triangle, edge) pair, whatever the geometry; its value is not fixed
        if L0 is not None:
            W = np.zeros((n, n))
            for (a, b, c) in F:
                for i, j in ((a, b), (b, c), (c, a)):
                    W[i, j] -= 1
                    W[j, i] -= 1
                    W[i, i] += 1
                    W[j, j] += 1
            nz = np.argwhere(W != 0)
            if len(nz):
                cst = L0[tuple(nz[0])] / W[tuple(nz[0])]
                if not (np.isfinite(cst) and cst != 0 and close(L0, cst * W)):
                    bad.append(("lap:0/uniform", "laplacian(cotan=False) is not one constant weight per (triangle, edge) incidence"))
        for nm in ("laptri:1", "laptri:0", "lapedges:1", "lapedges:0"):
            sym_rowsum(nm, get(nm, (nf, nf) if nm.startswith("laptri") else (m, m)))
        # defining identities of the cotangent-weighted operators (their entries ARE defined; the uniform variants only up to
        # one constant factor; the clamp of a vanishing dual weight is left free: such edges are skipped)
        cotsum = np.zeros(m)
        he = {}
        for t, (a, b, c) in enumerate(F):
            for (i, j, k) in ((a, b, c), (b, c, a), (c, a, b)):      # edge (i, j), opposite vertex k
                u, w = V[i] - V[k], V[j] - V[k]
                cotsum[eid[(min(i, j), max(i, j))]] += np.float64(np.dot(u, w)) / np.float64(np.linalg.norm(np.cross(u, w)))
                he[(i, j)] = t
        safe = np.abs(cotsum) > 1e-6
        C0 = get("ced:0", (m, m))
        if C0 is not None and not close(C0, np.diag(cotsum)):
            bad.append(("ced:0/value", "cotan_edge_diagonal(inverse=False) is not the sum of the cotangents opposite to each edge"))
        C1 = get("ced:1", (m, m))
        if C1 is not None:
            d1 = np.diag(C1)
            if not close(C1, np.diag(d1)) or not close(d1[safe], 1 / cotsum[safe]):
                bad.append(("ced:1/value", "cotan_edge_diagonal(inverse=True) is not the diagonal of 1 / (sum of the opposite cotangents)"))
        dual = [(t, he[(b_, a_)], eid[(min(a_, b_), max(a_, b_))]) for (a_, b_), t in he.items() if (b_, a_) in he and a_ < b_]
        Wd = np.zeros((nf, nf))
        for t, s_, e_ in dual:
            for (x_, y_, v_) in ((t, t, 1), (s_, s_, 1), (t, s_, -1), (s_, t, -1)):
                Wd[x_, y_] += v_
        LT0 = get("laptri:0", (nf, nf))
        if LT0 is not None and len(dual):
            t, s_, _ = dual[0]
            cst = LT0[t, s_] / Wd[t, s_]
            if not (np.isfinite(cst) and cst != 0 and close(LT0, cst * Wd)):
                bad.append(("laptri:0/uniform", "laplacian_triangles(cotan=False) is not a constant multiple of degree - adjacency of the dual graph"))
        LT1 = get("laptri:1", (nf, nf))
        if LT1 is not None and all(safe[e_] for _, _, e_ in dual):
            Wc = np.zeros((nf, nf))
            for t, s_, e_ in dual:
                for (x_, y_, v_) in ((t, t, 1), (s_, s_, 1), (t, s_, -1), (s_, t, -1)):
                    Wc[x_, y_] += v_ / cotsum[e_]
            if not close(LT1, Wc):
                bad.append(("laptri:1/value", "laplacian_triangles(cotan=True) is not the dual-graph Laplacian with weights 1 / (cot a + cot b)"))
        LE1 = get("lapedges:1", (m, m))
        if LE1 is not None:
            We = np.zeros((m, m))
            for (a, b, c) in F:
                for (pv, cu, nx) in ((c, a, b), (a, b, c), (b, c, a)):     # corner at cu between the edges (pv,cu) and (cu,nx)
                    u, w = V[pv] - V[cu], V[nx] - V[cu]
                    ct = np.float64(np.dot(u, w)) / np.float64(np.linalg.norm(np.cross(u, w)))
                    e1, e2 = eid[(min(pv, cu), max(pv, cu))], eid[(min(cu, nx), max(cu, nx))]
                    We[e1, e2] -= 2 * ct
                    We[e2, e1] -= 2 * ct
                    We[e1, e1] += 2 * ct
                    We[e2, e2] += 2 * ct
            if not close(LE1, We):
                bad.append(("lapedges:1/value", "laplacian_edges(cotan=True) is not the edge (Crouzeix-Raviart) stiffness matrix -2 cot per corner"))
        LE0 = get("lapedges:0", (m, m))
        if LE0 is not None:
            We = np.zeros((m, m))
            for (a, b, c) in F:
                for (pv, cu, nx) in ((c, a, b), (a, b, c), (b, c, a)):
                    e1, e2 = eid[(min(pv, cu), max(pv, cu))], eid[(min(cu, nx), max(cu, nx))]
                    We[e1, e2] -= 1
                    We[e2, e1] -= 1
                    We[e1, e1] += 1
                    We[e2, e2] += 1
            nz = np.argwhere(We != 0)
            if len(nz):
                cst = LE0[tuple(nz[0])] / We[tuple(nz[0])]
                if not (np.isfinite(cst) and cst != 0 and close(LE0, cst * We)):
                    bad.append(("lapedges:0/uniform", "laplacian_edges(cotan=False) is not one constant weight per corner"))
        # gradient
        for conn in ("conn", "flat"):
            o = outs.get("gradc:" + conn)
            G = get("gradc:" + conn, (nf, n), cplx=True)
            Gr = get("gradr:" + conn, (2 * nf, n))
            if G is not None and o is not None and "bases" in o:
                B = np.array(o["bases"], dtype=float)
                okb = True
                for t in range(nf):
                    X, Y = B[t][0], B[t][1]
                    if not (abs(X @ X - 1) < 1e-9 and abs(Y @ Y - 1) < 1e-9 and abs(X @ Y) < 1e-9
                            and abs(X @ normal[t]) < 1e-9 and abs(Y @ normal[t]) < 1e-9 and np.cross(X, Y) @ normal[t] > 0):
                        okb = False
                if not okb:
                    bad.append(("grad:%s/basis" % conn, "a face basis of the connection is not a direct orthonormal tangent basis"))
                else:
                    for trial in range(2):
                        a = np.array([3.0, -2.0, 5.0]) if trial == 0 else np.array([-1.0, 4.0, 2.0])
                        b0 = 7.0 - 3 * trial
                        f = V @ a + b0
                        gf = G @ f
                        for t in range(nf):
                            want = a - (a @ normal[t]) * normal[t]
                            got = gf[t].real * B[t][0] + gf[t].imag * B[t][1]
                            if not close(got, want):
                                bad.append(("gradc:%s/affine" % conn, "gradient of the affine function <%s,x>+%s in face %d is %s, tangential part is %s" % (a.tolist(), b0, t, got.tolist(), want.tolist())))
                                break
                        if Gr is not None:
                            gr = Gr @ f
                            for t in range(nf):
                                want = a - (a @ normal[t]) * normal[t]
                                got = gr[2 * t] * B[t][0] + gr[2 * t + 1] * B[t][1]
                                if not close(got, want):
                                    bad.append(("gradr:%s/affine" % conn, "real gradient of an affine function in face %d is %s, tangential part is %s" % (t, got.tolist(), want.tolist())))
                                    break
                    if L is not None:
                        R = (G.conj().T @ np.diag(area) @ G).real
                        if not close(R, L):
                            bad.append(("gradc:%s/GAG" % conn, "Re(G* A G) differs from the cotan laplacian"))
                        if Gr is not None:
                            R2 = Gr.T @ np.diag(np.repeat(area, 2)) @ Gr
                            if not close(R2, L):
                                bad.append(("gradr:%s/GAG" % conn, "G^T A G (real gradient) differs from the cotan laplacian"))
            GA = get("gag:" + conn, (n, n))
            if GA is not None and L is not None and not close(GA, L):
                bad.append(("gag:%s/value" % conn, "Re(G* A G) computed with scipy's products on one mesh differs from the cotan laplacian"))
        # masses
        used = np.zeros(n, dtype=bool)
        for f in F:
            used[list(f)] = True
        tot = float(area.sum())
        Mv = get("massv:0,0", (n, n))
        if Mv is not None:
            d = np.diag(Mv)
            if not close(Mv, np.diag(d)):
                bad.append(("massv/diagonal", "area_weight_matrix is not diagonal"))
            if np.any(d[used] <= 0):
                bad.append(("massv/positive", "area_weight_matrix has a non-positive entry on a vertex of a face"))
            if not close(d.sum(), 3 * tot):
                bad.append(("massv/total", "area_weight_matrix sums to %r, 3 x total area is %r" % (d.sum(), 3 * tot)))
            with np.errstate(all="ignore"):
                for nm, fn in (("massv:1,0", lambda x: 1 / x), ("massv:0,1", np.sqrt), ("massv:1,1", lambda x: 1 / np.sqrt(x))):
                    Mo = get(nm, (n, n))
                    if Mo is not None and not close(Mo, np.diag(fn(d))):
                        bad.append((nm + "/entrywise", "%s is not the entrywise transform of the mass matrix" % nm))
                    if Mo is not None and np.any(~(np.diag(Mo)[used] > 0)):
                        bad.append((nm + "/positive", "%s has a non-positive entry on a vertex of a face" % nm))
        Mf = get("massf:0", (nf, nf))
        if Mf is not None:
            df = np.diag(Mf)
            if not close(Mf, np.diag(df)):
                bad.append(("massf/diagonal", "area_weight_matrix_faces is not diagonal"))
            if not close(df.sum(), tot):
                bad.append(("massf/total", "area_weight_matrix_faces sums to %r, total area is %r" % (df.sum(), tot)))
            if np.any(~(df > 0)):
                bad.append(("massf/positive", "area_weight_matrix_faces has a non-positive entry"))
            Mi = get("massf:1", (nf, nf))
            if Mi is not None and not close(Mi, np.diag(1 / df)):
                bad.append(("massf:1/entrywise", "area_weight_matrix_faces(inverse) is not the entrywise inverse"))
        Me = get("masse:0", (m, m))
        if Me is not None:
            d = np.diag(Me)
            if not close(Me, np.diag(d)):
                bad.append(("masse/diagonal", "area_weight_matrix_edges is not diagonal"))
            faced = np.array([any(a in f and b in f for f in F) for a, b in E], dtype=bool)
            if np.any(d[faced] <= 0):
                bad.append(("masse/positive", "area_weight_matrix_edges has a non-positive entry on an edge of a face"))
            if not close(d.sum(), tot):
                bad.append(("masse/total", "area_weight_matrix_edges sums to %r, total area is %r" % (d.sum(), tot)))
            Mi = get("masse:1", (m, m))
            with np.errstate(all="ignore"):
                if Mi is not None and not close(Mi, np.diag(1 / d)):
                    bad.append(("masse:1/entrywise", "area_weight_matrix_edges(inverse) is not the entrywise inverse"))
        VF = get("v2f", (nf, n))
        if VF is not None:
            W = np.zeros((nf, n))
            for t, f in enumerate(F):
                for v in f:
                    W[t, v] = 1 / 3
            if not close(VF, W):
                bad.append(("v2f/value", "vertex_to_face_operator: not one entry 1/3 per (face, vertex) incidence"))
    if case["kind"] == "volume":
        C = [tuple(c) for c in case["C"]]
        nc = len(C)
        sym_rowsum("vollap", get("vollap", (n, n)))
        TL = get("tetlap", (nc, nc))
        sym_rowsum("tetlap", TL)
        if TL is not None:
            W = np.zeros((nc, nc))
            for i in range(nc):
                for j in range(nc):
                    if i != j and len(set(C[i]) & set(C[j])) == 3:
                        W[i, j] -= 1
                        W[i, i] += 1
            nz = np.argwhere(W != 0)
            if len(nz):
                cst = TL[tuple(nz[0])] / W[tuple(nz[0])]
                if not (np.isfinite(cst) and cst != 0 and close(TL, cst * W)):
                    bad.append(("tetlap/uniform", "laplacian_tetrahedra is not a constant multiple of degree - adjacency of the dual graph"))
        vol = np.array([abs(np.linalg.det(np.array([V[a] - V[d], V[b] - V[d], V[c] - V[d]]))) / 6 for a, b, c, d in C])
        tot = float(vol.sum())
        Mv = get("massvv:0,0", (n, n))
        if Mv is not None:
            d = np.diag(Mv)
            if not close(Mv, np.diag(d)):
                bad.append(("massvv/diagonal", "volume_weight_matrix is not diagonal"))
            if np.any(d <= 0):
                bad.append(("massvv/positive", "volume_weight_matrix has a non-positive entry"))
            if not close(d.sum(), 4 * tot):
                bad.append(("massvv/total", "volume_weight_matrix sums to %r, 4 x total volume is %r" % (d.sum(), 4 * tot)))
            for nm, fn in (("massvv:1,0", lambda x: 1 / x), ("massvv:0,1", np.sqrt), ("massvv:1,1", lambda x: 1 / np.sqrt(x))):
                Mo = get(nm, (n, n))
                if Mo is not None and not close(Mo, np.diag(fn(d))):
                    bad.append((nm + "/entrywise", "%s is not the entrywise transform of the mass matrix" % nm))
                if Mo is not None and np.any(~(np.diag(Mo) > 0)):
                    bad.append((nm + "/positive", "%s has a non-positive entry" % nm))
        Mc = get("massvc:0,0", (nc, nc))
        if Mc is not None:
            dc = np.diag(Mc)
            if not close(Mc, np.diag(dc)):
                bad.append(("massvc/diagonal", "volume_weight_matrix_cells is not diagonal"))
            if not close(dc.sum(), tot):
                bad.append(("massvc/total", "volume_weight_matrix_cells sums to %r, total volume is %r" % (dc.sum(), tot)))
            if np.any(~(dc > 0)):
                bad.append(("massvc/positive", "volume_weight_matrix_cells has a non-positive entry"))
            for nm, fn in (("massvc:1,0", lambda x: 1 / x), ("massvc:0,1", np.sqrt), ("massvc:1,1", lambda x: 1 / np.sqrt(x))):
                Mo = get(nm, (nc, nc))
                if Mo is not None and not close(Mo, np.diag(fn(dc))):
                    bad.append((nm + "/entrywise", "%s is not the entrywise transform of the cell mass matrix" % nm))
                if Mo is not None and np.any(~(np.diag(Mo) > 0)):
                    bad.append((nm + "/positive", "%s has a non-positive entry" % nm))
    return bad


# ====================================================================== running / shrinking / replay
def run_impl_cases(cases, timeout=900):
    nsh = max(1, min(core.NCPU, len(cases) // 4))
    payloads = [{"cases": cases[i::nsh]} for i in range(nsh)]
    results = core.run_impl_parallel("vf.impl.c08_driver", payloads, timeout=timeout)
    obs = [None] * len(cases)
    for i, r in enumerate(results):
        for j, o in zip(range(i, len(cases), nsh), r["cases"]):
            obs[j] = o
    return obs


def one(case):
    return core.run_impl("vf.impl.c08_driver", {"cases": [case]}, timeout=300)["cases"][0]


def compact(case):
    """drop unused vertices (keeps order)"""
    elems = list(case.get("F") or case.get("C") or []) + list(case.get("E") or [])
    used = sorted({x for el in elems for x in el})
    mp = {v: i for i, v in enumerate(used)}
    c = dict(case)
    c["V"] = [case["V"][v] for v in used]
    for k in ("F", "C", "E"):
        if case.get(k):
            c[k] = [[mp[x] for x in el] for el in case[k]]
    return c


def shrink(case, key, budget=45):
    left = [budget]

    def fails(c):
        if left[0] <= 0:
            return False
        left[0] -= 1
        try:
            return any(k == key for k, _ in oracle(c, one(c)))
        except Exception:
            return False
    ek = "F" if case["kind"] == "surface" else ("C" if case["kind"] == "volume" else "E")
    cur = case
    if "seq" in cur:
        for field in ("pre", "seq"):
            changed = True
            while changed and len(cur[field]) > (1 if field == "seq" else 0):
                changed = False
                for i in range(len(cur[field])):
                    cand = dict(cur)
                    cand[field] = cur[field][:i] + cur[field][i + 1:]
                    if field == "seq":
                        cand["forms"] = cur["forms"][:i] + cur["forms"][i + 1:]
                    cand["ops"] = list(cand["seq"])
                    if fails(cand):
                        cur = cand
                        changed = True
                        break
    changed = True
    while changed and len(cur[ek]) > 1:
        changed = False
        for i in range(len(cur[ek])):
            cand = dict(cur)
            cand[ek] = cur[ek][:i] + cur[ek][i + 1:]
            if fails(cand):
                cur = cand
                changed = True
                break
    cc = compact(cur)
    if len(cc["V"]) < len(cur["V"]) and fails(cc):
        cur = cc
    return cur


def input_class(case):
    """input class that, with the operator and the violated clause, keys a known finding"""
    ne = len(case.get("F") or case.get("C") or case.get("E") or [])
    tags = []
    if ne == 1:
        tags.append("single-element")
    if "isolated-vertex" in case.get("shape", "") or (case["kind"] == "surface" and not case.get("E")
                                                          and len({x for f in case["F"] for x in f}) < len(case["V"])):
        tags.append("isolated-vertex")
    if case["kind"] == "surface" and case.get("E"):
        tags.append("explicit-edges")
    if "seq" in case:
        tags.append("call-sequence(pre=%s)" % ",".join(sorted(case.get("pre", []))))
    return case["kind"] + ("+" + "+".join(tags) if tags else "")


def classify_known(case, key):
    return key + "@" + input_class(case)


def run(ctx):
    quick = ctx.tier == "quick"
    n_surf, n_vol, n_line = (130, 45, 35) if quick else (1400, 350, 250)
    ctx.rule = ("integer-coordinate meshes: open/closed fans, closed polyhedra, planar lattice grids and height fields with "
                "random diagonals, holes, 1->3 splits, renumbering, face rotation, both orientations, occasional isolated vertex; "
                "3 cases in 5: every operator with every option, each on a fresh mesh; 2 in 5: a random call SEQUENCE (with repeats, "
                "option variants between two plain calls) on ONE mesh object after a random set of mouette.attributes was computed "
                "persistently, each answer compared with the model, repeated answers compared with each other, and a snapshot of "
                "everything stored on the mesh taken before/after each call, every returned matrix clobbered after it was read, "
                "refused calls (bad weights name, wrong mesh type) interleaved; every call in a random CALL FORM (flags as bool / int / "
                "numpy.bool_, options by keyword / positional / omitted at their default, scipy format names for the mass matrices, "
                "custom weights as float / numpy.float32 / numpy.float64 with int / numpy.int64 keys); ~12 % of the meshes rescaled by "
                "2^-20 or 2^24, ~5 % with degenerate geometry (combinatorial operators only), ~8 % with "
                "mouette.config.sort_neighborhoods switched off, genus 1, two components, explicit edge lists with reversed / free edges; "
                "tet meshes (1, 2, 5-/6-tet cubes, 1->4 split, jitter, permuted cells); polylines (paths, cycles, stars, trees+chords). "
                "Every operator with every option on a fresh mesh. Non-trivial = surface with an interior edge / >= 2 cells / >= 2 edges; "
                "distinct = canonical JSON of (V, elements)")
    ctx.assumptions += ["coordinates are small integers, so binary64 results agree with the field values within 1e-9",
                        "meshes are manifold, consistently oriented, non-degenerate (the property's quantifier)",
                        "vertex indices are in range and edge lists duplicate-free (checked per case inside Coq: edges_ok)"]
    ctx.regen(sys.modules[__name__])
    b = ctx.build_props(extra_targets=["theories/C08/Run.vo"])
    ctx.hygiene(["Lib", "C08"])
    ctx.log("built")

    cases = []
    cdir = os.path.join(core.ROOT, "corpus", "C08")
    if os.path.isdir(cdir):
        for f in sorted(os.listdir(cdir)):
            if f.endswith(".json"):
                cases.append(finish_case(ctx.rng, json.load(open(os.path.join(cdir, f)))))
    cases += [finish_case(ctx.rng, gen_surface(ctx.rng, ctx.tier), sequence=(i % 5 >= 3)) for i in range(n_surf)]
    cases += [finish_case(ctx.rng, gen_volume(ctx.rng, ctx.tier), sequence=(i % 5 >= 3)) for i in range(n_vol)]
    cases += [finish_case(ctx.rng, gen_polyline(ctx.rng, ctx.tier), sequence=(i % 5 >= 3)) for i in range(n_line)]
    obs = run_impl_cases(cases)
    ctx.log("implementation ran on %d cases" % len(cases))

    for c in cases:
        ctx.count("kind=" + c["kind"])
        ctx.count("mode=" + ("call sequence on one mesh" if "seq" in c else "every operator on a fresh mesh"))
        for a_ in c.get("pre", []):
            ctx.count("pre-computed attribute " + a_)
        if c.get("scale"):
            ctx.count("coordinates scaled by 2^%d" % c["scale"])
        if c.get("degenerate"):
            ctx.count("degenerate geometry, combinatorial operators only")
        if c.get("sort_neighborhoods") is False:
            ctx.count("mouette.config.sort_neighborhoods = False")
        for f_ in c["forms"]:
            ctx.count("call form: flags as %s, options %s" % (["bool", "int", "numpy.bool_", "bool"][f_ % 4],
                                                              ["by keyword", "positional", "omitted at default"][(f_ // 4) % 3]))
        ctx.count("shape=" + c["shape"])
        ne = len(c.get("F") or c.get("C") or c.get("E"))
        ctx.count("%s elements<=%d" % (c["kind"], 1 if ne <= 1 else 4 if ne <= 4 else 12 if ne <= 12 else 24 if ne <= 24 else 60))
        for o in c["ops"]:
            ctx.count("op " + o)
        if c["kind"] == "surface":
            he = {(f[k], f[(k + 1) % 3]) for f in c["F"] for k in range(3)}
            closed = all((b_, a_) in he for a_, b_ in he)
            ctx.count("surface " + ("closed" if closed else "with border"))
            nontriv = any((b_, a_) in he for a_, b_ in he)
        else:
            nontriv = ne >= 2
        ctx.case_seen([c["kind"], c["V"], c.get("F") or c.get("C") or c.get("E")], nontrivial=nontriv,
                      sample={"kind": c["kind"], "shape": c["shape"], "V": c["V"][:8], "elements": (c.get("F") or c.get("C") or c.get("E"))[:8]})

    # 1. oracle on every case
    fails = []
    for idx, (c, o) in enumerate(zip(cases, obs)):
        for key, msg in oracle(c, o):
            fails.append((idx, key, msg))
    unknown = [(i, k, m_) for i, k, m_ in fails if not ctx.known(classify_known(cases[i], k))]
    ctx.obligation("oracle: every returned matrix satisfies the identities C08 states (independent numpy assembly)",
                   "oracle-on-implementation", not unknown,
                   "%d failing (case, clause) pairs, %d of them not listed known findings" % (len(fails), len(unknown)))

    ctx.log("oracle done: %d failing clauses" % len(fails))
    # 2. kernel-checked correspondence
    bads = {}
    if b["model_ok"]:
        terms, ids, dropped = [], [], []
        for idx, (c, o) in enumerate(zip(cases, obs)):
            if "error" in o:
                dropped.append((idx, "mesh construction / driver error: " + str(o["error"])[:120]))
                continue
            t = case_term(c, o)
            if t is None:
                why = []
                for nm, r_ in results_of(c, o):
                    if r_ is not None and tolerated(c, r_):
                        continue
                    if r_ is None or "error" in r_:
                        why.append("%s: %s" % (nm, "no result" if r_ is None else r_["error"]))
                    elif any(x_ == "nan" for e_ in r_.get("ent", []) for x_ in e_):
                        why.append(nm + ": NaN entries")
                    elif r_.get("complex") and not nm.startswith("gradc"):
                        why.append(nm + ": unexpected complex matrix")
                dropped.append((idx, "not encodable for the kernel batch (%s)" % "; ".join(map(str, why))[:200]))
                continue
            terms.append(t)
            ids.append(idx)
        # cases the harness could not hand to the kernel are counted and fail the run (each also carries an oracle failure)
        ctx.obligation("harness: every generated case was encoded for the kernel-checked batches (%d cases)" % len(cases),
                       "harness", not dropped and len(terms) > 0,
                       "; ".join("case %d %s" % d_ for d_ in dropped[:5]) + (" ... %d in all" % len(dropped) if len(dropped) > 5 else ""))
        for d_ in dropped:
            ctx.count("dropped before the kernel batch")
        r = ctx.run_cases("float", HEADER, terms, "check_float", case_type="case", shard=12 if quick else 10)
        bads["float"] = [ids[i] for i in (r or [])]
        if r is None:
            bads["float-eval"] = [-1]
        terms, ids = [], []
        for idx, (c, o) in enumerate(zip(cases, obs)):
            if "error" in o:
                continue
            t = case_term(c, o, [x for x in c["ops"] if x in Q_EXACT])
            if t is not None:
                terms.append(t)
                ids.append(idx)
        r = ctx.run_cases("qexact", HEADER, terms, "check_q_exact", case_type="case", shard=20)
        bads["qexact"] = [ids[i] for i in (r or [])]
        terms, ids = [], []
        for idx, (c, o) in enumerate(zip(cases, obs)):
            if "error" in o:
                continue
            if c["kind"] == "surface" and c.get("planar"):
                names = [x for x in c["ops"] if x in Q_CLOSE_PLANAR]
            elif c["kind"] == "volume":
                names = [x for x in c["ops"] if x in Q_CLOSE_VOL]
            else:
                continue
            t = case_term(c, o, names)
            if t is not None:
                terms.append(t)
                ids.append(idx)
        r = ctx.run_cases("qclose", HEADER, terms, "check_q_close", case_type="case", shard=10)
        bads["qclose"] = [ids[i] for i in (r or [])]
    else:
        ctx.obligation("correspondence batches", "correspondence", False, "model does not compile")

    ctx.log("correspondence done")
    # 3. verdicts
    reported = set()
    # every failing (case, clause) is classified; unknown classes first, listed known findings afterwards
    for idx, key, msg in sorted(fails, key=lambda t: bool(ctx.known(classify_known(cases[t[0]], t[1])))):
        fkey = classify_known(cases[idx], key)
        if fkey in reported:
            continue
        reported.add(fkey)
        if ctx.known(fkey):
            ctx.report_known(fkey, ctx.known(fkey)["what"])
            continue
        if len([r_ for r_ in reported if not ctx.known(r_)]) > 6:
            ctx.violation(msg, {"case": cases[idx], "class": key, "input_class": input_class(cases[idx])}, key=fkey)
            continue
        small = shrink({k: v for k, v in cases[idx].items()}, key)
        ob = one(small)
        msgs = [m_ for k_, m_ in oracle(small, ob) if k_ == key] or [msg]
        if "steps" in ob:
            observed = [{k_: st[k_] for k_ in ("op", "shape", "ent", "error", "mutated") if k_ in st} for st in ob["steps"]][:8]
        else:
            observed = {k_: v_ for k_, v_ in ob["outs"].items() if k_.split("/")[0].split(":")[0] in key}
        ctx.violation(msgs[0], {"case": small, "class": key, "input_class": input_class(small), "observed": observed},
                      key=classify_known(small, key))
    disagree = sorted({i for k in bads for i in bads[k] if i >= 0})
    if disagree and not fails:
        ctx.notes.append("model and implementation disagree on cases %s but the oracle accepts the implementation's matrices" % disagree[:8])
        for i in disagree[:3]:
            ctx.log("disagreement on case", i, json.dumps({k: cases[i][k] for k in ("kind", "V", "F", "C", "E") if k in cases[i]}))
            ctx.log("  batches:", [k for k in bads if i in bads[k]])


def replay(ctx, data):
    case = data.get("case")
    if not case:
        print("replay file names no concrete input:", json.dumps(data)[:400])
        return 1
    if "ops" not in case:
        import random
        case = finish_case(random.Random(0), dict(case))
    ob = one(case)
    res = oracle(case, ob)
    key = data.get("class")
    for k, m in res:
        print("FAILS [%s]: %s" % (k, m))
    hit = [m for k, m in res if key is None or k == key]
    if not res:
        print("passes")
    return 1 if hit else 0
