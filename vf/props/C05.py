"""C05 - attributes are total maps with defaults; sparse and dense storage agree; reads do not alias; growth keeps
attributes aligned."""
import itertools
import json
import os
import sys

from .. import core
from ..core import zlit, coq_list, zlist, coq_bool, coq_option
from ..translate import c05 as tr

META = {
    "property_id": "C05",
    "design_ref": "DESIGN.md section 5, C05",
    "technique": "Coq proof (history machine over a heap of value cells: invariant by induction over all operation "
                 "histories, lock-step simulation sparse/dense, ownership argument for aliasing) + decision expressions "
                 "regenerated from mesh_attributes.py / data_container.py on every run + kernel-checked correspondence "
                 "batches on generated histories + independent dict-with-default oracle",
    "level_text": "Machine-checked Coq theorems (25, all closed under the global context; unbounded in history length, container "
                  "size, number of attributes, arity, keys) about an executable model of mesh_attributes.py and of the attribute "
                  "plumbing of data_container.py. FULL: structural invariant incl. alignment along every history (append, += "
                  "list/tuple/set, += container, += self, refused appends incl. a corner list with an item that cannot be "
                  "unpacked, clear of the container, register_array_as_attribute); total-map laws (read = pure function, "
                  "read-after-write with the exact stored form `written`, frame for every operation that does not touch the "
                  "entry, law of deletion, refused writes change nothing, defaults after create/clear, growth keeps values) and "
                  "their history-level form `last value written or else the default` (C05_last_write_or_default); acceptance: "
                  "both storages run one decision = exact arity + bool->int->float widening of every component, and along every "
                  "history a write is accepted iff the value is storable (that decision + numpy can represent it) and, dense "
                  "only, the index is an element (C05_write_accepted_iff); dense bounds test fires exactly outside [0,n) (on the "
                  "generated expression and along every history); no aliasing: an update through a reference obtained by reading "
                  "(a,i), attr[k][c]=x in one statement (C05_update_frame), or an update of an array exported by as_array "
                  "changes no other entry; array export: same shape and dtype in both storages (C05_export_shape) and row k = "
                  "what attr[k] reads (C05_export_is_reads); len/iteration/`in`; create_attribute(size=len) is the plain "
                  "creation, any other size keeps its offset. PARTIAL: sparse = dense (lock-step simulation incl. attr[k][c]=x "
                  "and export shapes) under three guards named in the statement - reads/writes address elements of the "
                  "container, custom default strings fit the fixed width, updates hit written entries. REFUTED with witnesses (3 "
                  "narrowly keyed known findings, each replayed on the implementation every run): in-place update of a "
                  "never-written entry (dense writes through, sparse does not); strings longer than Type.dtype's 32 characters "
                  "(cut on write by both storages, a long custom default by dense only); the sparse storage accepts indices "
                  "outside the container. 8 defects repaired by fix: commits. Decision expressions / tables / growth amounts / "
                  "dtype width / export shapes / scalar-default test are regenerated from the source on each run; the state "
                  "machine is tied to the code by kernel-evaluated correspondence batches on generated lock-step histories; an "
                  "independent dict-with-default oracle searches for failing inputs. Tested only (not theorems): numpy's own "
                  "semantics (allocation, views, dtype conversion), sparse Snap/len/iteration agreement (storage specific), Mut "
                  "through long-lived references inside the agreement.",
    "level_note": "Decisions. (a) The property's 'same answers after any sequence of writes' is read with attr[k][c] = x on a "
                  "WRITTEN entry being a write (both storages hand out a reference to what they store - the test-suite does "
                  "exactly this): proved to agree after repair accde53. On a NEVER-written entry nothing is stored in the sparse "
                  "dict, the dense array has a row: the storages differ -> known finding (design-level: materialising on read "
                  "would change sparse len/iteration/in). (b) Strings beyond the declared 32 characters: condemned by 'same "
                  "answers', not repairable in a small way -> known finding; theorems carry the guard short_op. (c) `k in attr`: "
                  "no __contains__; sparse = key written, dense = python's iteration fallback (membership among values, "
                  "ValueError for vectors): modelled and corresponded, not a read of an entry, outside the agreement theorem; "
                  "sparse len/iteration = written keys by documented design. (d) dense as_array returns a view, sparse a copy: "
                  "updates of an export are not among the property's operations; proved: they touch at most the addressed entry "
                  "of the exported attribute. (e) register_array_as_attribute adopts the caller's array: later caller-side "
                  "mutation is outside the model. Trusted: Coq kernel + vm_compute; the c05 translator; the harness (generators, "
                  "driver canonicalisation: read-back values cast to the attribute's type and compared exactly, strings as "
                  "character-code lists, numpy arrays of complex/str passed to a write encoded as unsupported component types); "
                  "numpy semantics assumed: np.array/np.full/np.concatenate allocate, a[k,:] and squeeze are views, dtype "
                  "conversion on assignment (`store`). Numeric limits (modelled and generated: 2**31, 2**53+1, 2**63-1, 2**63, 2**64, "
                  "-2**63-1, 2**1100): an int outside int64 written to an int attribute, or beyond the doubles written to a float "
                  "attribute, is refused by BOTH storages (numpy OverflowError, EOverflow); an int widened to float reads back as "
                  "the nearest double (round53 = python float()). In-place updates through a reference kept across other "
                  "operations (Mut) are outside the agreement theorem (only attr[k][c] = x is inside); C05_no_aliasing covers "
                  "them. DataContainer(attributes=dict) adopts the caller's attribute objects: outside the property's operations. "
                  "Deliberately left FREE by the oracle (the property text is silent; the model still describes what the current "
                  "code does, so a change there can only make the run `unproved`, never a violation with a replay): the "
                  "exception class and message of every refusal (only the dense out-of-bounds answer must be "
                  "Attribute.OutOfBoundsError); what `container += x` does with an operand form the text does not name (numpy "
                  "array, range, generator, iterator, mapping, None, a corner list with an item that cannot be unpacked): a "
                  "refusal that changes nothing OR an acceptance that grows the container by k >= 0 with every attribute "
                  "aligned - the Coq case then uses the model operation matching the answer (ExtendBad / ExtendList k), alignment "
                  "is proved for both; deleting a missing attribute (silent or refused); `k in attr`, len and iteration order of "
                  "a sparse attribute; the python/numpy type of a returned scalar (values are compared after conversion to the "
                  "attribute's type); the squeeze convention of as_array (only: both storages export the same shape and dtype "
                  "for the same size/arity/type); repr/str. Not covered: `k in dense_string_attr`, negative component indices in "
                  "updates, whole-array assignment to an exported array.",
}

HEADER = """From Coq Require Import ZArith List Bool.
Import ListNotations.
Require Import MV.C05.Types MV.C05.Gen MV.C05.Model MV.C05.Run.
Open Scope Z_scope.
"""

DRIVER = "vf.impl.c05_driver"


def gen(ctx):
    return tr.gen()


# ====================================================================== value universe
TYPES = ["bool", "int", "float", "complex", "str"]
RANK = {"b": 0, "i": 1, "f": 2}
TKIND = {"bool": "b", "int": "i", "float": "f", "complex": "c", "str": "s"}
CHARS = ["", "a", "b", "cd", "dcba"]
WORDS = ["", "a", "b", "ab", "abc", "bonjour", "x y", "dcba", "abcdefghijklmnopqrstuvwxyz"]
LONG = "x" * 33 + "yz"          # longer than the dense storage's fixed width (Type.dtype '<U32')


def kinds_below(t):
    """component kinds the attribute type accepts (the property: bool -> int -> float widening only)"""
    k = TKIND[t]
    if k in RANK:
        return [x for x in "bif" if RANK[x] <= RANK[k]]
    return [k]


BIG = [2 ** 31, 2 ** 53 + 1, 2 ** 63 - 1, 2 ** 63, 2 ** 64, -2 ** 63, -2 ** 63 - 1, 2 ** 1100]


def gen_comp(rng, kind, vec=False, big=False):
    fl = rng.choice(["py", "py", "py", "np", "np32"])
    if kind == "i" and rng.random() < 0.06:
        return ["i", rng.choice([0, 3, 200, 255]), "u8"]       # numpy.uint8 is one of Attribute.Type.Int's values
    if big and kind == "i" and rng.random() < 0.08:
        return ["i", rng.choice(BIG), "py"]      # beyond int32 / the exact doubles / int64 / the doubles
    if kind == "b":
        return ["b", rng.randint(0, 1), "py" if fl == "np32" else fl]
    if kind == "i":
        return ["i", rng.choice([0, 1, 2, 3, -1, -7, 42, 100]), fl]
    if kind == "f":
        return ["f", rng.choice([0, 8, 4, 20, -12, 1, 336, -52, 611]), fl]
    if kind == "c":
        return ["c", rng.choice([0, 8, 80, -4, 180]), rng.choice([0, 8, 72, -20])]
    if kind == "s":
        return ["s", rng.choice(CHARS if vec else WORDS)]
    if kind == "x":
        return ["x", rng.choice(["none", "f16", "c128"] if not vec else ["none", "f16", "c128", "npstr", "list"])]
    raise ValueError(kind)


def gen_value(rng, t, k, malformed):
    """a value for an attribute of type t and arity k; `malformed` asks for one the property says must be rejected"""
    ok = kinds_below(t)
    allk = ["b", "i", "f", "c", "s", "x"]
    bad = [x for x in allk if x not in ok]
    if k == 1:
        if not malformed:
            kd = rng.choice(ok)
            if kd == "s":
                return ["str", rng.choice(WORDS)]
            return ["scal", gen_comp(rng, kd, big=True)]
        r = rng.random()
        if r < 0.6:
            kd = rng.choice(bad)
            if kd == "s":
                return ["str", rng.choice(WORDS)]
            return ["scal", gen_comp(rng, kd)]
        # a sequence where a scalar is expected
        m = rng.choice([0, 1, 1, 2])
        return [rng.choice(["list", "tuple"]), [gen_comp(rng, rng.choice(ok), True) for _ in range(m)]]
    # vector attribute
    if not malformed:
        if t == "str" and rng.random() < 0.2:
            return ["str", "".join(rng.choice("abcd") for _ in range(k))]
        shape = rng.choice(["list", "list", "tuple", "nparr", "gen"])
        if shape == "nparr" and TKIND[t] in RANK:
            kd = rng.choice(ok)
            return ["nparr", [gen_comp(rng, kd, True)[:2] + ["py"] for _ in range(k)]]
        if shape == "nparr":
            shape = "list"
        return [shape, [gen_comp(rng, rng.choice(ok), True, big=True) for _ in range(k)]]
    r = rng.random()
    if r < 0.35:  # wrong arity
        m = rng.choice([x for x in (0, 1, k - 1, k + 1, k + 2) if x != k and x >= 0])
        if t == "str" and rng.random() < 0.3:
            return ["str", "".join(rng.choice("abcd") for _ in range(m))]
        return [rng.choice(["list", "tuple"]), [gen_comp(rng, rng.choice(ok), True) for _ in range(m)]]
    if r < 0.50:  # scalar where a vector is expected
        kd = rng.choice([x for x in ok + ["x"] if x != "s"] or ["x"])
        return ["scal", gen_comp(rng, kd)]
    if r < 0.58 and t != "str":  # a string is iterable: its characters are the components
        return ["str", "".join(rng.choice("abcd") for _ in range(k))]
    if r < 0.66 and TKIND[t] not in RANK:  # numpy arrays of complex / str carry numpy scalar types
        return ["nparr", [gen_comp(rng, TKIND[t], True) for _ in range(k)]]
    # wrong component type at a random position (any position, not only the first)
    comps = [gen_comp(rng, rng.choice(ok), True) for _ in range(k)]
    pos = rng.randrange(k)
    comps[pos] = gen_comp(rng, rng.choice(bad), True)
    return [rng.choice(["list", "tuple"]), comps]


def gen_key(rng, n):
    r = rng.random()
    if n > 0 and r < 0.74:
        return rng.randrange(n)
    if r < 0.88:
        return n            # index == size
    if r < 0.92:
        return -1
    if r < 0.96:
        return n + rng.randint(1, 4)
    return -rng.randint(1, n + 2)


def gen_small_sweep(rng):
    """containers of 0, 1 and 2 elements (grown one element at a time, attribute cleared, container cleared) for one
    type / arity / default, both storages in lock-step, exporting at every size"""
    t = rng.choice(TYPES)
    k = rng.choice([1, 1, 2, 3])
    d = gen_comp(rng, TKIND[t]) if rng.random() < 0.4 else None
    if d is not None and d[0] in "bif":
        d[2] = "py"
    corner = rng.random() < 0.2
    ops = []
    n = rng.choice([0, 0, 1])
    ops += [["append"]] * n
    for a, dense in ((0, False), (1, True)):
        ops.append(["create", a, t, k, dense, d])

    def both(o):
        for a in (0, 1):
            ops.append([o[0], a] + o[1:])
    both(["as_array"])
    for _ in range(rng.choice([2, 3])):
        grow = rng.choice([["append"], ["append"], ["extend_list", 1, "list"], ["extend_other", 1, False]])
        ops.append(grow)
        n += 1
        if rng.random() < 0.7:
            v = gen_value(rng, t, k, False)
            key = rng.randrange(n)
            both(["set", key, v])
        both(["as_array"])
        if rng.random() < 0.3:
            both(["get", rng.randrange(n)])
        if rng.random() < 0.3:
            both(["clear_attr"])
            both(["as_array"])
    if rng.random() < 0.4:
        ops.append(["clear_all"])
        n = 0
        for a, dense in ((0, False), (1, True)):
            ops.append(["create", a, t, k, dense, d])
        both(["as_array"])
        ops.append(["append"])
        both(["as_array"])
    return {"cont": "corner" if corner else "data", "ops": ops, "lock": True}


LENS = [0, 1, 2, 3, 5, 8, 12, 20, 30, 40]


def gen_history(rng, maxlen=40):
    """A history over one container; attributes come in twins (2L sparse, 2L+1 dense) driven in lock-step, or singly."""
    if rng.random() < 0.12:
        return gen_small_sweep(rng)
    lock = rng.random() < 0.85
    corner = rng.random() < 0.15
    L = rng.choice(LENS)
    L = min(L, maxlen)
    ops = []
    n = 0
    meta = {}      # name -> (type, arity, dense)
    refmeta = []   # (type, arity, dense) of the attribute each handed-out reference came from
    present = set()        # names that exist in the container (meta: the ones the generator keeps driving)
    junk = set()           # sparse names that may hold keys outside the container
    unsure = [False]       # the generator lost track of the reference indices: no more mut / mutarr
    n0 = rng.choice([0, 0, 1, 2, 3, 3, 4, 6])
    for _ in range(n0):
        ops.append(["append"])
        n += 1
    pmal = rng.choice([0.0, 0.1, 0.25, 0.5])
    pin = rng.choice([0.0, 0.05, 0.2])

    def names_of(l):
        if lock:
            return [2 * l, 2 * l + 1]
        return [l]

    def logical():
        return sorted({(a // 2 if lock else a) for a in meta})

    W = [("create", 8), ("set", 30), ("get", 14), ("mut", 7), ("update", 8), ("append", 6), ("extend_list", 4),
         ("extend_other", 4), ("extend_self", 1.5), ("extend_bad", 1), ("extend_list_bad", 1.2), ("clear_attr", 3),
         ("as_array", 6), ("mutarr", 2.5), ("len", 3), ("iter", 2), ("contains", 2.5), ("delete", 1.5), ("has", 1.5),
         ("clear_all", 0.4), ("clen", 1), ("snap", 2), ("create_sized", 1), ("register", 1.5)]
    longs = rng.random() < 0.03       # a few histories use a string longer than the dense fixed width (known finding)
    names, weights = [w[0] for w in W], [w[1] for w in W]
    while len(ops) < n0 + L:
        nm = rng.choices(names, weights)[0]
        if not meta and nm not in ("create", "append", "extend_list", "extend_other", "extend_self", "extend_bad", "clen",
                                   "has", "extend_list_bad", "create_sized", "register"):
            nm = "create"
        if nm == "create":
            l = rng.randrange(3)
            t = rng.choice(TYPES)
            k = rng.choice([1, 1, 2, 3, 3])
            d = None
            r = rng.random()
            if r < 0.35:
                d = gen_comp(rng, TKIND[t])            # custom default of the right type
                if d[0] in "bif" and rng.random() < 0.7:
                    d[2] = "py"
            elif r < 0.45:
                d = gen_comp(rng, rng.choice([x for x in "bifcsx" if x != TKIND[t]]))   # default of the wrong type
                if d == ["x", "none"]:
                    d = ["x", "f16"]
            for a in names_of(l):
                dense = (a % 2 == 1) if lock else (rng.random() < 0.5)
                ops.append(["create", a, t, k, dense, d])
                if d is None or d[0] == TKIND[t]:
                    meta[a] = (t, k, dense)
                    present.add(a)
                    junk.discard(a)
        elif nm in ("set", "get"):
            l = rng.choice(logical()) if rng.random() > 0.03 else rng.randrange(3)
            key = gen_key(rng, n) if rng.random() > pin else (rng.randrange(n) if n else 0)
            a0 = names_of(l)[0]
            t, k, _ = meta.get(a0, ("float", 1, False))
            if nm == "set":
                v = gen_value(rng, t, k, rng.random() < pmal)
                if longs and t == "str" and k == 1 and rng.random() < 0.5:
                    v = ["str", LONG]
                for a in names_of(l):
                    ops.append(["set", a, key, v])
                    if not (0 <= key < n):
                        junk.add(a)
            else:
                for a in names_of(l):
                    ops.append(["get", a, key])
                    if a in present and a not in meta:
                        unsure[0] = True
                    if a in meta and meta[a][1] > 1 and (not meta[a][2] or 0 <= key < n):
                        refmeta.append(meta[a])
        elif nm in ("mut", "mutarr") and unsure[0]:
            continue
        elif nm == "mut":
            if not refmeta:
                if rng.random() < 0.1:
                    ops.append(["mut", 0, 0, ["f", 8, "py"]])
                continue
            if rng.random() < 0.03:
                ops.append(["mut", len(refmeta), 0, ["f", 8, "py"]])     # no such reference
                continue
            # the most recent references are the interesting ones (both twins), sometimes an old (possibly stale) one
            if rng.random() < 0.35:
                who = [rng.randrange(len(refmeta))]
            else:
                who = sorted({max(0, len(refmeta) - 1 - j) for j in range(2 if lock else 1)})
            t, k = refmeta[who[0]][0], refmeta[who[0]][1]
            c = rng.randrange(k)
            x = gen_comp(rng, rng.choice(kinds_below(t)), True)
            if x[0] in "bif":
                x[2] = "py"
            for r_ in who:
                if refmeta[r_][0] == t and refmeta[r_][1] == k:
                    ops.append(["mut", r_, c, x])
        elif nm == "update":
            l = rng.choice(logical())
            key = gen_key(rng, n) if rng.random() < 0.15 else (rng.randrange(n) if n else 0)
            a0 = names_of(l)[0]
            t, k, _ = meta.get(a0, ("float", 1, False))
            c = rng.randrange(k) if rng.random() < 0.93 else k
            x = gen_comp(rng, rng.choice(kinds_below(t)), True, big=True)
            if x[0] in "bif":
                x[2] = "py"
            for a in names_of(l):
                if a in meta and meta[a][:2] != (t, k):
                    continue          # in-place updates bypass the type check: keep the payload within the attribute's type
                if a in present and a not in meta:
                    unsure[0] = True
                    continue
                ops.append(["update", a, key, c, x])
                if a in present and a not in meta:
                    unsure[0] = True
                if a in meta and meta[a][1] > 1 and (not meta[a][2] or 0 <= key < n):
                    refmeta.append(meta[a])
        elif nm == "mutarr":
            cand = [i for i, r_ in enumerate(refmeta) if len(r_) == 5]
            if not cand:
                continue
            i = rng.choice(cand[-3:])
            t, k, _, _, nrows = refmeta[i]
            if nrows == 0:
                continue
            x = gen_comp(rng, rng.choice(kinds_below(t)), True)
            if x[0] in "bif":
                x[2] = "py"
            ops.append(["mutarr", i, rng.randrange(nrows), rng.randrange(k), x])
        elif nm == "contains":
            l = rng.choice(logical())
            key = rng.choice([0, 1, 2, 3, 5, 42, -1, n])
            for a in names_of(l):
                if a in meta and meta[a][2] and meta[a][0] in ("str",):
                    continue          # python compares the int with numpy strings: not modelled
                ops.append(["contains", a, key])
        elif nm == "extend_list_bad":
            m = rng.choice([0, 1, 2])
            ops.append(["extend_list_bad", m])
            if not corner:
                n += m + 1
        elif nm == "create_sized":
            l = rng.randrange(3)
            t = rng.choice(TYPES)
            k = rng.choice([1, 2, 3])
            size = n if rng.random() < 0.7 else max(0, n + rng.choice([-1, 1, 2]))
            a = names_of(l)[-1]
            ops.append(["create_sized", a, t, k, None, size])
            present.add(a)
            if size == n:
                meta[a] = (t, k, True)
            else:
                meta.pop(a, None)         # an attribute of a caller-chosen length: not driven any further
        elif nm == "register":
            l = rng.randrange(3)
            t = rng.choice(TYPES)
            k = rng.choice([1, 1, 2, 3])
            nr = n if rng.random() < 0.8 else n + rng.choice([-1, 1])
            rows = [[cast_comp(gen_comp(rng, TKIND[t], True), t) + (["py"] if TKIND[t] in "bif" else []) for _ in range(k)]
                    for _ in range(max(nr, 0))]
            a = names_of(l)[-1]
            ops.append(["register", a, t, k, rows, None, rng.random() < 0.5])
            if nr == n and n > 0 and a not in present:
                meta[a] = (t, k, True)
                present.add(a)
        elif nm == "append":
            ops.append(["append"])
            n += 1
        elif nm == "extend_list":
            m = rng.choice([0, 1, 2, 3]) if (n > 40 or rng.random() > 0.004) else 270      # rarely: indices beyond 256
            ops.append(["extend_list", m, rng.choice(["list", "list", "tuple", "set"])])
            n += m
        elif nm == "extend_other":
            m = rng.choice([0, 1, 2, 3])
            ops.append(["extend_other", m, rng.random() < 0.5])
            n += m
        elif nm == "extend_self":
            if n > 12:
                continue
            ops.append(["extend_self"])
            n += n
        elif nm == "extend_bad":
            ops.append(["extend_bad", rng.choice(["range", "nparray", "dict", "none", "iter", "gen", "keys", "map"])])
        elif nm in ("clear_attr", "as_array", "len", "iter", "has"):
            l = rng.choice(logical()) if (meta and rng.random() > 0.05) else rng.randrange(3)
            for a in names_of(l):
                ops.append([nm, a])
                if nm == "as_array" and a in present and (a not in meta or (not meta[a][2] and a in junk)):
                    unsure[0] = True
                if nm == "as_array" and a in meta:
                    refmeta.append(meta[a] + ("arr", n))
                if nm == "clear_attr":
                    junk.discard(a)
        elif nm == "delete":
            l = rng.choice(logical()) if rng.random() > 0.1 else rng.randrange(3)
            for a in names_of(l):
                ops.append(["delete", a])
                meta.pop(a, None)
                present.discard(a)
        elif nm == "clear_all":
            ops.append(["clear_all"])
            n = 0
            meta.clear()
            present.clear()
        elif nm == "clen":
            ops.append(["clen"])
        elif nm == "snap":
            ops.append(["snap"])
    return {"cont": "corner" if corner else "data", "ops": ops, "lock": lock}


# ====================================================================== independent oracle (dict with default)
def comp_kind(c):
    return c[0]


def cast_comp(c, t):
    """numeric meaning of an accepted component inside an attribute of type t (bool < int < float widening; an int
    widened to float is the nearest double, as python's float() gives it)"""
    k = TKIND[t]
    if k == "f" and c[0] == "i":
        return ["f", int(float(c[1])) * 8]
    if k == "b":
        return ["b", int(c[1])]
    if k == "i":
        return ["i", int(c[1])]
    if k == "f":
        return ["f", int(c[1]) * (1 if c[0] == "f" else 8)]
    if k == "c":
        return ["c", c[1], c[2]]
    return ["s", c[1]]


def value_components(v, k):
    """the components python hands to the attribute, or None when the value has not the shape of a k-vector / scalar"""
    if k == 1:
        if v[0] == "scal":
            return [v[1]]
        if v[0] == "str":
            return [["s", v[1]]]
        return None
    if v[0] in ("list", "tuple", "gen"):
        return list(v[1])
    if v[0] == "nparr":
        out = []
        for c in v[1]:
            # numpy arrays of complex / str yield numpy scalar types the attribute vocabulary does not contain
            out.append(["x", "np"] if c[0] in "cs" else c)
        return out
    if v[0] == "str":
        return [["s", ch] for ch in v[1]]
    return None


def representable(c, t):
    """the attribute's numpy type can hold the component (both storages refuse alike otherwise: OverflowError)"""
    if c[0] != "i":
        return True
    if TKIND[t] == "i":
        return -2 ** 63 <= c[1] < 2 ** 63
    if TKIND[t] == "f":
        try:
            float(c[1])
        except OverflowError:
            return False
    return True


def value_valid(v, t, k):
    comps = value_components(v, k)
    if comps is None or len(comps) != k:
        return None
    ok = kinds_below(t)
    if any(c[0] not in ok for c in comps):
        return None
    if not all(representable(c, t) for c in comps):
        return None
    return [cast_comp(c, t) for c in comps]


TYPE_DEFAULT = {"bool": ["b", 0], "int": ["i", 0], "float": ["f", 0], "complex": ["c", 0, 0], "str": ["s", ""]}
UNKNOWN = "unknown"


WIDTH = 32


def cut(row):
    if not isinstance(row, list):
        return row
    return [(["s", c[1][:WIDTH]] if (isinstance(c, list) and len(c) == 2 and c[0] == "s" and isinstance(c[1], str)) else c)
            for c in row]


def differs(got, e):
    """'' when equal, else a description (naming the fixed-width cut when that is the whole difference)"""
    if got == e:
        return ""
    if isinstance(e, list) and got == cut(e):
        return " (a string longer than the fixed width %d was cut)" % WIDTH
    return " "


class Oracle:
    """The property restated: every attribute is a python dict with a default; the dense kind additionally refuses
    every index outside range(len(container)); an in-place update attr[k][c] = x is a write to entry k; nothing an
    in-place update does is visible anywhere but at the entry that was read; every dense attribute is as long as the
    container; a refused append changes nothing."""

    def __init__(self, corner=False):
        self.n = 0
        self.attrs = {}
        self.refs = []
        self.uid = 0
        self.corner = corner
        self.shapes = {}

    def expected_row(self, A, key):
        return A["m"].get(key, A["dflt"])

    def lost(self, A, j):
        if j in A.get("wt", set()) and not A["dense"]:
            return " (the in-place update of this never-written entry was lost)"
        return ""

    def judged(self):
        return {a: A for a, A in self.attrs.items() if not A.get("free")}

    def snapshot_check(self, snap, skip=None, what="snapshot"):
        got = {a: rows for a, rows in snap}
        if sorted(got) != sorted(self.attrs):
            return "%s lists attributes %s, the container has %s" % (what, sorted(got), sorted(self.attrs))
        for a, A in sorted(self.judged().items()):
            rows = got[a]
            if len(rows) != self.n:
                return "%s of attribute %d has %d rows for %d elements" % (what, a, len(rows), self.n)
            for j in range(self.n):
                e = self.expected_row(A, j)
                if skip is not None and skip == (a, A["uid"], j):
                    A["m"][j] = rows[j] if (rows[j] and isinstance(rows[j][0], list)) else UNKNOWN
                    continue
                if e == UNKNOWN:
                    if rows[j] and isinstance(rows[j][0], list):
                        A["m"][j] = rows[j]
                    continue
                d = differs(rows[j], e)
                if d:
                    return "%s: attribute %d (%s) entry %d reads %s, expected %s%s%s" % (
                        what, a, "dense" if A["dense"] else "sparse", j, rows[j], e, d, self.lost(A, j))
        return None

    def lens_check(self, lens, what):
        got = dict((a, l) for a, l in lens)
        if sorted(got) != sorted(self.attrs):
            return "%s: attributes %s, expected %s" % (what, sorted(got), sorted(self.attrs))
        for a, A in self.judged().items():
            if A["dense"] and got[a] != self.n:
                return "%s: dense attribute %d has length %d, the container has %d elements (not aligned)" % (what, a, got[a], self.n)
        return None

    def new_attr(self, a, t, k, dense, d, m=None, free=False):
        self.uid += 1
        dc = TYPE_DEFAULT[t] if d is None else cast_comp(d, t)
        self.attrs[a] = {"t": t, "k": k, "dense": bool(dense), "dflt": [dc] * k, "m": dict(m or {}), "uid": self.uid,
                         "keys": set(), "free": free}

    def step(self, op, o):
        nm = op[0]
        A = self.attrs.get(op[1]) if nm in ("delete", "has", "clear_attr", "as_array", "len", "iter", "set", "get",
                                            "update", "contains") else None
        if A is not None and A.get("free") and nm not in ("delete", "has"):
            if nm in ("get", "update") and o[0] in ("val", "ok") and A["k"] > 1 and (o[0] == "ok" or o[2]):
                self.refs.append(("vec", op[1], A["uid"], op[2]))
            if nm == "update" and o == ["err", "index"] and A["k"] > 1:
                self.refs.append(("vec", op[1], A["uid"], op[2]))
            if nm == "as_array" and o[0] == "rows":
                self.refs.append(("arr", op[1], A["uid"]))
            return None
        if nm in ("create", "create_sized"):
            if nm == "create":
                _, a, t, k, dense, d = op
                size = None
            else:
                _, a, t, k, d, size = op
                dense = True
            valid = d is None or d[0] == TKIND[t]
            if valid:
                if o != ["ok"]:
                    return "create with %s default answered %s" % ("no" if d is None else "a well-typed", o)
                self.new_attr(a, t, k, dense, d, free=(size is not None and size != self.n))
            elif o[0] != "err":
                return "create with a default of the wrong type answered %s" % (o,)
            return None
        if nm == "register":
            _, a, t, k, rows, d, _ = op
            if a in self.attrs:
                return None if o == ["ok"] else "register on an existing name answered %s" % (o,)
            if len(rows) != self.n or self.n == 0:
                return None if o[0] == "err" else "register of %d rows on a container of %d elements answered %s" % (len(rows), self.n, o)
            if o != ["ok"]:
                return "register of a well-shaped array answered %s" % (o,)
            self.new_attr(a, t, k, True, d, m={i: [c[:2] if c[0] != "c" else c for c in r] for i, r in enumerate(rows)})
            return None
        if nm == "delete":
            had = op[1] in self.attrs
            if had and o != ["ok"]:
                return "delete of an existing attribute answered %s" % (o,)
            if not had and o[0] not in ("ok", "err"):       # deleting a missing attribute: silent or refused, the text does not say
                return "delete answered %s" % (o,)
            self.attrs.pop(op[1], None)
            return None
        if nm == "has":
            return None if o == ["bool", op[1] in self.attrs] else "has_attribute answered %s" % (o,)
        if nm in ("clear_attr", "as_array", "len", "iter", "set", "get", "update", "contains") and A is None:
            return None if o[0] == "err" else "operation on a missing attribute answered %s" % (o,)
        if nm == "clear_attr":
            A["m"] = {}
            A["keys"] = set()
            A["wt"] = set()
            return None if o == ["ok"] else "clear answered %s" % (o,)
        if nm == "contains":
            return None          # `k in attr` is not a read of an entry: the property leaves it free (modelled, not judged)
        if nm in ("as_array", "iter"):
            if nm == "iter" and not A["dense"]:
                return None
            if not A["dense"] and any((k < 0 or k >= self.n) for k in A["m"]):
                if nm == "as_array" and o[0] == "rows":
                    self.refs.append(("arr", op[1], A["uid"]))
                return None      # writes outside the container happened on the dict storage: not an element index
            if o[0] != "rows" or len(o[1]) != self.n:
                return "%s answered %s for a container of %d elements" % (nm, o, self.n)
            if nm == "as_array":
                self.refs.append(("arr", op[1], A["uid"]))
                if len(o) >= 4:
                    # whatever the convention (np.squeeze or not): every export of an attribute of the same arity and type
                    # over the same number of elements has the same shape and dtype, sparse or dense
                    key_ = (self.n, A["k"], A["t"])
                    seen = self.shapes.setdefault(key_, (o[2], o[3], A["dense"]))
                    if (o[2], o[3]) != seen[:2]:
                        return "as_array of the %s attribute of arity %d on %d elements has shape %s dtype %s, the %s one had shape %s dtype %s: both storages export shape alike" % (
                            "dense" if A["dense"] else "sparse", A["k"], self.n, tuple(o[2]), o[3],
                            "dense" if seen[2] else "sparse", tuple(seen[0]), seen[1])
            for j in range(self.n):
                e = self.expected_row(A, j)
                if e == UNKNOWN:
                    A["m"][j] = o[1][j]
                else:
                    d = differs(o[1][j], e)
                    if d:
                        return "%s of %s attribute: entry %d is %s, expected %s%s%s" % (nm, "dense" if A["dense"] else "sparse", j, o[1][j], e, d, self.lost(A, j))
            return None
        if nm == "len":
            if A["dense"] and o != ["nat", self.n]:
                return "len(dense attribute) answered %s, the container has %d elements" % (o, self.n)
            return None          # len of a sparse attribute (number of stored keys) is left free by the property
        if nm in ("set", "get", "update"):
            key = op[2]
            if A["dense"] and not (0 <= key < self.n):
                if o != ["err", "oob"]:
                    return "dense %s at index %d of a container of %d elements answered %s, expected OutOfBoundsError" % (nm, key, self.n, o)
                return None
            if nm == "set":
                row = value_valid(op[3], A["t"], A["k"])
                if row is None:
                    if o[0] != "err":
                        return "%s attribute of type %s arity %d accepted the value %s" % ("dense" if A["dense"] else "sparse", A["t"], A["k"], op[3])
                    return None
                if o != ["ok"]:
                    return "%s attribute of type %s arity %d answered %s to the value %s" % ("dense" if A["dense"] else "sparse", A["t"], A["k"], o, op[3])
                A["m"][key] = row
                A["keys"].add(key)
                A.get("wt", set()).discard(key)
                return None
            e = self.expected_row(A, key)
            if nm == "update":
                if A["k"] == 1:
                    return None if o[0] == "err" else "item assignment on a scalar entry answered %s" % (o,)
                self.refs.append(("vec", op[1], A["uid"], key))
                c = op[3]
                if not (0 <= c < A["k"]):
                    return None if o[0] == "err" else "item assignment at component %d of %d answered %s" % (c, A["k"], o)
                if not representable(op[4], A["t"]):
                    return None if o[0] == "err" else "item assignment of an unrepresentable int answered %s" % (o,)
                if o != ["ok"]:
                    return "attr[%d][%d] = x answered %s" % (key, c, o)
                written = key in A["keys"]
                if not written and not A["dense"]:
                    # known finding inplace-update-of-unset-entry (replayed separately on every run): the sparse read of
                    # a never-written entry is a detached copy; no expectation is kept for this entry
                    A["m"][key] = UNKNOWN
                    return None
                if e != UNKNOWN:
                    new = list(e)
                    new[c] = cast_comp(op[4], A["t"])
                    A["m"][key] = new
                return None
            if o[0] != "val":
                return "%s read at %d answered %s, expected %s" % ("dense" if A["dense"] else "sparse", key, o, e)
            if A["k"] > 1:
                self.refs.append(("vec", op[1], A["uid"], key))
            if o[2] != (A["k"] > 1):
                return "read of an arity-%d attribute returned a %s" % (A["k"], "vector" if o[2] else "scalar")
            if e == UNKNOWN:
                A["m"][key] = o[1]
                return None
            d = differs(o[1], e)
            if d:
                extra = self.lost(A, key)
                return "%s read at %d answered %s, expected %s%s%s" % ("dense" if A["dense"] else "sparse", key, o[1], e, d, extra)
            return None
        if nm in ("mut", "mutarr"):
            if op[1] >= len(self.refs):
                return None if o == ["err", "noref"] else "update of a missing reference answered %s" % (o,)
            rf = self.refs[op[1]]
            if (nm == "mut") != (rf[0] == "vec"):
                return None if o == ["err", "badref"] else "update through the wrong kind of reference answered %s" % (o,)
            if o[0] != "snap":
                return "in-place update answered %s" % (o,)
            if nm == "mut":
                _, a, uid, key = rf
            else:
                _, a, uid = rf
                key = op[2]
            if a in self.attrs and self.attrs[a]["uid"] == uid and not (0 <= key < self.n):
                self.attrs[a]["m"][key] = UNKNOWN      # the updated entry itself is outside the snapshot
            skip = (a, uid, key)
            if nm == "mutarr" and a in self.attrs and self.attrs[a]["uid"] == uid and not self.attrs[a]["dense"]:
                skip = None                            # a sparse export is detached: nothing may change
            return self.snapshot_check(o[1], skip=skip, what="after the in-place update of the value read at attribute %d entry %d" % (a, key))
        if nm == "snap":
            if o[0] != "snap":
                return "snapshot answered %s" % (o,)
            return self.snapshot_check(o[1])
        if nm in ("append", "extend_list", "extend_other", "extend_self", "extend_bad", "clear_all", "extend_list_bad"):
            if nm == "extend_bad" or (nm == "extend_list_bad" and self.corner):
                # an operand form the property does not name (numpy array, range, generator, mapping, None, a corner list
                # with an item that cannot be unpacked): EITHER it is refused - any exception - and nothing changes, OR it is
                # taken and the container grew by some k >= 0 with every attribute aligned (old values intact and defaults
                # at the new indices are checked by every later read / export / snapshot)
                if o[0] == "growerr":
                    if o[2] != self.n:
                        m = self.lens_check(o[3], "after the refused append")
                        return "a refused append changed the container length from %d to %d" % (self.n, o[2]) + ("; " + m if m else "")
                    return self.lens_check(o[3], "after a refused append")
                if o[0] == "grow":
                    if o[1] < self.n:
                        return "an append shrank the container from %d to %d elements" % (self.n, o[1])
                    self.n = o[1]
                    return self.lens_check(o[2], "after appending an operand of a form the property does not name (accepted)")
                return "appending answered %s" % (o,)
            if nm == "clear_all":
                self.n = 0
                self.attrs = {}
            else:
                self.n += {"append": 1, "extend_list": op[1] if nm == "extend_list" else 0,
                           "extend_other": op[1] if nm == "extend_other" else 0, "extend_self": self.n,
                           "extend_list_bad": (op[1] + 1) if nm == "extend_list_bad" else 0}[nm]
            if o[0] != "grow":
                if o[0] == "growerr":
                    m = self.lens_check(o[3], "after %s failed with %s (container length now %d)" % (nm, o[1], o[2]))
                    return "%s failed with %s" % (nm, o[1]) + ("; " + m if m else "")
                return "%s answered %s" % (nm, o)
            if o[1] != self.n:
                return "%s: container has %d elements, expected %d" % (nm, o[1], self.n)
            return self.lens_check(o[2], "after " + nm)
        if nm == "clen":
            return None if o == ["nat", self.n] else "len(container) answered %s, expected %d" % (o, self.n)
        return "unknown op %s" % nm


def oracle(case, obs):
    orc = Oracle(corner=case.get("cont") == "corner")
    for k, (op, o) in enumerate(zip(case["ops"], obs)):
        if o[0] == "other":
            return "op %d %s: unexpected outcome %s" % (k, op, o[1])
        m = orc.step(op, o)
        if m:
            return "op %d %s: %s" % (k, op, m)
    return None


def classify(msg):
    for key, pat in (("string-longer-than-fixed-width", "longer than the fixed width"),
                     ("inplace-update-of-unset-entry", "never-written entry was lost"),
                     ("refused-append-half-done", "refused append changed the container length"),
                     ("dense-index-equals-size", "expected OutOfBoundsError"),
                     ("shared-default-object", "after the in-place update"),
                     ("container-iadd-container", "extend_other failed"),
                     ("container-iadd-self", "extend_self"),
                     ("export-shape", "both storages export shape alike"),
                     ("accepted-malformed-value", "accepted the value"),
                     ("vector-default-read", "read of an arity"),
                     ("alignment", "not aligned")):
        if pat in msg:
            return key
    return "other"


# ====================================================================== shrinking
def shrink_ops(ops, fails_many, deadline=None):
    """delta debugging on an op list; fails_many(list of candidate op lists) -> list of bool (one driver run per round)"""
    import time
    cur = list(ops)
    n = 2
    while len(cur) >= 2:
        if deadline is not None and time.time() > deadline:
            break
        chunk = max(1, len(cur) // n)
        cands = [cur[:i] + cur[i + chunk:] for i in range(0, len(cur), chunk)]
        cands = [c for c in cands if c]
        res = fails_many(cands) if cands else []
        hit = next((c for c, r in zip(cands, res) if r), None)
        if hit is not None:
            cur = hit
            n = max(n - 1, 2)
        else:
            if chunk == 1:
                break
            n = min(n * 2, len(cur))
    return cur


def run_one(case):
    return core.run_impl(DRIVER, {"cases": [case]}, timeout=120)["obs"][0]


# ====================================================================== Gallina encoders
class Interner:
    """strings travel to Coq as the list of their character codes"""

    def code(self, s):
        return zlist([ord(ch) for ch in s])


def comp_term(c, I):
    k = c[0]
    if k == "b":
        return "(CB %s)" % coq_bool(c[1])
    if k == "i":
        return "(CI %s)" % zlit(c[1])
    if k == "f":
        return "(CF %s)" % zlit(c[1])
    if k == "c":
        return "(CC %s %s)" % (zlit(c[1]), zlit(c[2]))
    if k == "s":
        return "(CS %s)" % I.code(c[1])
    return "CX"


def value_term(v, I):
    k = v[0]
    if k == "scal":
        return "(VScal %s)" % comp_term(v[1], I)
    if k in ("list", "tuple", "gen"):
        return "(VSeq %s)" % coq_list([comp_term(c, I) for c in v[1]])
    if k == "nparr":
        # numpy arrays of complex / str hand out numpy scalar types outside the attribute vocabulary
        return "(VSeq %s)" % coq_list(["CX" if c[0] in "cs" else comp_term(c, I) for c in v[1]])
    if k == "str":
        return "(VStr %s)" % I.code(v[1])
    raise ValueError(v)


TYT = {"bool": "TBool", "int": "TInt", "float": "TFloat", "complex": "TComplex", "str": "TString"}
ERR = {"oob": "EOob", "size": "ESize", "type": "EType", "enum": "EEnum", "notiter": "ENotIter", "noattr": "ENoAttr",
       "dflt": "EDflt", "badappend": "EBadAppend", "index": "EIndex", "noref": "ENoRef", "unpack": "EUnpack",
       "notsub": "ENotSub", "badref": "EBadRef", "ambiguous": "EAmbiguous", "shape": "EShape", "overflow": "EOverflow"}


def op_term(op, I):
    nm = op[0]
    if nm == "create":
        return "(Create %s %s %s %s %s)" % (zlit(op[1]), TYT[op[2]], zlit(op[3]), coq_bool(op[4]),
                                            coq_option(op[5], lambda d: comp_term(d, I)))
    if nm in ("delete", "has", "clear_attr", "as_array", "len", "iter"):
        return "(%s %s)" % ({"delete": "Delete", "has": "Has", "clear_attr": "ClearAttr", "as_array": "AsArray",
                             "len": "Len", "iter": "Iter"}[nm], zlit(op[1]))
    if nm == "set":
        return "(SetItem %s %s %s)" % (zlit(op[1]), zlit(op[2]), value_term(op[3], I))
    if nm == "get":
        return "(GetItem %s %s)" % (zlit(op[1]), zlit(op[2]))
    if nm == "mut":
        return "(Mut %d%%nat %s %s)" % (op[1], zlit(op[2]), comp_term(op[3], I))
    if nm == "append":
        return "Append"
    if nm == "extend_list":
        return "(ExtendList %s)" % zlit(op[1])
    if nm == "extend_other":
        return "(ExtendOther %s)" % zlit(op[1])
    if nm == "extend_self":
        return "ExtendSelf"
    if nm == "extend_bad":
        return "ExtendBad"
    if nm == "clear_all":
        return "ClearAll"
    if nm == "clen":
        return "CLen"
    if nm == "snap":
        return "Snap"
    if nm == "update":
        return "(Update %s %s %s %s)" % (zlit(op[1]), zlit(op[2]), zlit(op[3]), comp_term(op[4], I))
    if nm == "mutarr":
        return "(MutArr %d%%nat %s %s %s)" % (op[1], zlit(op[2]), zlit(op[3]), comp_term(op[4], I))
    if nm == "contains":
        return "(Contains %s %s)" % (zlit(op[1]), zlit(op[2]))
    if nm == "extend_list_bad":
        return "(ExtendListBad %s)" % zlit(op[1])
    if nm == "create_sized":
        return "(CreateSized %s %s %s %s %s)" % (zlit(op[1]), TYT[op[2]], zlit(op[3]),
                                                 coq_option(op[4], lambda d: comp_term(d, I)), zlit(op[5]))
    if nm == "register":
        rows = coq_list([coq_list([comp_term(c, I) for c in r]) for r in op[4]])
        return "(Register %s %s %s %s %s)" % (zlit(op[1]), TYT[op[2]], zlit(op[3]), rows,
                                              coq_option(op[5], lambda d: comp_term(d, I)))
    raise ValueError(op)


def row_term(r, I):
    return coq_list([comp_term(c, I) for c in r])


def err_term(k):
    return ERR.get(k.split(":")[0] if k.startswith("other:IndexError") else k, None)


def obs_term(o, I):
    k = o[0]
    if k == "ok":
        return "OOk"
    if k == "err":
        e = ERR.get(o[1])
        return "(OErr %s)" % e if e else "OOther"
    if k == "val":
        return "(OVal %s %s)" % (row_term(o[1], I), coq_bool(o[2]))
    if k == "rows":
        return "(ORows %s)" % coq_list([row_term(r, I) for r in o[1]])
    if k == "keys":
        return "(OKeys %s)" % zlist(o[1])
    if k == "nat":
        return "(ONat %s)" % zlit(o[1])
    if k == "bool":
        return "(OBool %s)" % coq_bool(o[1])
    if k == "grow":
        return "(OGrow %s %s)" % (zlit(o[1]), coq_list(["(%s, %s)" % (zlit(a), zlit(l)) for a, l in o[2]]))
    if k == "growerr":
        e = ERR.get(o[1])
        if not e:
            return "OOther"
        return "(OGrowErr %s %s %s)" % (e, zlit(o[2]), coq_list(["(%s, %s)" % (zlit(a), zlit(l)) for a, l in o[3]]))
    if k == "snap":
        def r(x):
            if x and isinstance(x[0], list):
                return "(Some %s)" % row_term(x, I)
            if not x:
                return "(Some [])"
            return "None"
        return "(OSnap %s)" % coq_list(["(%s, %s)" % (zlit(a), coq_list([r(x) for x in rows])) for a, rows in o[1]])
    return "OOther"


def case_term(case, obs):
    I = Interner()
    items = []
    n_prev = 0
    for op, o in zip(case["ops"], obs):
        if op[0] in ("extend_bad", "extend_list_bad") and o[0] == "grow" and (op[0] == "extend_bad" or case["cont"] == "corner"):
            # an operand form the property does not name was TAKEN: specified like += list of (new - old) elements
            items.append("((ExtendList %s), %s)" % (zlit(o[1] - n_prev), obs_term(o, I)))
        elif op[0] in ("extend_bad", "extend_list_bad") and o[0] == "growerr" and (op[0] == "extend_bad" or case["cont"] == "corner"):
            # ... or REFUSED: any exception class, nothing changes
            items.append("(%s, %s)" % (op_term(op, I), obs_term(["growerr", "badappend" if op[0] == "extend_bad" else "unpack", o[2], o[3]], I)))
        else:
            items.append("(%s, %s)" % (op_term(op, I), obs_term(o, I)))
        if o[0] in ("grow", "growerr"):
            n_prev = o[1] if o[0] == "grow" else o[2]
        if op[0] == "as_array":
            # the same export seen through its shape and dtype (a second, state-neutral model operation)
            if o[0] == "rows" and len(o) >= 4:
                w = "(OShape %s %s)" % (zlist(o[2]), TYT.get(o[3], "TBool") if o[3] in TYT else "TBool")
                if o[3] not in TYT:
                    w = "OOther"
            else:
                w = obs_term(o, I)
            items.append("((ExportShape %s), %s)" % (zlit(op[1]), w))
    return "(%s, %s)" % (coq_bool(case["cont"] == "corner"), coq_list(items))


# ====================================================================== running the implementation
def run_all(cases, timeout=900):
    nsh = max(1, min(core.NCPU, len(cases) // 100))
    payloads = [{"cases": cases[i::nsh]} for i in range(nsh)]
    results = core.run_impl_parallel(DRIVER, payloads, timeout=timeout)
    obs = [None] * len(cases)
    for i, r in enumerate(results):
        for j, o in zip(range(i, len(cases), nsh), r["obs"]):
            obs[j] = o
    return obs


def small_exhaustive():
    """all histories of length <= 4 over a small alphabet on a 2-element container (support only, thorough tier)"""
    base = [["append"], ["append"], ["create", 0, "float", 2, False, None], ["create", 1, "float", 2, True, None]]
    v1 = ["list", [["f", 8, "py"], ["i", 2, "py"]]]
    alpha = []
    for a in (0, 1):
        alpha += [["set", a, 0, v1], ["get", a, 0], ["get", a, 1], ["get", a, 2], ["as_array", a], ["clear_attr", a]]
    alpha += [["append"], ["extend_other", 1, False], ["mut", 0, 0, ["f", 44, "py"]], ["mut", 1, 1, ["f", 44, "py"]], ["snap"]]
    out = []
    for L in range(1, 4):
        for h in itertools.product(alpha, repeat=L):
            out.append({"cont": "data", "ops": base + [list(o) for o in h], "lock": False})
    return out


def _pair_differs(i, j):
    return lambda ob: ob[i][:3] != ob[j][:3]


WITNESSES = [
    # (key, case, still-fails predicate on the observations, what)
    ("inplace-update-of-unset-entry",
     {"cont": "data", "lock": True, "ops": [["append"], ["create", 0, "float", 2, False, None], ["create", 1, "float", 2, True, None],
                                            ["update", 0, 0, 0, ["f", 40, "py"]], ["update", 1, 0, 0, ["f", 40, "py"]],
                                            ["get", 0, 0], ["get", 1, 0]]},
     _pair_differs(5, 6),
     "attr[0][0] = 5. on a never-written entry of a vector attribute: the dense storage stores the update (its read is a "
     "view), the sparse storage loses it (its read is a detached copy of the default): sparse and dense answer differently"),
    ("string-longer-than-fixed-width",
     {"cont": "data", "lock": True, "ops": [["append"], ["create", 0, "str", 1, False, ["s", LONG]], ["create", 1, "str", 1, True, ["s", LONG]],
                                            ["get", 0, 0], ["get", 1, 0]]},
     _pair_differs(3, 4),
     "a 35-character custom default of a scalar string attribute: the dense storage (dtype '<U32') keeps 32 characters, the "
     "sparse read of a never-written entry returns all 35"),
    ("string-longer-than-fixed-width",
     {"cont": "data", "lock": True, "ops": [["append"], ["create", 0, "str", 1, False, None], ["create", 1, "str", 1, True, None],
                                            ["set", 0, 0, ["str", LONG]], ["set", 1, 0, ["str", LONG]], ["get", 0, 0], ["get", 1, 0]]},
     lambda ob: ob[5][:2] != ["val", [["s", LONG]]] or ob[6][:2] != ["val", [["s", LONG]]],
     "a 35-character string written to a string attribute is read back cut to 32 characters (both storages, numpy dtype '<U32')"),
    ("sparse-accepts-out-of-container-index",
     {"cont": "data", "lock": True, "ops": [["append"], ["create", 0, "int", 1, False, None], ["create", 1, "int", 1, True, None],
                                            ["set", 0, 5, ["scal", ["i", 7, "py"]]], ["set", 1, 5, ["scal", ["i", 7, "py"]]]]},
     _pair_differs(3, 4),
     "a[5] = 7 on a 1-element container: the dense storage answers OutOfBoundsError, the sparse storage accepts the write "
     "(the value becomes entry 5 once the container has grown that far)"),
    ("sparse-accepts-out-of-container-index",
     {"cont": "data", "lock": False, "ops": [["append"], ["append"], ["create", 0, "int", 1, False, None],
                                             ["set", 0, -1, ["scal", ["i", 5, "py"]]], ["as_array", 0], ["get", 0, 1]]},
     lambda ob: ob[4][0] == "rows" and ob[5][0] == "val" and ob[4][1][1] != ob[5][1],
     "a[-1] = 5 on a sparse attribute of a 2-element container: as_array exports 5 at row 1 while a[1] reads the default"),
]


def replay_witnesses(ctx):
    """the _refuted theorems' witnesses, run on the implementation: reported as KNOWN-FINDING while they still fail"""
    for key, case, fails, what in WITNESSES:
        ob = run_one(case)
        still = bool(fails(ob))
        ctx.extra.setdefault("witness_replays", []).append({"key": key, "still_fails": still, "observed_tail": ob[-3:]})
        if not still:
            ctx.log("known finding %s: a witness no longer fails on the implementation (repaired?); the _refuted theorem "
                    "describes the regenerated model" % key)
            ctx.notes.append("witness of %s no longer fails: %s" % (key, what))
        else:
            ctx.violation(what, {"case": case, "observed": ob, "class": key}, key=key)


def run(ctx):
    quick = ctx.tier == "quick"
    n_hist = 1600 if quick else 60000
    ctx.rule = ("histories of <=40 operations (+ up to 6 initial appends) over one DataContainer / CornerDataContainer with up to "
                "3 logical attributes, each present as a sparse and a dense twin driven in lock-step (85%) or singly; all five "
                "value types, arity 1-3, custom / implicit / ill-typed defaults; values: python and numpy scalars, lists, tuples, "
                "numpy arrays, strings, wrong arity, wrong component type at any position, unsupported types; keys in range, == size, "
                "negative, beyond. Non-trivial = at least one accepted write and one growth or in-place update; distinct = by "
                "canonical JSON of the history")
    ctx.assumptions += [
        "floats are multiples of 1/8 of small magnitude (exact in binary32/64) and are compared exactly",
        "strings are at most 26 characters except in ~3% of the histories, which use a 35-character one (known finding "
        "string-longer-than-fixed-width; the model cuts at the generated string_width exactly like numpy)",
        "in-place update payloads have a type the attribute itself accepts; numpy uint8 is not generated",
        "writes to a sparse attribute at indices outside the container are modelled (dict semantics) but the property is only "
        "claimed for element indices",
    ]
    ctx.regen(sys.modules[__name__])
    b = ctx.build_props(extra_targets=["theories/C05/Run.vo"])
    ctx.hygiene(["Lib", "C05"])

    corpus = []
    cdir = os.path.join(core.ROOT, "corpus", "C05")
    if os.path.isdir(cdir):
        for f in sorted(os.listdir(cdir)):
            if f.endswith(".json"):
                corpus.append(json.load(open(os.path.join(cdir, f))))
    cases = [c for c in corpus] + [gen_history(ctx.rng) for _ in range(n_hist)]
    if not quick:
        cases += small_exhaustive()
    obs = run_all(cases)

    for c, o in zip(cases, obs):
        ctx.count("container=" + c["cont"])
        ctx.count("mode=" + ("lock-step twins" if c.get("lock") else "single"))
        ctx.count("len<=%d" % (10 * ((len(c["ops"]) + 9) // 10)))
        acc = grow = mut = 0
        for op, ob in zip(c["ops"], o):
            ctx.count("op " + op[0])
            if op[0] == "create":
                ctx.count("create type=%s arity=%d %s %s" % (op[2], op[3], "dense" if op[4] else "sparse",
                                                             "implicit-default" if op[5] is None else "custom-default"))
            if ob[0] in ("err", "growerr"):
                ctx.count("answer err " + ob[1])
            if ob[0] == "other":
                ctx.count("answer other")
            if op[0] == "set" and ob == ["ok"]:
                acc += 1
            if op[0] in ("append", "extend_list", "extend_other", "extend_self") and ob[0] == "grow":
                grow += 1
            if op[0] == "mut" and ob[0] == "snap":
                mut += 1
        ctx.case_seen([c["cont"], c["ops"]], nontrivial=acc >= 1 and (grow + mut) >= 1,
                      sample={"history": c["ops"][:10], "observed": o[:10]})

    # 1. oracle on every case = search for a concrete failing input
    fails = []
    for idx, (c, o) in enumerate(zip(cases, obs)):
        m = oracle(c, o)
        if m:
            fails.append((idx, m))
    classes = {}
    for idx, msg in fails:
        classes.setdefault(classify(msg), []).append((idx, msg))
    unknown = sorted(k for k in classes if not ctx.known(k))
    ctx.obligation("oracle: every observation of the implementation satisfies the dict-with-default / bounds / no-aliasing / "
                   "alignment semantics (failures of listed known-finding classes apart)", "oracle-on-implementation",
                   not unknown, "%d failing cases; classes: %s" % (len(fails), {k: len(v) for k, v in classes.items()}))

    replay_witnesses(ctx)

    # 2. kernel-checked correspondence
    bad = []
    if b["model_ok"]:
        bad = ctx.run_cases("hist", HEADER, [case_term(c, o) for c, o in zip(cases, obs)], "check_case",
                            case_type="(bool * list (op * obs))", shard=200)
    else:
        ctx.obligation("correspondence batches", "correspondence", False, "model does not compile")

    # 3. verdicts: every failing case is classified; classes that are not listed known findings first
    for key in unknown + sorted(k for k in classes if ctx.known(k)):
        if ctx.known(key):
            ctx.report_known(key, ctx.known(key)["what"])
            continue
        idx, msg = min(classes[key], key=lambda im: len(cases[im[0]]["ops"]))
        case = cases[idx]

        def f(cands, case=case, key=key):
            ccs = [dict(case, ops=o_) for o_ in cands]
            obs_ = core.run_impl(DRIVER, {"cases": ccs}, timeout=300)["obs"]
            out = []
            for cc_, ob_ in zip(ccs, obs_):
                m2 = oracle(cc_, ob_)
                out.append(m2 is not None and classify(m2) == key)
            return out
        import time
        small = shrink_ops(case["ops"], f, deadline=time.time() + 25) if len(ctx.violations) < 4 else case["ops"]
        cc = dict(case, ops=small)
        ob = run_one(cc)
        ctx.violation("%s  [%d failing cases of this class]" % (oracle(cc, ob) or msg, len(classes[key])),
                      {"case": cc, "observed": ob, "class": key}, key=key)
    if bad and not fails:
        ctx.notes.append("model and implementation disagree on cases %s although the oracle accepts the implementation's answers" % bad[:5])
        for i in bad[:3]:
            ctx.log("disagreement on case", i, json.dumps(cases[i]["ops"]), json.dumps(obs[i]))


def replay(ctx, data):
    if "case" not in data:
        print("replay file names no concrete input:", json.dumps(data)[:400])
        return 1
    ob = run_one(data["case"])
    m = oracle(data["case"], ob)
    print("observed:", json.dumps(ob))
    print("FAILS: " + m if m else "passes")
    return 1 if m else 0


if __name__ == "__main__":
    # development helper: oracle only, no Coq
    import random
    rng = random.Random(int(sys.argv[1]) if len(sys.argv) > 1 else 0)
    cs = [gen_history(rng) for _ in range(int(sys.argv[2]) if len(sys.argv) > 2 else 300)]
    obs = run_all(cs)
    seen = {}
    for c, o in zip(cs, obs):
        m = oracle(c, o)
        if m:
            seen.setdefault(classify(m), []).append((c, m))
    for k, v in seen.items():
        print(k, len(v))
        c, m = min(v, key=lambda cm: len(cm[0]["ops"]))
        print("   ", m)
