"""C12 - geometric primitives and boxes obey their algebra, with no side effects."""
import cmath
import json
import math
import os
import sys
from fractions import Fraction as Fr

from .. import core
from ..core import zlit, coq_list, zlist, coq_bool, qlit, float_pair
from ..translate import c12 as tr

META = {
    "property_id": "C12",
    "design_ref": "DESIGN.md section 5, C12",
    "technique": "Coq proof over the reals (box algebra per coordinate, ring/field/nsatz/nra identities for cross, determinants, "
                 "Rodrigues rotation, angles as (cos,sin) pairs, circumcentre, angle reduction, n-th roots; frame theorem for a "
                 "reference-cell semantics of the side-effect events) about definitions REGENERATED from the five anchored files "
                 "on every run by a fail-closed ast translator + kernel-checked correspondence batches on call sequences",
    "level_text": "Machine-checked Coq theorems, for all dimensions / coordinates / angles, about the Gallina definitions that "
                  "vf/translate/c12.py regenerates from aabb.py, geometry.py, rotations.py, vector.py and maths.py on every run "
                  "(each function once, over a bare operations record; theorems over R). FULL: box algebra (projection in the closed "
                  "box and realising the l1/l2/linf distance with minimality, contained => 0, half-open containment, union = least "
                  "box containing both, intersection = overlap, do_intersect <=> overlap extents >= 0 <=> common point, of_points "
                  "tight, pad monotone, wrong dimension raises), cross/det expansions and Lagrange, rotate_2d and Rodrigues rotation "
                  "isometric / fixing the axis, 3-point angle symmetric and in [0,pi] (given atan2's contract), 2D angle "
                  "antisymmetric, cotan * |BAxBC| = BA.BC, circumcentre equidistant and coplanar (whenever the function returns), "
                  "principal_angle / angle_diff congruent mod 2pi and in range, roots^n = c/|c| for the whole returned list, det_2x2 independent of the representation "
                  "(complex / array) of each column, solve_quadratic returns roots, unit_cube; the frame theorem: every function of "
                  "the five files (event table regenerated from the source) leaves argument arrays, other boxes and numpy's error "
                  "register as found on return and on raise, boxes own fresh arrays, and the constructors / classmethods that promise a new "
                  "object return nothing that outlives the call (decorators other than classmethod/staticmethod/property fail closed). PARTIAL (guard named in the theorem): rotation "
                  "additivity for angles that are 0 or outside the code's own 1e-12 cut-off; signed-angle antisymmetry when the "
                  "reference normal is not in the plane of the two vectors. REFUTED: the unguarded signed-angle antisymmetry "
                  "(C12_signed_angle_antisymmetric_refuted, witness V1=(1,0,0), V2=(0,1,0), N=(1,0,0): pi/2 in both orders; known "
                  "findings fn/sangle2|sangle3/antisymmetric/normal-in-plane, replayed from corpus/C12/09 on every run). Also "
                  "proved: the operators and properties & | dim mini maxi x y z xy and the setters are the expected plumbing "
                  "(C12_operators_and_properties, C12_setter_writes_one_component). The model is tied to the running code by kernel-evaluated correspondence batches on call sequences "
                  "(exact through Q, binary64 with tolerance for sqrt).",
    "level_note": "DELIBERATELY LEFT FREE by the oracle (the property text does not fix them): the exception class and message of a "
                  "refused call, and whether a malformed / degenerate input (corners or operands of different sizes, wrong-size point or "
                  "padding, unknown `which`, empty point set, zero vector to normalise, coincident or collinear points for cotan / "
                  "circumcenter / face_basis, parallel lines) is refused at all - only the no-side-effect clauses are judged there; which "
                  "faces of the boundary contains_point counts in; is_empty on zero-extent boxes; +pi versus -pi for a half-turn in "
                  "principal_angle / angle_diff (closed interval); the order in which roots() lists the n roots; every numeric answer "
                  "is compared as a quantity, |x - e| <= 1e-9 (1 + |e|), not as an expression. Still violations: an exception on an "
                  "input that must be answered, a wrong answer, any side effect. (The kernel-checked correspondence stays exact for "
                  "sqrt-free quantities and order-sensitive for roots: a rewrite that changes those is reported as unproved, not as a "
                  "violation.) PROVED: the theorems of Props.v about the regenerated definitions and the regenerated event table. TESTED only: that "
                  "those definitions compute what the running code computes (correspondence batches) and the functions listed in the "
                  "evidence notes as correspondence/oracle-only. The side-effect event table is produced by a FAIL-CLOSED analysis: every "
                  "call must be a function of the five files, an np.seterr* call, a recognised in-place method (rooted at its receiver / "
                  "first argument), or in an explicit whitelist of pure callables and pure methods (PURE_CALLS / PURE_METHODS in "
                  "vf/translate/c12.py) - that whitelist is trusted; unknown names, out= keywords and any other call are a "
                  "TranslationError. Trusted: Coq kernel + vm_compute (PrimFloat evaluated, never reasoned about); the translator (its output is "
                  "also run against the implementation); the harness (generators, driver canonicalisation, np.shares_memory / "
                  "np.geterr observations); atan2/cos/sin/cmath.polar are a numerical shell: angles enter the theorems as the "
                  "(x,y) pair handed to atan2 and as hypotheses on what atan2/polar return; floating-point round-off is outside "
                  "the theorems (inputs are small dyadic rationals so that sqrt-free results are exact).",
}

HEADER = """From Coq Require Import ZArith QArith List Bool String.
From Coq Require Import PrimFloat.
Import ListNotations.
Require Import MV.Lib.FloatLit MV.C12.Model MV.C12.Gen MV.C12.Run.
"""

PI = math.pi
DEFAULT_ERR = ["warn", "warn", "ignore", "warn"]


def gen(ctx):
    return tr.gen()


# ====================================================================== generators
def coord(rng, style):
    if style == "int":
        return rng.randint(-4, 4)
    if style == "tiny":
        return rng.choice([-1, 0, 0, 1])
    return rng.randint(-16, 16) / 4.0


def rand_vec(rng, d, style):
    return [coord(rng, style) for _ in range(d)]


class Prog:
    def __init__(self, rng):
        self.rng = rng
        self.ops = []
        self.na = 0
        self.nb = 0
        self.scale = 1
        self.dims = {}       # array slot -> dim
        self.bdims = {}      # box slot -> dim

    def arr(self, v, dtype=None):
        s = self.na
        self.na += 1
        ints = all(float(x) == int(x) for x in v)
        if dtype is None:
            dtype = "i" if ints and self.rng.random() < 0.2 else "f"
        if dtype == "i":
            v = [int(x) for x in v]
        else:
            v = [float(x) for x in v]
        self.ops.append(["arr", s, v, dtype])
        self.dims[s] = len(v)
        return s

    def newbox(self):
        b = self.nb
        self.nb += 1
        return b


KINDS = ["l2", "l1", "linf"]
# accepted representations of each array argument (see vf/impl/c12_driver.py): the ndarray, a Vec view, a list, a tuple,
# a complex number.  Every argument draws its own representation, independently of the others (mixed calls).
REPS_SEQ = {"cross", "dot", "det2", "det3", "cotan", "angle3", "sangle2", "angle2d", "angle3d", "rot2d", "rotaxis",
            "rot2d2", "rotaxis2"}            # index / convert their arguments: lists and tuples are accepted
REPS_CPLX = {"det2"}                          # Union[complex, np.ndarray]


def optd(op):
    """the trailing call-form dict of an op ({} when absent)"""
    return op[-1] if isinstance(op[-1], dict) else {}


def opcore(op):
    return op[:-1] if isinstance(op[-1], dict) else op


def draw_form(rng, value, default):
    """how an optional argument is passed: omitted (only when it has its default value), positionally, by keyword"""
    return rng.choice(["o", "p", "k"]) if value == default else rng.choice(["p", "k"])


def draw_srep(rng, x, kinds="fni3m"):
    """representation of one scalar argument: python float / int, np.float64, np.int64, np.float32"""
    ch = [c for c in kinds if c in "fn"]
    if float(x) == int(x):
        ch += [c for c in kinds if c in "im"]
    if "3" in kinds and abs(float(x)) < 2 ** 20:
        ch.append("3")
    return rng.choice(ch or ["f"])


def draw_reps(rng, name, n):
    out = []
    for _ in range(n):
        choices = ["a", "v", "v"]
        if name in REPS_SEQ:
            choices += ["l", "t"]
        if name in REPS_CPLX:
            choices += ["c", "c", "c"]
        out.append(rng.choice(choices))
    return out


def box_rep(rng, n=1):
    return "".join(rng.choice(["a", "v", "l", "t"]) for _ in range(n))


ERRMODES = [["warn", "warn", "ignore", "warn"], ["ignore", "ignore", "ignore", "ignore"], ["warn", "warn", "warn", "warn"],
            ["ignore", "warn", "ignore", "ignore"], ["print", "ignore", "ignore", "warn"]]


def gen_box_prog(rng):
    P = Prog(rng)
    d = rng.choice([1, 2, 2, 3, 3, 3, 4, 5])
    style = rng.choice(["int", "dyadic", "dyadic", "tiny"])
    # the box algebra is scale-free: a fraction of the programs lives at 2^40 or at 2^-24
    P.scale = rng.choice([1, 1, 1, 1, 1, 1, 2.0 ** 40, 2.0 ** -24])
    if P.scale != 1:
        _arr = P.arr
        P.arr = lambda v, dtype=None: _arr([x * P.scale for x in v], "f")
    if rng.random() < 0.3:
        P.ops.append(["seterr", rng.choice(ERRMODES)])
    boxes = []
    nbox = rng.choice([1, 2, 2, 3])
    for _ in range(nbox):
        r = rng.random()
        a, b = rand_vec(rng, d, style), rand_vec(rng, d, style)
        if r < 0.70:
            lo = [min(x, y) for x, y in zip(a, b)]
            hi = [max(x, y) for x, y in zip(a, b)]
        elif r < 0.80:
            lo, hi = a, list(a)                      # point box
        elif r < 0.92:
            lo, hi = a, b                            # possibly inverted (empty) in some dimension
        else:
            lo, hi = a, rand_vec(rng, rng.choice([x for x in (1, 2, 3, 4) if x != d] or [d + 1]), style)   # malformed
        sa, sb = P.arr(lo), P.arr(hi)
        nb = P.newbox()
        P.ops.append(["box", nb, sa, sb, box_rep(rng, 2)])
        if len(lo) == len(hi):
            boxes.append(nb)
            P.bdims[nb] = d
            if rng.random() < 0.3 and P.ops[-3][3] == "f":
                # the caller goes on using its corner array: the box must not follow
                P.ops.append(["setcomp", sa, rng.randrange(d), float(rng.choice([7, -3, 0.5])) * P.scale])
                P.ops.append(["span", nb])
    if not boxes:
        return P
    if rng.random() < 0.35:
        n = rng.choice([1, 2, 3, 5])
        pts = [P.arr(rand_vec(rng, d, style)) for _ in range(n)]
        if rng.random() < 0.06:
            pts = []
        nb = P.newbox()
        pd = rng.choice([0, 0, 0, 0.5, 1, -0.25])
        P.ops.append(["ofpts", nb, pts, pd, rng.choice(["a", "l", "v"]),
                      {"form": draw_form(rng, pd, 0), "sreps": [draw_srep(rng, pd)]}])
        if pts:
            boxes.append(nb)
            P.bdims[nb] = d
    npts = rng.choice([1, 2, 3])
    pts = []
    for _ in range(npts):
        r = rng.random()
        if r < 0.08:
            pts.append(P.arr(rand_vec(rng, rng.choice([x for x in (1, 2, 3, 4, 5) if x != d]), style)))   # wrong dimension
        else:
            pts.append(P.arr(rand_vec(rng, d, style)))
    for _ in range(rng.choice([3, 5, 8, 12])):
        r = rng.random()
        b = rng.choice(boxes)
        s = rng.choice(pts)
        if r < 0.13:
            P.ops.append(["contains", b, s, box_rep(rng)])
        elif r < 0.30:
            P.ops.append(["project", b, s, box_rep(rng)])
        elif r < 0.52:
            w = rng.choice(KINDS) if rng.random() > 0.05 else rng.choice(["l3", "L2", ""])
            P.ops.append(["distance", b, s, w, box_rep(rng), {"form": draw_form(rng, w, "l2")}])
        elif r < 0.60:
            nb = P.newbox()
            P.ops.append(["union", nb, b, rng.choice(boxes)])
            boxes.append(nb)
        elif r < 0.69:
            nb = P.newbox()
            P.ops.append(["inter", nb, b, rng.choice(boxes)])
            boxes.append(nb)
        elif r < 0.79:
            P.ops.append(["do_intersect", b, rng.choice(boxes)])
        elif r < 0.81:
            P.ops.append([rng.choice(["is_empty", "dim", "mini", "maxi"]), b])
        elif r < 0.83:
            nb = P.newbox()
            P.ops.append([rng.choice(["and", "or"]), nb, b, rng.choice(boxes)])
            boxes.append(nb)
        elif r < 0.89:
            # the returned array is the caller's: writing into it must not reach the box, and a second call gives a new one
            k2 = rng.choice(["span", "center"])
            if rng.random() < 0.5:
                P.ops.append([k2, b])
            else:
                slot = P.na
                P.na += 1
                P.dims[slot] = d
                P.ops.append([k2, b, {"store": slot}])
                P.ops.append(["setcomp", slot, rng.randrange(d), float(rng.choice([9, -2, 0.25])) * P.scale])
                P.ops.append([k2, b])
        elif r < 0.94:
            pv_ = rng.choice([0.5, 1.0, 0.0, -1.0, 0.25, 2.0])
            P.ops.append(["pad_s", b, pv_, {"sreps": [rng.choice(["f", "n"])]}])
        else:
            pv = P.arr([rng.choice([0, 1, -1, 0.5, 2]) for _ in range(d if rng.random() > 0.1 else d + 1)])
            P.ops.append(["pad_v", b, pv, box_rep(rng)])
    # the classmethod constructors
    if rng.random() < 0.25:
        nb = P.newbox()
        cen = rng.random() < 0.5
        P.ops.append(["unit_cube", nb, d, cen, {"form": draw_form(rng, cen, False),
                                                "sreps": [rng.choice(["i", "m"]), rng.choice(["B", "b", "i"])]}])
        P.bdims[nb] = d
        P.ops.append([rng.choice(["contains", "project"]), nb, rng.choice(pts), box_rep(rng)])
        if rng.random() < 0.5:
            P.ops.append(["do_intersect", nb, rng.choice(boxes)])
    if rng.random() < 0.1:
        P.ops.append(["infinite", P.newbox(), d])
    if d == 3 and rng.random() < 0.3:
        nb = P.newbox()
        pd = rng.choice([0, 0, 0.5, 1])
        P.ops.append(["of_mesh", nb, [P.arr(rand_vec(rng, 3, style), "f") for _ in range(rng.choice([1, 2, 4]))], pd,
                      {"form": draw_form(rng, pd, 0), "sreps": [draw_srep(rng, pd)]}])
    # TWINS: every call that returns a box, repeated with the same arguments, must return an object sharing nothing with
    # the first one: the first result is then modified in place (pad) and the second one looked at again
    makers = [(j, o) for j, o in enumerate(P.ops) if o[0] in ("box", "ofpts", "union", "inter", "and", "or", "unit_cube", "infinite", "of_mesh")]
    if makers and rng.random() < 0.5:
        j, o = rng.choice(makers)
        twin = list(o)
        twin[1] = P.newbox()
        ok = (o[0] != "box" or P.dims.get(o[2]) == P.dims.get(o[3])) and (o[0] != "ofpts" or len(o[2]) > 0)
        P.ops.append(twin)
        if ok and o[0] != "infinite":
            first, second = o[1], twin[1]
            P.ops.append(["pad_s", first, rng.choice([0.5, 1.0, 0.25])])
            P.ops.append(["span", second])
            P.ops.append(["pad_s", second, rng.choice([0.5, 2.0])])
            P.ops.append(["span", first])
            if rng.random() < 0.5:
                third = list(o)
                third[1] = P.newbox()
                P.ops.append(third)              # a call made AFTER the in-place modification
                P.ops.append(["span", third[1]])
    return P


def vec3(rng, style, kind="any"):
    if kind == "zero":
        return [0, 0, 0]
    return rand_vec(rng, 3, style)


ANGLES = [k / 8.0 for k in range(-40, 41)] + [0.0, 2.0 ** -45, -2.0 ** -45, 6.25, 3.125, 100.5, -77.75]


SCALE_FREE_R = [0.03, 0.09, 0.13, 0.2, 0.25, 0.3, 0.4, 0.5, 0.53, 0.65]      # cross/dot, norms, normalized, det, cotan, angles, circum


def gen_vec_prog(rng):
    P = Prog(rng)
    style = rng.choice(["int", "dyadic", "tiny"])
    P.scale = rng.choice([1, 1, 1, 1, 1, 1, 1, 2.0 ** 20])          # a fraction of the scale-free primitives at 2^20
    if P.scale != 1:
        _arr = P.arr
        P.arr = lambda v, dtype=None: _arr([x * P.scale for x in v], "f")
    if rng.random() < 0.3:
        P.ops.append(["seterr", rng.choice(ERRMODES)])
    for _ in range(rng.choice([3, 5, 8, 10])):
        r = rng.random() if P.scale == 1 else rng.choice(SCALE_FREE_R)
        deg = rng.random()

        def V():
            if deg < 0.08:
                return P.arr([0, 0, 0])
            return P.arr(vec3(rng, style))

        def V2():
            if deg < 0.08:
                return P.arr([0, 0])
            return P.arr(rand_vec(rng, 2, style))

        def fn(name, args, which=None, sc=()):
            o_ = ["fn", name, list(args), which, list(sc), draw_reps(rng, name, len(args))]
            extra = {}
            if which is not None and name in ("norm", "vnorm", "distance", "normalized"):
                extra["form"] = draw_form(rng, which, "l2")
            if sc and name in ("rot2d", "rotaxis", "sign0", "sign", "principal", "angle_diff", "solve_quadratic"):
                extra["sreps"] = [draw_srep(rng, x, "fni3" if name in ("rot2d", "rotaxis") else "fnim") for x in sc]
            if name == "roots":
                extra["sreps"] = ["f", "f", rng.choice(["i", "m"])]
                extra["form"] = rng.choice(["p", "k"])
            if extra:
                o_.append(extra)
            P.ops.append(o_)
        if r < 0.07:
            a, b = V(), V()
            fn("cross", [a, b])
            fn("dot", [a, b])
        elif r < 0.11:
            d = rng.choice([1, 2, 3, 4, 5])
            a = P.arr(rand_vec(rng, d, style))
            w = rng.choice(KINDS) if rng.random() > 0.06 else "l0"
            fn(rng.choice(["norm", "vnorm"]) if w in KINDS else "norm", [a], w)
        elif r < 0.15:
            d = rng.choice([1, 2, 3, 4])
            fn("distance", [P.arr(rand_vec(rng, d, style)), P.arr(rand_vec(rng, d, style))], rng.choice(KINDS))
        elif r < 0.23:
            d = rng.choice([1, 2, 3, 3, 4])
            v = rand_vec(rng, d, style) if deg > 0.15 else [0] * d
            fn("normalized", [P.arr(v)], rng.choice(KINDS))
        elif r < 0.28:
            a, b = V2(), V2()
            fn("det2", [a, b])
            fn("det2", [b, a])
            fn("det3", [V(), V(), V()])
        elif r < 0.36:
            a, b, c = V(), V(), V()
            if deg > 0.9:
                c = a
            fn("cotan", [a, b, c])
        elif r < 0.44:
            a, b, c = V(), V(), V()
            fn("angle3", [a, b, c])
            fn("angle3", [c, b, a])
        elif r < 0.52:
            a, b, n = V(), V(), V()
            if deg > 0.85:
                b = P.arr([(-x if x else 0) / P.scale for x in P.ops[-3][2]]) if P.ops[-3][0] == "arr" else b     # opposite vectors
            fn("sangle2", [a, b, n])
            fn("sangle2", [b, a, n])
        elif r < 0.55:
            a, b, c, n = V(), V(), V(), V()
            fn("sangle3", [a, b, c, n])
            fn("sangle3", [c, b, a, n])
        elif r < 0.60:
            a, b = V2(), V2()
            fn("angle2d", [a, b])
            fn("angle2d", [b, a])
            a3, b3 = V(), V()
            fn("angle3d", [a3, b3])
            fn("angle3d", [b3, a3])
        elif r < 0.70:
            a, b, c = V(), V(), V()
            if deg > 0.88:
                # collinear points
                pa, pb = P.ops[-3][2], P.ops[-2][2]
                c = P.arr([((2 * y - x) or 0) / P.scale for x, y in zip(pa, pb)])
            fn("circum", [a, b, c])
            if rng.random() < 0.4:
                fn("face_basis", [a, b, c])
            if rng.random() < 0.3:
                fn("tri_area", [a, b, c])
        elif r < 0.74:
            p1, d1, p2, d2 = V2(), V2(), V2(), V2()
            if deg > 0.8:
                d2 = d1                                  # parallel lines
            fn("line2", [p1, d1, p2, d2])
            fn("tri_area2d", [p1, d1, p2])
        elif r < 0.77:
            p, n, o_ = V(), V(), V()
            fn("plane", [p, n, o_])
        elif r < 0.82:
            v = V2()
            a, b = rng.choice(ANGLES), rng.choice(ANGLES)
            fn("rot2d", [v], None, [a])
            fn("rot2d2", [v], None, [a, b])
        elif r < 0.93:
            x, ax = V(), V()
            a, b = rng.choice(ANGLES), rng.choice(ANGLES)
            fn("rotaxis", [x, ax], None, [a])
            fn("rotaxis", [ax, ax], None, [a])
            if rng.random() < 0.5:
                fn("rotaxis2", [x, ax], None, [a, b])
        elif r < 0.95:
            fn("sign0", [], None, [rng.choice([-2, -0.5, 0, 0.25, 3])])
            fn("sign", [], None, [rng.choice([-2, -0.5, 0, 0.25, 3])])
        elif r < 0.98:
            a = rng.choice([k / 8.0 for k in range(-200, 201)] + [1000.5, -512.25, 0.0]
                           + [PI, -PI, 3 * PI, -3 * PI, 2 * PI, PI / 2, 5 * PI] * 6)      # half-turns: +pi and -pi are both admissible
            fn("principal", [], None, [a])
            fn("angle_diff", [], None, [a, rng.choice(ANGLES)])
        else:
            re, im = rng.randint(-3, 3), rng.randint(-3, 3)
            if re == 0 and im == 0 and rng.random() < 0.8:
                re = 1
            sc_ = rng.choice([1, 1, 0.5, 2.0 ** -30, 2.0 ** 30])
            fn("roots", [], None, [re * sc_, im * sc_, rng.randint(1, 8), rng.choice([1, 0, -1])])
        # the remaining primitives of geometry.py / maths.py / vector.py
        r2 = rng.random() if P.scale == 1 else 1.0
        if r2 < 0.05:
            fn("quad_area", [V(), V(), V(), V()])
        elif r2 < 0.10:
            fn("aspect_ratio", [V(), V(), V()])
        elif r2 < 0.16:
            a, b = V2(), V2()
            if deg > 0.85:
                b = a
            fn("dist_seg2d", [V2(), a, b])
        elif r2 < 0.21:
            A_ = rng.choice([0, 1, 1, 2, -1, 0.5])
            fn("solve_quadratic", [], None, [A_, rng.randint(-4, 4), rng.randint(-4, 4)])
        elif r2 < 0.25:
            fn("outer", [P.arr(rand_vec(rng, rng.choice([1, 2, 3]), style)), P.arr(rand_vec(rng, rng.choice([1, 2, 3]), style))])
        elif r2 < 0.29:
            fn("axis_rot_from_z", [V()])
        elif r2 < 0.33:
            v = rand_vec(rng, rng.choice([1, 2, 3, 4]), "int")
            if all(x == 0 for x in v):
                v[0] = 1
            wk = rng.choice(KINDS)
            P.ops.append(["normalize", P.arr(v, "f"), wk, {"form": draw_form(rng, wk, "l2")}])
        elif r2 < 0.46 and r2 >= 0.40:
            # the coordinate properties of Vec: getters, and the documented in-place setters
            sl = P.arr(rand_vec(rng, 3, style), "f")
            c_ = rng.choice(["x", "y", "z"])
            P.ops.append(["getc", sl, rng.choice(["x", "y", "z", "xy"])])
            P.ops.append(["vecset", sl, c_, float(rng.choice([5, -2, 0.25])) * P.scale])
            P.ops.append(["getc", sl, c_])
        elif r2 < 0.40:
            # a Vec constructor called twice: the results share nothing; write into the first, look at the second
            nm = rng.choice(["zeros", "X", "Y", "Z", "random"])
            n = rng.choice([1, 2, 3, 4]) if nm in ("zeros", "random") else 3
            sa, sb = P.na, P.na + 1
            P.na += 2
            P.dims[sa] = P.dims[sb] = n
            P.ops.append(["vec_ctor", nm, n, sa, sb])
            P.ops.append(["setcomp", sa, rng.randrange(n), float(rng.choice([2, -1, 0.5]))])
            P.ops.append(["fn", "vnorm", [sb], "l2", [], ["a"]])
            if n == 3 and nm != "random":
                P.ops.append(["fn", "cross", [sa, sb], None, [], draw_reps(rng, "cross", 2)])
    return P


# ====================================================================== encoding to Gallina
FN = {"cross": "FCross", "dot": "FDot", "vdot": "FVDot", "norm": "FNorm", "vnorm": "FVNorm", "distance": "FDistance",
      "normalized": "FNormalized", "det2": "FDet2", "det3": "FDet3", "cotan": "FCotan", "angle3": "FAngle3",
      "sangle2": "FSAngle2", "sangle3": "FSAngle3", "angle2d": "FAngle2D", "angle3d": "FAngle3D", "circum": "FCircum",
      "face_basis": "FFaceBasis", "line2": "FLine2", "plane": "FPlane", "tri_area": "FTriArea",
      "tri_area2d": "FTriArea2D", "rot2d": "FRot2D", "rotaxis": "FRotAxis", "rot2d2": "FRot2D2", "rotaxis2": "FRotAxis2",
      "quad_area": "FQuadArea", "aspect_ratio": "FAspect", "dist_seg2d": "FDistSeg", "solve_quadratic": "FSolveQuad",
      "outer": "FOuter", "axis_rot_from_z": "FAxisRotZ",
      "sign0": "FSign0", "sign": "FSign", "principal": "FPrincipal", "angle_diff": "FAngleDiff", "roots": "FRoots"}
EXACT_FN = {"cross", "dot", "vdot", "det2", "det3", "tri_area2d", "sign0", "sign"}
KIND = {"l2": "L2", "l1": "L1", "linf": "Linf"}
EXN = {"dim": "IncompatibleDimension", "fpe": "FloatingPoint", "badarg": "BadArgument", "exc": "PlainException",
       "nonederef": "NoneDeref"}


def q(x):
    return qlit(Fr(x))


def qvec(v):
    return coq_list([q(x) for x in v])


def unfloat(x):
    if x == "nan":
        return float("nan")
    if x == "inf":
        return float("inf")
    if x == "-inf":
        return float("-inf")
    return float(x)


def fl(x):
    return float_pair(unfloat(x))


def fvec(v):
    return coq_list([fl(x) for x in v])


def finite(v):
    return all(not isinstance(x, str) for x in v)


def op_is_exact(op):
    k = op[0]
    if k == "fn":
        if op[1] in EXACT_FN:
            return True
        if op[1] in ("norm", "vnorm", "distance"):
            return op[3] in ("l1", "linf")
        return False
    if k == "distance":
        return op[3] in ("l1", "linf")
    return True


def opt_term(present, term):
    return "(Some %s)" % term if present else "None"


def op_term(op, ob):
    od = optd(op)
    op = opcore(op)
    given = od.get("form", "k") != "o"
    k = op[0]
    if k == "arr":
        return "(OArr %s %s)" % (zlit(op[1]), qvec(op[2]))
    if k == "seterr":
        return "OSetErr"
    if k == "box":
        return "(OBox %s %s %s)" % (zlit(op[1]), zlit(op[2]), zlit(op[3]))
    if k == "ofpts":
        return "(OOfPts %s %s %s)" % (zlit(op[1]), zlist(op[2]), opt_term(given, q(op[3])))
    if k == "pad_s":
        return "(OPadS %s %s)" % (zlit(op[1]), q(op[2]))
    if k == "pad_v":
        return "(OPadV %s %s)" % (zlit(op[1]), zlit(op[2]))
    if k in ("contains", "project"):
        return "(%s %s %s)" % ("OContains" if k == "contains" else "OProject", zlit(op[1]), zlit(op[2]))
    if k == "distance":
        return "(ODistance %s %s %s)" % (zlit(op[1]), zlit(op[2]), opt_term(given, KIND.get(op[3], "KBad")))
    if k in ("union", "inter"):
        return "(%s %s %s %s)" % ("OUnion" if k == "union" else "OInter", zlit(op[1]), zlit(op[2]), zlit(op[3]))
    if k == "do_intersect":
        return "(ODoInt %s %s)" % (zlit(op[1]), zlit(op[2]))
    if k in ("span", "center") and "store" in od:
        return "(%s %s %s)" % ("OSpanStore" if k == "span" else "OCenterStore", zlit(op[1]), zlit(od["store"]))
    if k in ("is_empty", "span", "center"):
        return "(%s %s)" % ({"is_empty": "OIsEmpty", "span": "OSpan", "center": "OCenter"}[k], zlit(op[1]))
    if k == "unit_cube":
        return "(OUnitCube %s %s %s)" % (zlit(op[1]), zlit(op[2]), opt_term(given, coq_bool(op[3])))
    if k == "infinite":
        return "(OInfinite %s %s)" % (zlit(op[1]), zlit(op[2]))
    if k == "of_mesh":
        return "(OOfMesh %s %s %s)" % (zlit(op[1]), zlist(op[2]), opt_term(given, q(op[3])))
    if k in ("dim", "mini", "maxi"):
        return "(%s %s)" % ({"dim": "ODim", "mini": "OMini", "maxi": "OMaxi"}[k], zlit(op[1]))
    if k in ("and", "or"):
        return "(%s %s %s %s)" % ("OAnd" if k == "and" else "OOr", zlit(op[1]), zlit(op[2]), zlit(op[3]))
    if k == "getc":
        return "(OGetC %s %s)" % (zlit(op[1]), zlit(["x", "y", "z", "xy"].index(op[2])))
    if k == "vecset":
        return "(OVecSet %s %s %s)" % (zlit(op[1]), zlit(["x", "y", "z"].index(op[2])), q(op[3]))
    if k == "vec_ctor":
        code = {"zeros": 0, "X": 1, "Y": 2, "Z": 3}.get(op[1], 9)
        va, vb = (ob["r"][1] if ob["exc"] is None and ob["r"][0] == "vs" else [[], []])
        return "(OVecCtor %s %s %s %s %s %s)" % (zlit(code), zlit(op[2]), zlit(op[3]), zlit(op[4]), qvec(va), qvec(vb))
    if k == "setcomp":
        return "(OSetComp %s %s %s)" % (zlit(op[1]), zlit(op[2]), q(op[3]))
    if k == "normalize":
        after = ob["r"][1] if ob["exc"] is None and ob["r"][0] == "v" and finite(ob["r"][1]) else None
        if after is None:
            return "OSetErr"       # not representable (nan after normalising a zero vector): judged by the oracle only
        return "(ONormalize %s %s %s)" % (zlit(op[1]), opt_term(given, KIND.get(op[2], "KBad")), qvec(after))
    if k == "fn":
        name, args, which, sc = op[1], op[2], op[3], op[4]
        fls = []
        r = ob["r"]
        if name in ("rot2d", "rotaxis") :
            a = float(sc[0])
            fls = [math.cos(a), math.sin(a)]
        elif name in ("rot2d2", "rotaxis2"):
            a, b = float(sc[0]), float(sc[1])
            fls = [math.cos(a), math.sin(a), math.cos(b), math.sin(b), math.cos(a + b), math.sin(a + b)]
        elif name == "roots" and r[0] == "roots":
            fls = [r[2], r[3]]
        kk = "None" if (which is None or not given) else "(Some %s)" % KIND.get(which, "KBad")
        reps = (list(op[5]) if len(op) > 5 and op[5] else []) + ["a"] * len(args)
        return "(OFn %s %s %s %s %s %s)" % (FN[name], zlist(args), kk, coq_list([q(x) for x in sc]),
                                             coq_list([float_pair(x) for x in fls]),
                                             coq_list([coq_bool(c == "c") for c in reps[:len(args)]]))
    raise ValueError(op)


def ill_conditioned(op, A):
    """collinear / coincident inputs of the sqrt-normalising primitives: the float pipeline's answer there
    (an exception or round-off garbage) is not determined by the algebra"""
    if op[0] != "fn" or op[1] not in ("circum", "face_basis", "cotan"):
        return False
    a = [A[s] for s in op[2]]
    if op[1] == "cotan":
        u, v = fsub(a[0], a[1]), fsub(a[2], a[1])
        if all(x == 0 for x in u) or all(x == 0 for x in v):
            return False            # normalising a zero vector raises, deterministically
    else:
        u, v = fsub(a[1], a[0]), fsub(a[2], a[0])
        if all(x == 0 for x in u):
            return False
    n = fcross(u, v)
    return fdot(n, n) == 0


def robs_term(op, ob, skip=False):
    if skip or op[0] == "infinite" or (op[0] == "fn" and op[1] == "axis_rot_from_z" and ob["exc"] is None):
        return "RSkip"
    if op[0] == "vec_ctor" and ob["exc"] is None and ob["r"][0] == "vs":
        return "(RVQ %s)" % qvec(ob["r"][1][0] + ob["r"][1][1])
    if op[0] == "normalize":
        if ob["exc"] is None and ob["r"][0] == "v" and finite(ob["r"][1]):
            return "(RVF %s)" % fvec(ob["r"][1])
        return "RSkip"
    if ob["exc"] is not None:
        return "RRaised" if ob["exc"] == "raised" else "ROther"
    r = ob["r"]
    exact = op_is_exact(op)
    t = r[0]
    if t == "none":
        return "RNone"
    if t == "b":
        return "(RBool %s)" % coq_bool(r[1])
    if t == "s":
        if exact and not isinstance(r[1], str):
            return "(RQ %s)" % q(r[1])
        return "(RF %s)" % fl(r[1])
    if t == "v":
        if exact and finite(r[1]):
            return "(RVQ %s)" % qvec(r[1])
        return "(RVF %s)" % fvec(r[1])
    if t == "vs":
        return "(RVsF %s)" % coq_list([fvec(v) for v in r[1]])
    if t == "box":
        if finite(r[1]) and finite(r[2]):
            return "(RBoxQ %s %s)" % (qvec(r[1]), qvec(r[2]))
        return "ROther"
    if t == "ang":
        return "(RAng %s %s)" % (float_pair(r[1]), float_pair(r[2]))
    if t == "roots":
        return "(RRoots %s)" % coq_list(["(%s, %s, %s)" % (float_pair(z[0]), float_pair(z[1]), float_pair(z[2])) for z in r[1]])
    return "ROther"


def obs_term(op, ob, skip=False):
    bc = coq_list(["(%s, (%s, %s))" % (zlit(b[0]), qvec(b[1]), qvec(b[2])) for b in ob["boxchg"]
                   if finite(b[1]) and finite(b[2])])
    nchg = len(ob["arrchg"])
    if op[0] == "normalize" and not (ob["exc"] is None and ob["r"][0] == "v" and finite(ob["r"][1])):
        nchg = 0            # encoded as a no-op (see op_term)
    return "(mkobs %s %s %s %s %s)" % (robs_term(op, ob, skip), coq_bool(ob["err_same"]), zlit(nchg), bc,
                                       zlit(len(ob["alias"])))


def case_terms_skips(prog, obs):
    """the calls of a program whose answer is exempt from the model comparison (RSkip / encoded as a no-op)"""
    A = {}
    out = []
    for o, w in zip(prog["ops"], obs):
        if o[0] == "arr":
            A[o[1]] = frs(o[2])
            continue
        if robs_term(o, w, ill_conditioned(o, A)) == "RSkip":
            out.append(o)
    return out


def case_term(prog, obs):
    A = {}
    items = []
    for o, w in zip(prog["ops"], obs):
        if o[0] == "arr":
            A[o[1]] = frs(o[2])
        items.append("(%s, %s)" % (op_term(o, w), obs_term(o, w, ill_conditioned(o, A))))
    return coq_list(items)


# ====================================================================== the independent oracle
TOL = 1e-9


def close(a, b, tol=TOL):
    a, b = float(a), float(b)
    return abs(a - b) <= tol * (1 + abs(b))


def fdot(a, b):
    return sum(x * y for x, y in zip(a, b))


def fcross(a, b):
    return [a[1] * b[2] - a[2] * b[1], a[2] * b[0] - a[0] * b[2], a[0] * b[1] - a[1] * b[0]]


def fsub(a, b):
    return [x - y for x, y in zip(a, b)]


def frs(v):
    return [Fr(x) for x in v]


def ang_cong(t1, t2, tol=1e-9):
    """t1 = t2 (mod 2 pi)"""
    return abs(math.sin((t1 - t2) / 2.0)) <= tol


def oracle_prog(prog, obs):
    """The property sentence restated on what the implementation returned.  Returns [(op index, class key, message)]."""
    fails = []
    A, B = {}, {}          # shadow state in exact rationals
    ops = prog["ops"]

    def bad(i, key, msg):
        fails.append((i, key, msg))

    for i, (op, ob) in enumerate(zip(ops, obs)):
        k = op[0]
        if k == "arr":
            A[op[1]] = frs(op[2])
            continue
        if k == "seterr":
            continue
        if k == "vecset":
            op = ["setcomp", op[1], ["x", "y", "z"].index(op[2]), op[3]]
            k = "setcomp"
        if k == "setcomp":
            others = [c for c in ob["arrchg"] if c[0] != op[1]] + list(ob["boxchg"])
            if others:
                bad(i, "effects/shared-buffer", "the caller wrote one component of array %d and %s changed too: a constructor handed out a shared buffer"
                    % (op[1], [c[0] for c in others]))
            if ob["alias"]:
                bad(i, "effects/alias", "after %s: %s share memory" % (k, ob["alias"][:4]))
            v = list(A[op[1]])
            v[int(op[2])] = Fr(op[3])
            A[op[1]] = v
            continue
        name = op[1] if k == "fn" else k
        exc = ob["exc"]
        r = ob["r"]
        if exc is not None and exc.startswith("harness"):
            continue
        # ---------------- no side effects, on return and on raise
        if not ob["err_same"]:
            bad(i, "effects/err-register/" + name, "numpy's floating-point error configuration was %s before the call and %s after (%s)"
                % (ob["err"][0] if ob.get("err") else "?", ob["err"][1] if ob.get("err") else "?", "raised " + exc if exc else "returned"))
        own = {op[1]} if k == "normalize" else set()
        if [c for c in ob["arrchg"] if c[0] not in own]:
            bad(i, "effects/argument-array/" + name, "caller array(s) %s changed by the call: now %s" % ([c[0] for c in ob["arrchg"]], [c[1] for c in ob["arrchg"]]))
        if ob["alias"]:
            bad(i, "effects/alias", "after %s: objects that must be distinct share memory (box corner ~ caller array / other box, or two constructor results): %s" % (name, ob["alias"][:4]))
        allowed = {op[1]} if k in ("pad_s", "pad_v") and exc is None else set()
        for c in ob["boxchg"]:
            if c[0] not in allowed:
                bad(i, "effects/other-box/" + name, "box %d changed by a call that is not documented to modify it" % c[0])
        # ---------------- algebra.  A call whose INPUT is malformed / degenerate may be refused: any exception class and
        # message is accepted there and no answer is judged (the property only asks that nothing else changes, checked
        # above).  On every other input an exception is a violation, and so is a wrong answer.
        try:
            refusable = refusable_input(op, A, B)
        except KeyError:
            refusable = True
        if not refusable:
            if exc is not None:
                bad(i, "raise/valid-input/" + name, "%s raised (%s) on an input that must be answered: %s"
                    % (name, ob.get("exc_class"), json.dumps(opcore(op))[:160]))
            elif r[0] == "other":
                bad(i, "result/shape/" + name, "%s returned %s" % (name, r[1]))
            else:
                try:
                    oracle_op(i, op, ob, A, B, ops, obs, bad)
                except KeyError:
                    pass
        # shadow update
        if exc is None and k in ("span", "center") and "store" in optd(op) and r[0] == "v" and finite(r[1]):
            A[optd(op)["store"]] = frs(r[1])
        if exc is None:
            if k in ("box", "ofpts", "union", "inter", "and", "or", "unit_cube", "of_mesh") and r[0] == "box" and finite(r[1]) and finite(r[2]):
                B[op[1]] = (frs(r[1]), frs(r[2]))
        for c in ob["boxchg"]:
            if finite(c[1]) and finite(c[2]):
                B[c[0]] = (frs(c[1]), frs(c[2]))
        for c in ob["arrchg"]:
            if isinstance(c[0], int) and finite(c[1]):
                A[c[0]] = frs(c[1])
    return fails


def norm_exact(v, which):
    if which == "l1":
        return sum(abs(x) for x in v)
    if which == "linf":
        return max(abs(x) for x in v) if v else None
    return None


def refusable_input(op, A, B):
    """decided from the INPUT alone (never from what the implementation does): may this call be refused?"""
    o = opcore(op)
    k = o[0]
    if k == "box":
        return len(A[o[2]]) != len(A[o[3]])
    if k == "ofpts":
        pts = [A[s] for s in o[2]]
        return not pts or len({len(p_) for p_ in pts}) != 1
    if k == "pad_v":
        return len(A[o[2]]) != len(B[o[1]][0])
    if k in ("contains", "project", "distance"):
        if len(A[o[2]]) != len(B[o[1]][0]):
            return True
        return k == "distance" and o[3] not in KINDS
    if k in ("union", "inter", "do_intersect", "and", "or"):
        return len(B[o[-2]][0]) != len(B[o[-1]][0])
    if k == "normalize":
        return all(x == 0 for x in A[o[1]]) or o[2] not in KINDS
    if k == "fn":
        name, args, which = o[1], o[2], o[3]
        a = [A[s] for s in args]
        if name in ("norm", "vnorm", "distance", "normalized") and which is not None and which not in KINDS:
            return True
        if name == "normalized":
            return bool(a[0]) and all(x == 0 for x in a[0])
        if name == "cotan":
            return all(x == 0 for x in fsub(a[0], a[1])) or all(x == 0 for x in fsub(a[2], a[1]))
        if name in ("circum", "face_basis"):
            n_ = fcross(fsub(a[1], a[0]), fsub(a[2], a[0]))
            return fdot(n_, n_) == 0                       # coincident / collinear points: no circumcentre, no basis
        if name == "line2":
            d1, d2 = a[1], a[3]
            det = d1[0] * d2[1] - d1[1] * d2[0]
            return det * det <= Fr(1, 10 ** 20) * fdot(d1, d1) * fdot(d2, d2)   # (nearly) parallel lines
        if name == "aspect_ratio":
            n_ = fcross(fsub(a[1], a[0]), fsub(a[2], a[0]))
            return fdot(n_, n_) == 0
    return False


def feq(x, e, tol=1e-9):
    """house rule: a quantity, not an expression, is fixed: |x - e| <= 1e-9 (1 + |e|)"""
    if isinstance(x, str):
        return False
    return abs(float(x) - float(e)) <= tol * (1 + abs(float(e)))


def veq(v, e):
    return len(v) == len(e) and all(feq(x, y) for x, y in zip(v, e))


def oracle_op(i, op, ob, A, B, ops, obs, bad):
    k = op[0]
    exc = ob["exc"]
    r = ob["r"]
    if k == "box":
        a, b = A[op[2]], A[op[3]]
        if len(a) != len(b):
            if exc != "exc":
                bad(i, "box/init/dim", "AABB of arrays of sizes %d and %d answered %s" % (len(a), len(b), exc or r))
        elif not veq(r[1], a) or not veq(r[2], b):
            bad(i, "box/init/value", "AABB(%s, %s) is %s" % (a, b, exc or r))
        return
    if k == "ofpts":
        pts = [A[s] for s in op[2]]
        pad = Fr(op[3])
        if not pts:
            if exc != "exc":
                bad(i, "box/of_points/empty", "of_points([]) answered %s" % (exc or r))
            return
        if exc:
            bad(i, "box/of_points/raise", "of_points raised %s" % exc)
            return
        lo, hi = frs(r[1]), frs(r[2])
        d = len(pts[0])
        for j in range(d):
            col = [p[j] for p in pts]
            # tight: every point inside, each bound attained (shifted by the padding)
            if not all(feq(max(lo[j] + pad, x), x) and feq(min(hi[j] - pad, x), x) for x in col) \
                    or not any(feq(lo[j] + pad, x) for x in col) or not any(feq(hi[j] - pad, x) for x in col):
                bad(i, "box/of_points/tight", "box of %s (padding %s) is [%s, %s] in coordinate %d" % (col, pad, lo[j], hi[j], j))
                return
        return
    if k == "dim":
        if not feq(r[1], len(B[op[1]][0])):
            bad(i, "box/dim", "dim = %s" % r[1])
        return
    if k in ("mini", "maxi"):
        if not veq(r[1], B[op[1]][0 if k == "mini" else 1]):
            bad(i, "box/" + k, "%s = %s" % (k, r[1]))
        return
    if k == "getc":
        v = A[op[1]]
        want = v[:2] if op[2] == "xy" else [v["xyz".index(op[2])]]
        got = r[1] if op[2] == "xy" else [r[1]]
        if not veq(got, want):
            bad(i, "fn/vec/" + op[2], "Vec(%s).%s = %s" % (v, op[2], r[1]))
        return
    if k == "vec_ctor":
        if exc or r[0] != "vs":
            bad(i, "fn/vec_ctor/raise", "Vec.%s raised %s" % (op[1], exc))
            return
        v1, v2 = r[1]
        n = int(op[2])
        want = {"zeros": [0] * n, "X": [1, 0, 0], "Y": [0, 1, 0], "Z": [0, 0, 1]}.get(op[1])
        if want is not None and (not veq(v1, want) or not veq(v2, want)):
            bad(i, "fn/vec_ctor/value", "Vec.%s(%s) returned %s and %s" % (op[1], n, v1, v2))
        elif want is None and (len(v1) != n or len(v2) != n or any(not (0 <= x < 1) for x in v1 + v2)):
            bad(i, "fn/vec_ctor/random", "Vec.random(%d) returned %s and %s" % (n, v1, v2))
        A[op[3]], A[op[4]] = frs(v1), frs(v2)
        return
    if k == "unit_cube":
        n, c = int(op[2]), bool(op[3])
        want = ([Fr(-1, 2)] * n, [Fr(1, 2)] * n) if c else ([Fr(0)] * n, [Fr(1)] * n)
        if not veq(r[1], want[0]) or not veq(r[2], want[1]):
            bad(i, "box/unit_cube", "unit_cube(%d, centered=%s) is %s" % (n, c, exc or r))
        return
    if k == "infinite":
        n = int(op[2])
        if exc or r[1] != ["-inf"] * n or r[2] != ["inf"] * n:
            bad(i, "box/infinite", "infinite(%d) is %s" % (n, exc or r))
        return
    if k == "of_mesh":
        pts = [A[s] for s in op[2]]
        pad = Fr(op[3])
        if exc:
            bad(i, "box/of_mesh/raise", "of_mesh raised %s" % exc)
            return
        lo, hi = [float(x) for x in r[1]], [float(x) for x in r[2]]
        for j in range(3):
            col = [float(p[j]) for p in pts]
            if not close(lo[j], min(col) - float(pad)) or not close(hi[j], max(col) + float(pad)):
                bad(i, "box/of_mesh/tight", "box of the mesh vertices %s (padding %s) is [%s, %s] in coordinate %d" % (col, pad, lo[j], hi[j], j))
                return
        return
    if k == "normalize":
        v = A[op[1]]
        if exc:
            bad(i, "fn/normalize/raise", "normalize raised %s" % exc)
            return
        if not finite(r[1]):
            return
        n = [float(x) for x in r[1]]
        which = op[2]
        nn = {"l2": math.sqrt(sum(x * x for x in n)), "l1": sum(abs(x) for x in n), "linf": max([abs(x) for x in n] or [1])}[which]
        if not close(nn, 1.0) or any(not close(x * float(y2), y * float(x2)) for x, x2 in zip(n, v) for y, y2 in zip(n, v)) \
                or any(x * float(x2) < 0 for x, x2 in zip(n, v)):
            bad(i, "fn/normalize/value", "normalize(%s, %s) leaves %s" % (v, which, n))
        return
    if k in ("pad_s", "pad_v"):
        lo, hi = B[op[1]]
        if k == "pad_s":
            p = [Fr(op[2])] * len(lo)
        else:
            p = A[op[2]]
            if len(p) != len(lo):
                if exc != "dim":
                    bad(i, "box/pad/dim", "pad with a vector of the wrong size answered %s" % (exc or r))
                return
        if exc:
            bad(i, "box/pad/raise", "pad raised %s" % exc)
            return
        want = ([a - max(x, 0) for a, x in zip(lo, p)], [a + max(x, 0) for a, x in zip(hi, p)])
        got = [c for c in ob["boxchg"] if c[0] == op[1]]
        now = (frs(got[0][1]), frs(got[0][2])) if got else (lo, hi)
        if not veq(now[0], want[0]) or not veq(now[1], want[1]):
            bad(i, "box/pad/value", "pad(%s) of [%s, %s] gives %s" % (p, lo, hi, now))
        return
    if k in ("contains", "project", "distance"):
        lo, hi = B[op[1]]
        p = A[op[2]]
        if len(p) != len(lo):
            if exc != "dim":
                bad(i, "box/%s/dim" % k, "%s with a point of the wrong size answered %s" % (k, exc or r))
            return
        if k == "distance" and op[3] not in KINDS:
            if exc != "badarg":
                bad(i, "box/distance/badarg", "distance(which=%r) answered %s" % (op[3], exc or r))
            return
        if exc:
            bad(i, "box/%s/raise" % k, "%s raised %s" % (k, exc))
            return
        inside_half_open = all(l <= x < h for l, x, h in zip(lo, p, hi))
        nonempty = all(l <= h for l, h in zip(lo, hi))
        dmin = [max(l - x, x - h, 0) for l, x, h in zip(lo, p, hi)]     # per-coordinate distance to [l, h]
        inside_open = all(l < x < h for l, x, h in zip(lo, p, hi))
        inside_closed = all(l <= x <= h for l, x, h in zip(lo, p, hi))
        if k == "contains":
            # which faces of the boundary belong to the box is left free by the property
            if (inside_open and r[1] is not True) or (not inside_closed and r[1] is not False):
                bad(i, "box/contains", "contains_point(%s) in [%s, %s] answered %s" % (p, lo, hi, r[1]))
            return
        if k == "project":
            qq = frs(r[1])
            if not nonempty:
                return          # the closed box is empty: nothing to lie in
            if not all(feq(max(l, x), x) and feq(min(h, x), x) for l, x, h in zip(lo, qq, hi)):
                bad(i, "box/project/inside", "projection %s of %s is outside the closed box [%s, %s]" % (qq, p, lo, hi))
            elif not veq([abs(x - y) for x, y in zip(p, qq)], dmin):
                bad(i, "box/project/closest", "projection %s of %s onto [%s, %s] is not the closest point" % (qq, p, lo, hi))
            return
        # distance
        which = op[3]
        val = r[1]
        if not nonempty:
            return
        if which == "l2":
            if isinstance(val, str) or not close(float(val) ** 2, float(sum(x * x for x in dmin))):
                bad(i, "box/distance/l2", "l2 distance of %s to [%s, %s] answered %s" % (p, lo, hi, val))
        else:
            if not feq(val, norm_exact(dmin, which)):
                bad(i, "box/distance/" + which, "%s distance of %s to [%s, %s] answered %s" % (which, p, lo, hi, val))
        if inside_closed and not feq(val, 0):
            bad(i, "box/distance/contained", "contained point %s at distance %s" % (p, val))
        return
    if k in ("and", "or"):
        k = "inter" if k == "and" else "union"
    if k in ("union", "inter", "do_intersect"):
        (l1, h1), (l2, h2) = B[op[-2]], B[op[-1]]
        if len(l1) != len(l2):
            if exc != "dim":
                bad(i, "box/%s/dim" % k, "%s of boxes of different dimension answered %s" % (k, exc or r))
            return
        if exc:
            bad(i, "box/%s/raise" % k, "%s raised %s" % (k, exc))
            return
        ov_lo = [max(a, b) for a, b in zip(l1, l2)]
        ov_hi = [min(a, b) for a, b in zip(h1, h2)]
        if k == "union":
            lo, hi = frs(r[1]), frs(r[2])
            if not veq(lo, [min(a, b) for a, b in zip(l1, l2)]) or not veq(hi, [max(a, b) for a, b in zip(h1, h2)]):
                bad(i, "box/union", "union of [%s,%s] and [%s,%s] is [%s,%s]" % (l1, h1, l2, h2, lo, hi))
        elif k == "inter":
            lo, hi = frs(r[1]), frs(r[2])
            if not veq(lo, ov_lo) or not veq(hi, ov_hi):
                bad(i, "box/intersection", "intersection of [%s,%s] and [%s,%s] is [%s,%s]" % (l1, h1, l2, h2, lo, hi))
        else:
            want = all(h - l >= 0 for l, h in zip(ov_lo, ov_hi))
            if r[1] != want:
                e1 = any(a > b for a, b in zip(l1, h1))
                e2 = any(a > b for a, b in zip(l2, h2))
                bad(i, "box/do_intersect/" + ("empty-operand" if (e1 or e2) else "value"),
                    "do_intersect([%s,%s], [%s,%s]) answered %s but the componentwise overlap [%s,%s] has %s extent"
                    % (l1, h1, l2, h2, r[1], ov_lo, ov_hi, "non-negative" if want else "a negative"))
        return
    if k in ("is_empty", "span", "center"):
        lo, hi = B[op[1]]
        if exc:
            bad(i, "box/%s/raise" % k, "%s raised %s" % (k, exc))
        elif k == "is_empty" and ((any(l > h for l, h in zip(lo, hi)) and r[1] is not True)
                                  or (all(l < h for l, h in zip(lo, hi)) and r[1] is not False)):      # zero-extent boxes: free
            bad(i, "box/is_empty", "is_empty([%s,%s]) answered %s" % (lo, hi, r[1]))
        elif k == "span" and not veq(r[1], [h - l for l, h in zip(lo, hi)]):
            bad(i, "box/span", "span([%s,%s]) = %s" % (lo, hi, r[1]))
        elif k == "center" and not veq(r[1], [(h + l) / 2 for l, h in zip(lo, hi)]):
            bad(i, "box/center", "center([%s,%s]) = %s" % (lo, hi, r[1]))
        return
    if k == "fn":
        oracle_fn(i, op, ob, A, ops, obs, bad)


def pair_angle_ok(t, x, y, tol=1e-8):
    """t = atan2(y, x): (cos t, sin t) is the direction of (x, y) (any t when x = y = 0 ... then atan2 gives 0)"""
    m = math.hypot(x, y)
    if m == 0:
        return abs(t) <= tol
    return abs(math.sin(t) * x - math.cos(t) * y) <= tol * m and math.cos(t) * x + math.sin(t) * y >= (1 - tol) * m - 1e-300


def oracle_fn(i, op, ob, A, ops, obs, bad):
    name, args, which, sc = op[1], op[2], op[3], op[4]
    exc, r = ob["exc"], ob["r"]
    a = [A[s] for s in args]
    F = [[float(x) for x in v] for v in a]

    def unexpected():
        bad(i, "fn/%s/raise" % name, "%s%s raised %s" % (name, tuple(a), exc))

    def prev_swapped(perm):
        """observation of the previous call when it is the same primitive on permuted arguments"""
        if i == 0:
            return None
        po, pw = ops[i - 1], obs[i - 1]
        if po[0] == "fn" and po[1] == name and [po[2][j] for j in perm] == args and po[2] != args and pw["exc"] is None \
                and pw["r"][0] == "ang":
            return pw["r"]
        return None

    if name in ("cross", "dot", "vdot", "det2", "det3"):
        if exc:
            return
        if name == "cross":
            c = frs(r[1])
            if not veq(c, fcross(a[0], a[1])):
                bad(i, "fn/cross", "cross(%s, %s) = %s" % (a[0], a[1], c))
            # Lagrange: |a x b|^2 = |a|^2 |b|^2 - (a.b)^2
            elif not feq(fdot(c, c), fdot(a[0], a[0]) * fdot(a[1], a[1]) - fdot(a[0], a[1]) ** 2):
                bad(i, "fn/cross/lagrange", "Lagrange identity fails for %s, %s" % (a[0], a[1]))
        elif name in ("dot", "vdot") and not feq(r[1], fdot(a[0], a[1])):
            bad(i, "fn/dot", "dot(%s, %s) = %s" % (a[0], a[1], r[1]))
        elif name == "det2" and not feq(r[1], a[0][0] * a[1][1] - a[0][1] * a[1][0]):
            reps = op[5] if len(op) > 5 else "?"
            bad(i, "fn/det2", "det_2x2(%s, %s) passed as %s = %s, x1*y2 - y1*x2 = %s" % (a[0], a[1], reps, r[1], a[0][0] * a[1][1] - a[0][1] * a[1][0]))
        elif name == "det3" and not feq(r[1], fdot(a[0], fcross(a[1], a[2]))):
            bad(i, "fn/det3", "det_3x3(%s, %s, %s) = %s" % (a[0], a[1], a[2], r[1]))
        return
    if name in ("norm", "vnorm", "distance"):
        if which not in KINDS:
            if exc != "badarg":
                bad(i, "fn/norm/badarg", "norm(which=%r) answered %s" % (which, exc or r))
            return
        if exc:
            return unexpected()
        v = a[0] if name != "distance" else fsub(a[1], a[0])
        if which == "l2":
            if not close(float(r[1]) ** 2, float(fdot(v, v))):
                bad(i, "fn/norm/l2", "l2 norm of %s = %s" % (v, r[1]))
        elif not feq(r[1], norm_exact(v, which)):
            bad(i, "fn/norm/" + which, "%s norm of %s = %s" % (which, v, r[1]))
        return
    if name == "normalized":
        v = a[0]
        zero = all(x == 0 for x in v)
        if zero and v:
            if exc != "fpe":
                bad(i, "fn/normalized/zero", "normalized(zero vector) answered %s" % (exc or r))
            return
        if exc:
            return unexpected()
        n = [float(x) for x in r[1]]
        nn = {"l2": math.sqrt(sum(x * x for x in n)), "l1": sum(abs(x) for x in n), "linf": max([abs(x) for x in n] or [1])}[which]
        if v and (not close(nn, 1.0) or any(not close(x * float(y2), y * float(x2)) for x, x2 in zip(n, v) for y, y2 in zip(n, v))
                  or any(x * float(x2) < 0 for x, x2 in zip(n, v))):
            bad(i, "fn/normalized/value", "normalized(%s, %s) = %s" % (v, which, n))
        return
    if name == "cotan":
        BA, BC = fsub(a[0], a[1]), fsub(a[2], a[1])
        if all(x == 0 for x in BA) or all(x == 0 for x in BC):
            if exc != "fpe":
                bad(i, "fn/cotan/degenerate", "cotan with coincident points answered %s" % (exc or r))
            return
        if exc:
            return unexpected()
        cr = fcross(BA, BC)
        s2 = fdot(cr, cr)
        if s2 == 0:
            return      # collinear: tangent is 0, no reciprocal
        c = fdot(BA, BC)
        val = r[1]
        # cot * tan = 1 with tan = |BA x BC| / (BA . BC)
        mag = math.sqrt(float(fdot(BA, BA)) * float(fdot(BC, BC)))
        if isinstance(val, str) or abs(float(val) * math.sqrt(float(s2)) - float(c)) > 1e-8 * mag:
            bad(i, "fn/cotan/value", "cotan(%s, %s, %s) = %s" % (a[0], a[1], a[2], val))
        return
    if name in ("angle3", "angle3d", "sangle2", "sangle3", "angle2d"):
        if exc:
            return unexpected()
        t = r[3]
        if name in ("angle3", "angle3d"):
            u, v = (fsub(a[0], a[1]), fsub(a[2], a[1])) if name == "angle3" else (a[0], a[1])
            cr = fcross(u, v)
            s, c = math.sqrt(float(fdot(cr, cr))), float(fdot(u, v))
            if not (-1e-12 <= t <= PI + 1e-12):
                bad(i, "fn/%s/range" % name, "%s = %s is outside [0, pi]" % (name, t))
            elif not pair_angle_ok(t, c, s):
                bad(i, "fn/%s/value" % name, "%s(%s) = %s" % (name, a, t))
            pr = prev_swapped([2, 1, 0] if name == "angle3" else [1, 0])
            if pr is not None and not close(pr[3], t):
                bad(i, "fn/%s/symmetric" % name, "%s is %s one way round and %s the other" % (name, pr[3], t))
        elif name in ("sangle2", "sangle3"):
            if name == "sangle2":
                u, v, n = a
            else:
                u, v, n = fsub(a[0], a[1]), fsub(a[2], a[1]), a[3]
            cr = fcross(u, v)
            sn = fdot(cr, n)
            s, c = math.sqrt(float(fdot(cr, cr))), float(fdot(u, v))
            sg = 1 if sn >= 0 else -1
            if not pair_angle_ok(t, c, sg * s):
                bad(i, "fn/%s/value" % name, "%s(%s) = %s" % (name, a, t))
            pr = prev_swapped([1, 0, 2] if name == "sangle2" else [2, 1, 0, 3])
            # antisymmetric (mod 2 pi) whenever the reference normal orients the pair (or the vectors are collinear)
            if pr is not None and not ang_cong(pr[3], -t):
                if sn != 0 or fdot(cr, cr) == 0:
                    bad(i, "fn/%s/antisymmetric" % name, "%s is %s one way round and %s the other" % (name, pr[3], t))
                else:
                    # the reference normal lies in the plane of the two (non-collinear) vectors: listed known finding
                    bad(i, "fn/%s/antisymmetric/normal-in-plane" % name,
                        "%s%s is %s one way round and %s the other: (V1 x V2).N = 0, sign0(0) = +1 in both orders" % (name, tuple(a), pr[3], t))
        else:
            pr = prev_swapped([1, 0])
            if pr is not None and not ang_cong(pr[3], -t):
                bad(i, "fn/angle2d/antisymmetric", "angle_2vec2D is %s one way round and %s the other" % (pr[3], t))
            z1, z2 = complex(*F[0]), complex(*F[1])
            w = z2 * z1.conjugate()
            if abs(w) > 0 and not ang_cong(t, math.atan2(w.imag, w.real), 1e-8):
                bad(i, "fn/angle2d/value", "angle_2vec2D(%s, %s) = %s" % (a[0], a[1], t))
        return
    if name in ("circum", "face_basis", "tri_area"):
        u, v = fsub(a[1], a[0]), fsub(a[2], a[0])
        n = fcross(u, v)
        degenerate = fdot(n, n) == 0
        if name == "tri_area":
            if exc:
                return unexpected()
            if not close((2 * float(r[1])) ** 2, float(fdot(n, n))):
                bad(i, "fn/tri_area", "triangle_area(%s) = %s" % (a, r[1]))
            return
        if degenerate:
            return          # no circumcentre / face basis exists: an exception or round-off garbage, not judged
        if exc:
            return unexpected()
        if name == "circum":
            P = [float(x) for x in r[1]]
            d = [sum((p - float(x)) ** 2 for p, x in zip(P, pt)) for pt in a]
            off = sum((p - float(x)) * float(m) for p, x, m in zip(P, a[0], n))
            scale = 1 + max(d)
            if not (abs(d[0] - d[1]) <= 1e-8 * scale and abs(d[0] - d[2]) <= 1e-8 * scale):
                bad(i, "fn/circumcenter/equidistant", "circumcenter %s of %s has squared distances %s" % (P, a, d))
            elif abs(off) > 1e-8 * (1 + math.sqrt(float(fdot(n, n)))) * (1 + math.sqrt(max(d))):
                bad(i, "fn/circumcenter/plane", "circumcenter %s of %s is not in the triangle's plane" % (P, a))
        else:
            X, Y, Z = [[float(x) for x in w] for w in r[1]]
            G = [fdot(p, q2) for p in (X, Y, Z) for q2 in (X, Y, Z)]
            I = [1, 0, 0, 0, 1, 0, 0, 0, 1]
            nu = math.sqrt(float(fdot(u, u)))
            nv = math.sqrt(float(fdot(v, v)))
            if any(abs(g - e) > 1e-9 for g, e in zip(G, I)) or any(abs(x) > 1e-9 * (1 + nu) for x in fcross(X, [float(t) for t in u])) \
                    or abs(fdot(Z, [float(t) for t in u])) > 1e-9 * (1 + nu) or abs(fdot(Z, [float(t) for t in v])) > 1e-9 * (1 + nv):
                bad(i, "fn/face_basis", "face_basis(%s) = %s" % (a, r[1]))
        return
    if name == "line2":
        p1, d1, p2, d2 = a
        det = d1[0] * d2[1] - d1[1] * d2[0]
        if exc or r[0] != "v":
            return bad(i, "fn/line2/raise", "intersect_2lines2D answered %s" % (exc or r))
        X = [float(x) for x in r[1]]
        e1 = (X[0] - float(p1[0])) * float(d1[1]) - (X[1] - float(p1[1])) * float(d1[0])
        e2 = (X[0] - float(p2[0])) * float(d2[1]) - (X[1] - float(p2[1])) * float(d2[0])
        if abs(e1) > 1e-8 * 50 or abs(e2) > 1e-8 * 50:
            bad(i, "fn/line2/value", "intersection %s is not on both lines" % X)
        return
    if name == "tri_area2d":
        if exc:
            return unexpected()
        u, v = fsub(a[1], a[0]), fsub(a[2], a[0])
        if not feq(r[1], abs(u[0] * v[1] - u[1] * v[0]) / 2):
            bad(i, "fn/tri_area2d", "triangle_area_2D(%s) = %s" % (a, r[1]))
        return
    if name == "plane":
        if exc:
            return unexpected()
        P, N, O_ = a
        if fdot(N, N) == 0:
            return
        X = [float(x) for x in r[1]]
        off = sum((x - float(o2)) * float(m) for x, o2, m in zip(X, O_, N))
        par = fcross([x - float(p) for x, p in zip(X, P)], [float(m) for m in N])
        if abs(off) > 1e-8 * 100 or any(abs(x) > 1e-8 * 100 for x in par):
            bad(i, "fn/project_to_plane", "project_to_plane(%s) = %s" % (a, X))
        return
    if name in ("rot2d", "rotaxis", "rot2d2", "rotaxis2"):
        x = F[0]
        if name in ("rot2d", "rotaxis"):
            if exc:
                return unexpected()
            y = [float(t) for t in r[1]]
            if not close(fdot(y, y), fdot(x, x), 1e-8):
                bad(i, "fn/%s/isometry" % name, "%s(%s, angle %s) = %s changes the length" % (name, a, sc[0], y))
            elif name == "rotaxis" and args[0] == args[1] and any(abs(p - q2) > 1e-9 * (1 + abs(q2)) for p, q2 in zip(y, x)):
                bad(i, "fn/rotaxis/axis", "rotating the axis %s about itself gives %s" % (x, y))
            elif name == "rot2d":
                ca, sa = math.cos(float(sc[0])), math.sin(float(sc[0]))
                w = [x[0] * ca - x[1] * sa, x[0] * sa + x[1] * ca]
                if any(abs(p - q2) > 1e-9 * (1 + abs(q2)) for p, q2 in zip(y, w)):
                    bad(i, "fn/rot2d/value", "rotate_2d(%s, %s) = %s" % (x, sc[0], y))
        else:
            if exc:
                return unexpected()
            y1, y2 = [[float(t) for t in w] for w in r[1]]
            if any(abs(p - q2) > 1e-8 * (1 + abs(q2)) for p, q2 in zip(y1, y2)):
                bad(i, "fn/%s/additive" % name, "rotating %s by %s then %s gives %s, by the sum %s" % (x, sc[0], sc[1], y1, y2))
        return
    if name == "quad_area":
        if exc:
            return unexpected()
        def ar(p, q2, r2):
            c = fcross(fsub(q2, p), fsub(r2, p))
            return math.sqrt(float(fdot(c, c))) / 2
        want = (ar(a[0], a[1], a[2]) + ar(a[0], a[2], a[3]) + ar(a[1], a[2], a[3]) + ar(a[1], a[3], a[0])) / 2
        if not close(float(r[1]), want, 1e-8):
            bad(i, "fn/quad_area", "quad_area(%s) = %s" % (a, r[1]))
        return
    if name == "aspect_ratio":
        if exc:
            return unexpected()
        ab, bc, ca = (math.sqrt(float(fdot(fsub(p, q2), fsub(p, q2)))) for p, q2 in ((a[0], a[1]), (a[1], a[2]), (a[2], a[0])))
        sp = (ab + bc + ca) / 2
        den = 8 * (sp - ab) * (sp - bc) * (sp - ca)
        if abs(den) < 1e-9 or isinstance(r[1], str):
            return
        if not close(float(r[1]), ab * bc * ca / den, 1e-6):
            bad(i, "fn/aspect_ratio", "aspect_ratio(%s) = %s" % (a, r[1]))
        return
    if name == "dist_seg2d":
        if exc:
            return unexpected()
        Pp, Aa, Bb = a
        sg = fsub(Bb, Aa)
        l2 = fdot(sg, sg)
        if l2 < Fr(1, 10 ** 12):
            pr = Aa
        else:
            t = max(Fr(0), min(Fr(1), fdot(fsub(Pp, Aa), sg) / l2))
            pr = [x + t * y for x, y in zip(Aa, sg)]
        d2 = fdot(fsub(Pp, pr), fsub(Pp, pr))
        if not close(float(r[1]) ** 2, float(d2), 1e-8):
            bad(i, "fn/distance_to_segment2D", "distance_to_segment2D(%s) = %s" % (a, r[1]))
        return
    if name == "solve_quadratic":
        if exc:
            return unexpected()
        qa, qb, qc = (float(x) for x in sc)
        roots = [float(x) for x in r[1]]
        disc = qb * qb - 4 * qa * qc
        if any(abs(qa * x * x + qb * x + qc) > 1e-6 * (1 + abs(x)) ** 2 for x in roots):
            bad(i, "fn/solve_quadratic/root", "solve_quadratic(%s) = %s: not all are roots" % (sc, roots))
        elif qa != 0 and abs(disc) > 1e-9 and len(roots) != (2 if disc > 0 else 0):
            bad(i, "fn/solve_quadratic/count", "solve_quadratic(%s) returned %d roots, discriminant %s" % (sc, len(roots), disc))
        elif qa == 0 and len(roots) != (1 if qb != 0 else 0):
            bad(i, "fn/solve_quadratic/linear", "solve_quadratic(%s) returned %s" % (sc, roots))
        return
    if name == "outer":
        if exc:
            return unexpected()
        want = [[x * y for y in a[1]] for x in a[0]]
        if len(r[1]) != len(want) or any(not veq(row, w_) for row, w_ in zip(r[1], want)):
            bad(i, "fn/outer", "outer(%s, %s) = %s" % (a[0], a[1], r[1]))
        return
    if name == "axis_rot_from_z":
        if exc:
            return unexpected()
        v = F[0]
        ax = [float(x) for x in r[1]]
        cr = [-v[1], v[0], 0.0]                        # (0,0,1) x v
        ncr = math.sqrt(cr[0] ** 2 + cr[1] ** 2)
        ang = math.atan2(ncr, v[2])
        if ncr > 1e-8:
            want = [c / ncr * ang for c in cr]
            if any(abs(p - q2) > 1e-8 for p, q2 in zip(ax, want)):
                bad(i, "fn/axis_rot_from_z", "axis_rot_from_z(%s) = %s" % (v, ax))
        return
    if name in ("sign0", "sign"):
        v = Fr(sc[0])
        want = (1 if v >= 0 else -1) if name == "sign0" else (1 if v > 0 else (-1 if v < 0 else 0))
        if not feq(r[1], want):
            bad(i, "fn/" + name, "%s(%s) = %s" % (name, v, r[1]))
        return
    if name in ("principal", "angle_diff"):
        if exc:
            return unexpected()
        t = float(sc[0]) if name == "principal" else float(sc[0]) - float(sc[1])
        v = float(r[1])
        if not (-PI - 1e-12 <= v <= PI + 1e-12):
            bad(i, "fn/%s/range" % name, "%s(%s) = %s is outside [-pi, pi]" % (name, sc, v))
        elif not ang_cong(v, t, 1e-9 * (1 + abs(t))):
            bad(i, "fn/%s/congruent" % name, "%s(%s) = %s is not congruent modulo 2 pi" % (name, sc, v))
        return
    if name == "roots":
        if exc:
            return unexpected()
        c = complex(float(sc[0]), float(sc[1]))
        n = int(sc[2])
        nz = int(sc[3]) if len(sc) > 3 else -1
        unit = nz != 0                     # documented default: normalize=True
        how = {1: "normalize=True", 0: "normalize=False", -1: "normalize omitted"}[nz]
        rs = [complex(z[0], z[1]) for z in r[1]]
        if len(rs) != n:
            bad(i, "fn/roots/count", "roots(%s, %d, %s) returned %d roots" % (c, n, how, len(rs)))
            return
        m = abs(c)
        if m > 0:
            want = c / m if unit else c
            if any(abs(z ** n - want) > 1e-8 * abs(want) for z in rs):
                bad(i, "fn/roots/power/" + ("normalized" if unit else "unnormalized"),
                    "roots(%s, %d, %s) = %s: some root to the power %d is not %s" % (c, n, how, rs[:3], n, "c/|c|" if unit else "c"))
                return
        rho = 1.0 if unit else None
        if any((abs(abs(z) - 1.0) > 1e-9) if unit else False for z in rs):
            bad(i, "fn/roots/modulus", "roots(%s, %d, %s): a root is not of modulus 1" % (c, n, how))
            return
        if not unit and m == 0:
            if any(z != 0 for z in rs):
                bad(i, "fn/roots/zero", "roots(0, %d, normalize=False) = %s" % (n, rs[:3]))
            return
        # the n roots are pairwise distinct (n distinct n-th roots of one number are the equally spaced ones); the ORDER in
        # which they are listed is left free
        sz = max(abs(z) for z in rs)
        if any(abs(rs[x] - rs[y]) <= 1e-6 * sz for x in range(n) for y in range(x + 1, n)):
            bad(i, "fn/roots/distinct", "roots(%s, %d, %s) are not n distinct roots: %s" % (c, n, how, rs[:4]))
        return


# ====================================================================== flags: every optional parameter at every value
# (function.parameter as enumerated by inspect in the driver) -> the value classes the harness exercises, or the reason why not
FLAG_PLAN = {
    "AABB.distance.which": ["l2", "l1", "linf", "<bad>", "<omitted>"],
    "AABB.of_points.padding": ["0", "pos", "neg", "<omitted>"],
    "AABB.of_mesh.padding": ["0", "pos", "neg", "<omitted>"],
    "AABB.unit_cube.centered": ["True", "False", "<omitted>"],
    "norm.which": ["l2", "l1", "linf", "<bad>", "<omitted>"],
    "distance.which": ["l2", "l1", "linf", "<bad>", "<omitted>"],
    "Vec.norm.which": ["l2", "l1", "linf", "<omitted>"],          # no validation in the method: a bad value gives None
    "Vec.normalize.which": ["l2", "l1", "linf", "<omitted>"],
    "Vec.normalized.which": ["l2", "l1", "linf", "<omitted>"],
    "roots.normalize": ["True", "False", "<omitted>"],
    "match_rotation.symgroup": "exempt: scipy Rotation groups, outside the model (side-effect event table only)",
    "match_rotation.threshold": "exempt: scipy Rotation groups, outside the model (side-effect event table only)",
}
FN_FLAG = {"norm": "norm.which", "vnorm": "Vec.norm.which", "distance": "distance.which", "normalized": "Vec.normalized.which"}


def flag_uses(op):
    """(plan key, value class) exercised by one op"""
    od = optd(op)
    o = opcore(op)
    omitted = od.get("form", "k") == "o"

    def kind(w):
        return "<omitted>" if omitted else (w if w in KINDS else "<bad>")

    def sign(x):
        return "<omitted>" if omitted else ("0" if float(x) == 0 else ("pos" if float(x) > 0 else "neg"))
    k = o[0]
    if k == "distance":
        return [("AABB.distance.which", kind(o[3]))]
    if k == "ofpts":
        return [("AABB.of_points.padding", sign(o[3]))]
    if k == "of_mesh":
        return [("AABB.of_mesh.padding", sign(o[3]))]
    if k == "unit_cube":
        return [("AABB.unit_cube.centered", "<omitted>" if omitted else str(bool(o[3])))]
    if k == "normalize":
        return [("Vec.normalize.which", kind(o[2]))]
    if k == "fn" and o[1] in FN_FLAG and o[3] is not None:
        return [(FN_FLAG[o[1]], kind(o[3]))]
    if k == "fn" and o[1] == "roots":
        nz = int(o[4][3]) if len(o[4]) > 3 else -1
        return [("roots.normalize", {1: "True", 0: "False", -1: "<omitted>"}[nz])]
    return []


def flag_sweep_programs():
    """deterministic programs that exercise every planned value of every flag (so that no flag value depends on the seed);
    roots: pow 1..8 x normalize True / False / omitted x unit, non-unit, tiny, huge and zero inputs"""
    progs = []
    cs = [(1, 0), (-1, 0), (0, 1), (1, 1), (3, -4), (0.5, 0), (2.0 ** -60, 0), (2.0 ** -60, -(2.0 ** -60)), (2.0 ** 60, -(2.0 ** 60)), (0, 0)]
    for (re, im) in cs:
        ops = []
        for n in range(1, 9):
            for nz in (1, 0, -1):
                ops.append(["fn", "roots", [], None, [re, im, n, nz], [],
                            {"sreps": ["f", "f", "im"[n % 2]], "form": "pk"[(n + nz) % 2]}])
        progs.append({"ops": ops})
    # the norm kinds, in every call form, on every function that takes `which`
    ops = [["arr", 0, [3.0, -4.0, 12.0], "f"], ["arr", 1, [1.0, 1.0, 0.0], "f"], ["arr", 2, [0.0, 0.0, 0.0], "f"], ["arr", 3, [2.0, 2.0, 2.0], "f"],
           ["box", 0, 2, 3, "aa"]]
    for w in KINDS + ["l3"]:
        for form in (["o", "p", "k"] if w == "l2" else ["p", "k"]):
            d = {"form": form}
            ops.append(["fn", "norm", [0], w, [], ["a"], d])
            ops.append(["fn", "distance", [0, 1], w, [], ["a", "v"], d])
            ops.append(["distance", 0, 0, w, "a", d])
            if w in KINDS:
                ops.append(["fn", "vnorm", [0], w, [], ["v"], d])
                ops.append(["fn", "normalized", [0], w, [], ["a"], d])
                ops.append(["normalize", len(ops) + 100, w, d])
                ops.insert(-1, ["arr", len(ops) + 100, [1.0, -2.0, 2.0], "f"])
                ops[-1][1] = ops[-2][1]
    progs.append({"ops": ops})
    # paddings and the centered flag
    ops = [["arr", 0, [0.0, 1.0, 2.0], "f"], ["arr", 1, [3.0, -1.0, 0.5], "f"]]
    nb = 0
    for pd in (0, 0.5, -0.25):
        for form in (["o", "p", "k"] if pd == 0 else ["p", "k"]):
            ops.append(["ofpts", nb, [0, 1], pd, "a", {"form": form, "sreps": ["f"]}])
            ops.append(["of_mesh", nb + 1, [0, 1], pd, {"form": form, "sreps": ["f"]}])
            nb += 2
    for cen in (False, True):
        for form in (["o", "p", "k"] if not cen else ["p", "k"]):
            ops.append(["unit_cube", nb, 3, cen, {"form": form, "sreps": ["i", "B"]}])
            nb += 1
    progs.append({"ops": ops})
    return progs


# ====================================================================== shrinking / replay
def run_one(prog):
    return core.run_impl("vf.impl.c12_driver", {"progs": [prog]}, timeout=120)["progs"][0]


def still_fails(prog, key):
    try:
        ob = run_one(prog)
    except Exception:
        return False
    return any(k == key for _, k, _ in oracle_prog(prog, ob))


def op_uses(op):
    """(array slots read, box slots read, box slot defined)"""
    k = op[0]
    if k == "box":
        return [op[2], op[3]], [], op[1]
    if k == "ofpts":
        return list(op[2]), [], op[1]
    if k == "pad_v":
        return [op[2]], [op[1]], None
    if k in ("pad_s", "is_empty", "span", "center"):
        return [], [op[1]], None
    if k in ("contains", "project", "distance"):
        return [op[2]], [op[1]], None
    if k in ("union", "inter", "and", "or"):
        return [], [op[2], op[3]], op[1]
    if k in ("dim", "mini", "maxi"):
        return [], [op[1]], None
    if k in ("getc", "vecset"):
        return [op[1]], [], None
    if k == "do_intersect":
        return [], [op[1], op[2]], None
    if k == "fn":
        return list(op[2]), [], None
    if k == "unit_cube":
        return [], [], op[1]
    if k == "of_mesh":
        return list(op[2]), [], op[1]
    if k == "normalize":
        return [op[1]], [], None
    if k == "setcomp":
        return [op[1]], [], None
    return [], [], None


def slice_prog(ops, i):
    """the calls op i depends on: definitions of its arrays / boxes (and every earlier pad of those boxes, seterr)"""
    need_a, need_b = set(), set()
    a, b, _ = op_uses(ops[i])
    need_a |= set(a)
    need_b |= set(b)
    keep = {i}
    for j in range(i - 1, -1, -1):
        o = ops[j]
        if o[0] == "seterr":
            keep.add(j)
        elif o[0] == "arr":
            if o[1] in need_a:
                keep.add(j)
        elif o[0] == "vec_ctor":
            if o[3] in need_a or o[4] in need_a:
                keep.add(j)
        elif o[0] in ("span", "center") and optd(o).get("store") in need_a:
            keep.add(j)
            need_b.add(o[1])
        elif o[0] in ("setcomp", "vecset"):
            if o[1] in need_a:
                keep.add(j)
        else:
            ua, ub, d = op_uses(o)
            if (d is not None and d in need_b) or (o[0] in ("pad_s", "pad_v") and o[1] in need_b):
                keep.add(j)
                need_a |= set(ua)
                need_b |= set(ub)
    return [ops[j] for j in sorted(keep)]


def shrink(prog, key, budget=25):
    ops = list(prog["ops"])
    sl = slice_prog(ops, len(ops) - 1)
    if len(sl) < len(ops) and still_fails({"ops": sl}, key):
        ops = sl
    changed = True
    while changed and len(ops) > 1 and budget > 0:
        changed = False
        for i in range(len(ops) - 1, -1, -1):
            if budget <= 0:
                break
            cand = ops[:i] + ops[i + 1:]
            budget -= 1
            if cand and still_fails({"ops": cand}, key):
                ops = cand
                changed = True
    return {"ops": ops}


def nontrivial(prog, obs):
    """at least one box query answered on a non-degenerate box, or one primitive that returned a value"""
    for op, ob in zip(prog["ops"], obs):
        if op[0] in ("project", "distance", "contains", "union", "inter", "do_intersect", "pad_s", "pad_v", "normalize") and ob["exc"] is None:
            return True
        if op[0] == "fn" and ob["exc"] is None:
            return True
    return False


# ====================================================================== the check
def run(ctx):
    quick = ctx.tier == "quick"
    n_box = 260 if quick else 5200
    n_vec = 200 if quick else 4000
    ctx.rule = ("call sequences: box programs (dimension 1-5; 1-3 boxes incl. point, inverted/empty and mis-sized ones; points incl. "
                "wrong-dimension ones; 3-12 calls of contains/project/distance(l1,l2,linf,bad)/union/intersection/do_intersect/"
                "is_empty/span/center/pad/of_points) and primitive programs (3-10 groups of calls on 2D/3D vectors incl. zero, "
                "opposite, collinear, parallel; rotations with dyadic angles incl. 0 and 2^-45; angle reduction; roots), "
                "coordinates small integers or quarters, float or int dtype, optionally under a non-default np.seterr. "
                "Non-trivial = at least one call returned a value; distinct = by canonical JSON of the program")
    ctx.assumptions += [
        "inputs are finite and exactly representable (small dyadic rationals); sqrt-free results are compared exactly, "
        "sqrt/division-bearing ones in binary64 with relative tolerance 1e-9",
        "atan2 / cos / sin / cmath.polar are not modelled: an angle is the pair handed to atan2; the implementation's angle "
        "is related to it through (cos, sin) computed on the Python side",
        "ambient np.seterr modes used by the generator never raise (ignore/warn/print)",
    ]
    ctx.notes += [
        "correspondence + oracle only (no theorem): quad_area, aspect_ratio, distance_to_segment2D, of_mesh, Vec.normalize, "
        "Vec.outer, Vec.zeros/X/Y/Z; oracle only (atan2 value / infinite corners / random values): axis_rot_from_z, "
        "AABB.infinite, Vec.random; event table only: match_rotation (scipy), Vec.from_complex, __repr__, __new__",
        "every call that returns a box (AABB, of_points, of_mesh, unit_cube, infinite, union, intersection) and every Vec "
        "constructor (zeros, X, Y, Z, random) is also made twice with the same arguments: the results must share no buffer "
        "(np.shares_memory), the first is modified in place (pad / component write) and the second, and a third made "
        "afterwards, are looked at again",
        "every optional parameter of the five modules is enumerated with inspect on the running code and must be in FLAG_PLAN; a "
        "deterministic sweep exercises every planned value class of every flag (roots: pow 1..8 x normalize True/False/omitted x unit, "
        "non-unit, 2^-60, 2^60 and zero inputs; root^n = c resp. c/|c|, equally spaced); match_rotation's parameters are exempt (scipy)",
        "call forms: every optional argument (which / padding / centered) is omitted, passed positionally or by keyword; the model "
        "resolves an omitted argument with the default extracted from the def line (theorem C12_defaults_documented); scalar "
        "arguments are passed as python float / int, np.float64, np.int64, np.float32, flags as bool / np.bool_ / int; a fraction of "
        "the box programs lives at scale 2^40 or 2^-24 and of the scale-free primitive programs at 2^20; callers keep writing into "
        "arrays they passed to a constructor and into arrays returned by span / center, then repeat the call",
        "every array argument is passed in an independently drawn representation (ndarray / Vec view / list / tuple, complex "
        "for det_2x2) where the primitive accepts it",
        "the event table is a syntactic summary (in-place operators, subscript/attribute stores, known mutating methods, "
        "np.seterr*, out= keywords fail closed); exotic in-place forms would be missed by the table but not by the driver's "
        "before/after comparison of every caller array, box and np.geterr()",
    ]
    ctx.regen(sys.modules[__name__])
    b = ctx.build_props(extra_targets=["theories/C12/Run.vo"])
    ctx.hygiene(["Lib", "C12"])

    progs = []
    cdir = os.path.join(core.ROOT, "corpus", "C12")
    if os.path.isdir(cdir):
        for f in sorted(os.listdir(cdir)):
            if f.endswith(".json"):
                d = json.load(open(os.path.join(cdir, f)))
                progs.append({"ops": d["ops"]})
    progs += flag_sweep_programs()
    ncorpus = len(progs)
    for _ in range(n_box):
        progs.append({"ops": gen_box_prog(ctx.rng).ops})
    for _ in range(n_vec):
        progs.append({"ops": gen_vec_prog(ctx.rng).ops})
    nsh = max(1, min(core.NCPU, len(progs) // 40))
    payloads = [{"progs": progs[i::nsh]} for i in range(nsh)]
    results = core.run_impl_parallel("vf.impl.c12_driver", payloads, timeout=900)
    obs = [None] * len(progs)
    for i, r in enumerate(results):
        for j, o in zip(range(i, len(progs), nsh), r["progs"]):
            obs[j] = o
    ncalls = 0
    for p, o in zip(progs, obs):
        for op, ob in zip(p["ops"], o):
            if op[0] in ("arr", "seterr"):
                continue
            ncalls += 1
            nm = op[1] if op[0] == "fn" else op[0]
            ctx.count("call " + nm)
            if ob["exc"]:
                ctx.count("raised " + str(ob.get("exc_class") or ob["exc"]).split(":")[0])
        ctx.case_seen(p["ops"], nontrivial=nontrivial(p, o),
                      sample={"program": p["ops"][:8], "observed": [w["r"] for w in o[:8]]})
    ctx.extra["calls"] = ncalls
    # every optional parameter of every function of the cone (enumerated with inspect on the running code) is planned, and
    # every planned value class was exercised in this run
    sigs = core.run_impl("vf.impl.c12_driver", {"signatures": True}, timeout=120)["signatures"]
    keys = ["%s.%s" % (q_, p_) for q_, p_, _ in sigs]
    unplanned = [k_ for k_ in keys if k_ not in FLAG_PLAN]
    used = {}
    for p in progs:
        for op in p["ops"]:
            for k_, v_ in flag_uses(op):
                used.setdefault(k_, set()).add(v_)
                ctx.count("flag %s=%s" % (k_, v_))
    missing = ["%s=%s" % (k_, v_) for k_, vs in FLAG_PLAN.items() if isinstance(vs, list) for v_ in vs if v_ not in used.get(k_, set())]
    stale = [k_ for k_ in FLAG_PLAN if k_ not in keys]
    ctx.extra["optional_parameters"] = sigs
    ctx.obligation("every optional parameter found by inspect in the five modules is planned (%d found) and every planned value "
                   "class is exercised" % len(keys), "harness", not unplanned and not missing and not stale,
                   "unplanned: %s; never exercised: %s; planned but absent from the code: %s" % (unplanned, missing, stale))
    ctx.log("%d programs (%d from the corpus), %d calls on the implementation" % (len(progs), ncorpus, ncalls))

    # 1. oracle on every program = the search for a failing input; EVERY failing call is classified
    fails = []
    for idx, (p, o) in enumerate(zip(progs, obs)):
        for (i, key, msg) in oracle_prog(p, o):
            fails.append((idx, i, key, msg))
    unknown = [f for f in fails if not ctx.known(f[2])]
    known = [f for f in fails if ctx.known(f[2])]
    ctx.obligation("oracle: every observed call satisfies the property's algebra and leaves arrays / boxes / error register alone",
                   "oracle-on-implementation", not unknown,
                   "%d failing calls in classes %s (+ %d of listed known findings)"
                   % (len(unknown), sorted({f[2] for f in unknown})[:12], len(known)))

    # cases the harness could not compare (ill-conditioned float inputs, unencodable values) are counted
    nskip = sum(1 for p, o in zip(progs, obs) for t in case_terms_skips(p, o))
    ctx.extra["comparisons_skipped"] = nskip
    ctx.count("comparison skipped (ill-conditioned / not encodable)", nskip)
    ctx.obligation("at most 5%% of the calls are exempt from the model comparison (%d of %d)" % (nskip, ncalls),
                   "harness", ncalls > 0 and nskip <= 0.05 * ncalls, "")

    # 2. kernel-checked correspondence
    bad = []
    if b["model_ok"]:
        terms = [case_term(p, o) for p, o in zip(progs, obs)]
        bad = ctx.run_cases("prog", HEADER, terms, "check_prog", case_type="list (op * obs)", shard=120)
    else:
        ctx.obligation("correspondence batches", "correspondence", False, "model does not compile")

    # 3. verdicts: unknown classes first (shrunk, with replay), then the listed known findings
    reported = set()
    failing_progs = {f[0] for f in fails}
    for idx, i, key, msg in unknown:
        if key in reported:
            continue
        reported.add(key)
        if len(reported) > 5:
            ctx.violation("%s: %s" % (key, msg), {"ops": progs[idx]["ops"][:i + 1], "class": key, "note": "not shrunk"}, key=key)
            continue
        small = shrink({"ops": progs[idx]["ops"][:i + 1]}, key)
        ob = run_one(small)
        msgs = [m for _, k2, m in oracle_prog(small, ob) if k2 == key]
        ctx.violation("%s: %s" % (key, msgs[0] if msgs else msg), {"ops": small["ops"], "observed": ob, "class": key}, key=key)
    for idx, i, key, msg in known:
        ctx.report_known(key, ctx.known(key)["what"])
    if bad:
        unexplained = [i for i in bad if i not in failing_progs]
        for i in unexplained[:3]:
            ctx.log("model/implementation disagree on program", i, json.dumps(progs[i]["ops"]), json.dumps([w["r"] for w in obs[i]]))
        if unexplained:
            ctx.notes.append("model and implementation disagree on programs %s although the oracle accepts the implementation's answers" % unexplained[:8])


def replay(ctx, data):
    if "ops" not in data:
        print("replay file names no concrete input:", json.dumps(data)[:400])
        return 1
    prog = {"ops": data["ops"]}
    ob = run_one(prog)
    for op, w in zip(prog["ops"], ob):
        print(json.dumps(op), "->", json.dumps({k: w[k] for k in ("r", "exc", "err_same", "arrchg", "boxchg", "alias")}))
    fails = oracle_prog(prog, ob)
    for i, key, msg in fails:
        print("FAILS at call %d [%s]: %s" % (i, key, msg))
    if not fails:
        print("passes")
    return 1 if fails else 0
