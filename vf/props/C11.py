"""C11 - k-d tree queries are exact and construction always terminates."""
import json
import os
import sys

from .. import core
from ..core import coq_list
from ..translate import c11 as tr

META = {
    "property_id": "C11",
    "design_ref": "DESIGN.md section 5, C11 (+ Appendix B4)",
    "technique": "Coq proof (termination measure for the breadth-first build; refinement of the flat node array to an "
                 "inductive tree; box distance is a lower bound; 'k best of the visited points' invariant of the pruned "
                 "depth-first search) + translator-regenerated predicates/plumbing + kernel-checked correspondence batches",
    "level_text": "Machine-checked Coq theorems, for every point list, dimension, leaf size >= 1, pivot oracle (any strategy, "
                  "any random choices), query point, k and radius, about an executable model of kdtree.py (after the two "
                  "fix: commits): the build loop ends within 2n+1 iterations, the leaves partition the indices and every "
                  "point lies in its leaf's box, query returns min(k,n) distinct indices in non-decreasing distance none of "
                  "which is farther than any index left out, query_radius returns exactly the indices within the radius. "
                  "Leaf test, split predicate, degenerate-split fallback, axis cycling, box update, box excess, both prune "
                  "predicates, the eviction test, the result order, whether the constructor copies its input, and the PriorityItem comparator / PriorityQueue plumbing are regenerated from the source on every run; the "
                  "loops are tied by kernel-evaluated correspondence batches (whole node array, query answers, and that every "
                  "recorded pivot is one the strategy's generated rule allows: median / median of a <=50 sample / element). Further "
                  "theorems (round 7): the generated split makes progress for ANY pivot (C11_split_progress: both sides non-empty, "
                  "separated by the split value - why fast and random terminate too), every strategy's pivot lies among the leaf's "
                  "coordinates (C11_pivot_within_bounds), no leaf exceeds max_leaf_size (C11_leaf_size_bound), children come after "
                  "their parent in the node array (C11_children_after_parent), the radius answer is a permutation of the filtered "
                  "index range (C11_radius_permutation), k >= n returns every point once, nearest first "
                  "(C11_knn_all_points_when_k_ge_n). Tested only, not proved: the RNG / numpy median themselves (their outputs are "
                  "checked against the rule per case), absence of side effects on the caller's arrays and other queues, binary64 effects. LIMIT: arithmetic is "
                  "exact (integers, squared distances); the implementation orders by binary64 sqrt distances, so points whose true "
                  "distances differ by less than rounding resolution are ties for it (tested, not proved: a rounding class with "
                  "coordinates around 2^20..2^40 is checked by an exact-integer oracle up to 2^-46 relative).",
    "level_note": "Deliberately left free (not constrained by the oracle; compared only through the relation the property fixes): "
                  "which of several equidistant points is returned and in which order ties come; the order of a radius answer; the "
                  "internal layout of the tree (node numbering, axes, split values, boxes, leaf order: compared with the model in the "
                  "correspondence only, never a concrete violation; 'every point lies in its leaf box' is a mechanism obligation); "
                  "exception class and message of any refusal; whether argument forms the text does not name (list / tuple containers, "
                  "keyword arguments, omitted arguments and their default values, other spellings of the strategy, numpy scalars for k / "
                  "leaf size / r, list / tuple / int-array query points) are refused or answered (if answered the answer must be exact); "
                  "types of the returned indices and containers; warnings, logs, extra attributes; repeated calls need not return the "
                  "same tied indices. Constrained beyond the sentence at the coordinator's request: the caller's point array, query "
                  "point and other PriorityQueue objects are not modified. Trusted: Coq kernel + vm_compute; the kdtree/aabb translator; the correspondence harness (generators, "
                  "driver canonicalisation, doubling of coordinates so medians are integral, comparison of squared instead "
                  "of square-rooted distances on small integers); the candidate heap is modelled concretely (heapq sift algorithm copied "
                  "from the C20 model with its proved contract, comparator/plumbing regenerated from priority_queue.py); answers are "
                  "still compared modulo ties (measured: with exact index comparison all quick cases agree too); aliasing between "
                  "PriorityQueue objects is not modelled but tested (ambient queues must stay unchanged); numpy argsort(kind='stable'), median, "
                  "extract and the RNG are observed (pivots recorded), not modelled.",
}

HEADER = """From Coq Require Import ZArith List Bool.
Import ListNotations.
Require Import MV.C11.Ext MV.C11.Gen MV.C11.Model MV.C11.Run.
Open Scope Z_scope.
"""


def gen(ctx):
    return tr.gen()


# ---------------------------------------------------------------------- generators
STYLES = ["uniform", "clustered", "collinear", "axis", "dups", "alldup", "grid", "majority"]


def gen_points(rng, style, n, d):
    R = rng.choice([2, 4, 8])
    if style == "uniform":
        return [[rng.randint(-R, R) for _ in range(d)] for _ in range(n)]
    if style == "clustered":
        cs = [[rng.randint(-8, 8) for _ in range(d)] for _ in range(rng.randint(1, 3))]
        return [[c + rng.randint(-1, 1) for c in rng.choice(cs)] for _ in range(n)]
    if style == "collinear":
        a = [rng.randint(-3, 3) for _ in range(d)]
        u = [rng.randint(-2, 2) for _ in range(d)]
        return [[x + t * y for x, y in zip(a, u)] for t in (rng.randint(-4, 4) for _ in range(n))]
    if style == "axis":  # one or more coordinates constant
        const = [rng.random() < 0.6 for _ in range(d)]
        c0 = [rng.randint(-3, 3) for _ in range(d)]
        return [[c0[a] if const[a] else rng.randint(-R, R) for a in range(d)] for _ in range(n)]
    if style == "dups":
        pool = [[rng.randint(-R, R) for _ in range(d)] for _ in range(max(1, n // 3))]
        return [list(rng.choice(pool)) for _ in range(n)]
    if style == "alldup":
        p = [rng.randint(-R, R) for _ in range(d)]
        return [list(p) for _ in range(n)]
    if style == "majority":  # one point repeated more than half of the time
        p = [rng.randint(-R, R) for _ in range(d)]
        out = [list(p) if rng.random() < 0.7 else [rng.randint(-R, R) for _ in range(d)] for _ in range(n)]
        rng.shuffle(out)
        return out
    # grid
    side = max(1, int(round(n ** (1.0 / d))))
    pts = []
    import itertools
    for c in itertools.product(range(side), repeat=d):
        pts.append(list(c))
    rng.shuffle(pts)
    return pts[:n] if n <= len(pts) else pts


def gen_query_point(rng, pts, d):
    r = rng.random()
    if pts and r < 0.3:
        return [2 * c for c in rng.choice(pts)]                      # on a data point
    if pts and r < 0.55:
        return [2 * c + rng.randint(-3, 3) for c in rng.choice(pts)]  # near a data point (half-integers)
    if r < 0.8:
        return [rng.randint(-18, 18) for _ in range(d)]              # anywhere in the range
    return [rng.choice([-1, 1]) * rng.randint(20, 60) for _ in range(d)]  # far outside


def d2(P, Q):
    """4 * squared distance between integer point P and query q = Q/2."""
    return sum((2 * a - b) ** 2 for a, b in zip(P, Q))


def gen_case(rng, maxn=24):
    d = rng.choice([1, 1, 1, 2, 2, 2, 2, 3, 3, 3, 4, 4, 5])
    prof = rng.random()
    if prof < 0.12:
        n = rng.randint(0, 3)
    elif prof < 0.7:
        n = rng.randint(4, 12)
    else:
        n = rng.randint(13, maxn)
    style = rng.choice(STYLES)
    pts = gen_points(rng, style, n, d)
    n = len(pts)
    # points (and often the query) in a small numpy dtype: coordinates are moved into its range first
    typed = rng.choice(TYPED_CONTAINERS) if pts and rng.random() < 0.25 else None
    if typed:
        lo_, hi_ = TYPED_RANGE[typed]
        if typed == "bool":
            pts = [[c & 1 for c in p] for p in pts]
        else:
            mn = min(c for p in pts for c in p)
            mx = max(c for p in pts for c in p)
            off = (lo_ - mn + rng.choice([0, 0, 3, max(0, hi_ - lo_ - (mx - mn) - 3)])) if lo_ == 0 else rng.choice([0, 0, lo_ - mn, hi_ - mx])
            pts = [[min(hi_, max(lo_, c + off)) for c in p] for p in pts]
    mls = rng.choice([1, 1, 1, 2, 2, 2, 3, 3, 4, 4, 6, 10])
    strategy = rng.choice(["balanced", "balanced", "fast", "random"])
    knn = []
    for _ in range(3):
        Q = gen_query_point(rng, pts, d)
        if typed and rng.random() < 0.6:
            Q = typed_query_point(rng, pts, d, typed)
        k = rng.choice([1, 2, 3, mls, mls + 1, max(1, n - 1), n, n + 1, n + 2, rng.randint(1, n + 2)])
        knn.append([Q, max(1, k)])
    rad = []
    for _ in range(2):
        Q = gen_query_point(rng, pts, d)
        if typed and rng.random() < 0.6:
            Q = typed_query_point(rng, pts, d, typed)
        r = rng.random()
        if r < 0.15:
            m = 0
        elif pts and r < 0.6:
            m = d2(rng.choice(pts), Q) + rng.choice([0, 0, 0, -1, 1])   # a data point exactly on / just off the sphere
            m = max(0, m)
        else:
            m = rng.randint(0, 400)
        rad.append([Q, m])
    case = {"dim": d, "pts": pts, "mls": mls, "strategy": strategy, "seed": rng.randint(0, 2 ** 31 - 1),
            "dtype": "int" if rng.random() < 0.15 else "float", "knn": knn, "rad": rad, "style": style}
    if rng.random() < 0.35:
        case["ambient"] = gen_ambient(rng)
    add_container(rng, case)
    add_scenario(rng, case)
    if typed:
        case["container"] = typed
        case["dtype"] = "float"
        case.pop("scale_exp", None)
        case["qform"] = rng.choice(["typed", "typed", "typed", "array", "list"])
        if case.get("mutate"):
            case["mutate"] = "reverse"
    return case


TYPED_CONTAINERS = ["uint8", "uint8", "uint16", "int8", "int8", "int32", "float32", "bool"]
TYPED_RANGE = {"uint8": (0, 255), "uint16": (0, 65535), "int8": (-128, 127), "int32": (-10 ** 6, 10 ** 6),
               "float32": (-2 ** 20, 2 ** 20), "bool": (0, 1)}


def typed_query_point(rng, pts, d, typed):
    """An integer query position representable in the points' dtype (so that it can be passed in that dtype)."""
    lo_, hi_ = TYPED_RANGE[typed]
    r = rng.random()
    if typed == "bool":
        return [2 * rng.randint(0, 1) for _ in range(d)]
    if r < 0.3:
        return [2 * c for c in rng.choice(pts)]
    if r < 0.7:
        return [2 * min(hi_, max(lo_, c + rng.randint(-6, 6))) for c in rng.choice(pts)]
    span = (lo_, hi_) if typed in ("uint8", "int8") else (max(lo_, -40), min(hi_, 300))
    return [2 * rng.randint(*span) for _ in range(d)]


SPELL = {"balanced": ["balanced", "Balanced", "BALANCED"], "fast": ["fast", "Fast", "FAST"], "random": ["random", "Random", "RANDOM"]}
SCALES = [-1000, -600, -300, -100, -24, 24, 100, 130, 300, 480, 600, 990]


def add_scenario(rng, case):
    """Call forms, spellings, numeric representations, repeated / failing calls, coordinate scale (hardening classes 3-7, 9, 11).
    Half of the cases use only the forms the property text names (ndarray points, array query point, python numbers,
    positional arguments, canonical strategy names): a refusal there is a violation."""
    canonical = rng.random() < 0.5
    if canonical and case.get("container") in ("list", "tuple"):
        case["container"] = "float"
    case["call"] = "pos" if canonical else rng.choice(["pos", "kw", "default"])
    if case["call"] == "default" and rng.random() < 0.5:       # make the defaults themselves occur
        case["mls"] = 10 if rng.random() < 0.5 else case["mls"]
        case["strategy"] = "fast" if rng.random() < 0.5 else case["strategy"]
        if case["knn"]:
            case["knn"][0][1] = 1
    if not canonical and rng.random() < 0.4:
        case["strategy_spelling"] = rng.choice(SPELL[case["strategy"]])
    case["numrep"] = "py" if canonical else rng.choice(["py", "np64", "np32"])
    case["qform"] = "array" if canonical else rng.choice(["array", "list", "tuple", "intarray"])
    if rng.random() < 0.4:
        case["repeat"] = True
    if rng.random() < 0.2:
        case["bad_call_first"] = True
    if rng.random() < 0.25:
        case["scale_exp"] = rng.choice(SCALES)
        if abs(case["scale_exp"]) > 480:
            # squared distances overflow / underflow in binary64: only construction, partition and boxes are examined
            case["knn"], case["rad"] = [], []
    if case["pts"] and rng.random() < 0.2:
        # index 0 plays the key role: the query sits on point 0 (nearest neighbour 0, radius 0 hits it)
        Q0 = [2 * c for c in case["pts"][0]]
        if case["knn"]:
            case["knn"][-1] = [Q0, 1]
        if case["rad"]:
            case["rad"][-1] = [Q0, 0]


def gen_big_case(rng, n):
    """More than 256 points (indices beyond the small-integer cache), dimension 1-2, a moderate leaf size."""
    d = rng.choice([1, 2])
    pts = [[rng.randint(-40, 40) for _ in range(d)] for _ in range(n)]
    Q = [2 * c for c in pts[n - 1]]
    case = {"dim": d, "pts": pts, "mls": rng.choice([6, 10]), "strategy": rng.choice(["balanced", "fast", "random"]),
            "seed": rng.randint(0, 2 ** 31 - 1), "dtype": "float",
            "knn": [[Q, 1], [[rng.randint(-90, 90) for _ in range(d)], rng.choice([3, n - 1, n, n + 1])]],
            "rad": [[Q, 0], [[rng.randint(-90, 90) for _ in range(d)], rng.randint(0, 3000)]], "style": "more-than-256-points"}
    add_container(rng, case)
    add_scenario(rng, case)
    case.pop("scale_exp", None)
    return case


def add_container(rng, case):
    """The form in which the caller hands the points over, and (ndarray forms, 40%) what it does with its array afterwards:
    overwrite it and build a second tree from it before the first tree is queried."""
    case["container"] = "int" if case.get("dtype") == "int" else rng.choice(["list", "tuple", "float", "float", "int", "fortran", "view"])
    if case["container"] not in ("list", "tuple") and case["pts"] and rng.random() < 0.4:
        case["mutate"] = rng.choice(["reverse", "shift", "row"])


def gen_ambient(rng):
    """One or two other PriorityQueue objects of the program with a few pending items (payloads >= 1000 so that they
    can never be mistaken for point indices; negative priorities = the '-score' max-queue idiom, and positive ones)."""
    qs = []
    for a in range(rng.choice([1, 1, 2])):
        style = rng.choice(["neg", "pos", "mixed"])
        items = []
        for j in range(rng.randint(1, 5)):
            w = rng.randint(1, 40) / 4.0
            if style == "neg" or (style == "mixed" and rng.random() < 0.5):
                w = -w
            items.append([1000 + 10 * a + j, w])
        qs.append(items)
    return qs


def gen_float_case(rng):
    """Rounding class (not sent to Coq): huge, near-equal integer coordinates, so that binary64 distances of points whose
    true distances differ are equal or nearly so. Checked by the exact-integer oracle with a rounding tolerance."""
    d = rng.choice([1, 2, 2, 3])
    X = 2 ** rng.choice([20, 26, 30, 40])
    big = [True] + [rng.random() < 0.4 for _ in range(d - 1)]
    n = rng.randint(2, 14)
    pts = [[(X if big[a] else 0) + rng.randint(-3, 3) for a in range(d)] for _ in range(n)]
    if rng.random() < 0.3:
        pts += [list(rng.choice(pts)) for _ in range(rng.randint(1, 3))]
    n = len(pts)

    def qp():
        r = rng.random()
        if r < 0.4:
            return [0] * d                                              # far away: all distances ~ X, differences below 1 ulp
        if r < 0.6:
            return [-2 * X] * d
        if r < 0.8:
            return [2 * c + rng.randint(-3, 3) for c in rng.choice(pts)]   # next to the cluster: exact arithmetic
        return [2 * (X if big[a] else 0) + rng.randint(-9, 9) for a in range(d)]
    knn = [[qp(), max(1, rng.choice([1, 2, n // 2, n - 1, n, n + 1]))] for _ in range(3)]
    rad = []
    for _ in range(2):
        Q = qp()
        rad.append([Q, max(0, d2(rng.choice(pts), Q) + rng.choice([0, 0, -1, 1, rng.randint(-40, 40)]))])
    return {"dim": d, "pts": pts, "mls": rng.choice([1, 1, 2, 3]), "strategy": rng.choice(["balanced", "fast", "random"]),
            "seed": rng.randint(0, 2 ** 31 - 1), "dtype": "float", "knn": knn, "rad": rad, "style": "bigfloat", "float_only": True,
            "container": rng.choice(["list", "float", "fortran", "view"]),
            "scale_exp": rng.choice([0, 0, 0, -300, -100, 100, 130, 300, 400])}


TOL_BITS = 46      # two squared distances closer than 2^-46 (relative) are not distinguished by the tolerant oracle


def close_le(a, b):
    """a <= b (1 + 2^-TOL_BITS), in exact integer arithmetic."""
    return (a << TOL_BITS) <= b * ((1 << TOL_BITS) + 1)


def exhaustive_cases():
    """Support only (thorough tier): every point sequence of a small finite space, with fixed query sets."""
    import itertools
    out = []
    for n in range(0, 6):                      # dimension 1, coordinates in {0,1,2}
        for seq in itertools.product(range(3), repeat=n):
            pts = [[c] for c in seq]
            for mls in (1, 2):
                for strategy, seed in (("balanced", 0), ("random", 0), ("random", 1)):
                    out.append({"dim": 1, "pts": pts, "mls": mls, "strategy": strategy, "seed": seed, "dtype": "float",
                                "knn": [[[0], 1], [[3], max(1, n)], [[3], n + 1]], "rad": [[[0], 0], [[3], 1], [[2], 4]],
                                "style": "exhaustive-1d"})
    sq = [[0, 0], [0, 1], [1, 0], [1, 1]]
    for n in range(0, 5):                      # dimension 2, coordinates in {0,1}^2
        for seq in itertools.product(range(4), repeat=n):
            pts = [list(sq[i]) for i in seq]
            for mls in (1, 2):
                out.append({"dim": 2, "pts": pts, "mls": mls, "strategy": "balanced", "seed": 0, "dtype": "float",
                            "knn": [[[1, 1], 1], [[0, 0], max(1, n - 1)], [[3, 1], n + 2]], "rad": [[[0, 0], 0], [[1, 1], 2], [[2, 0], 4]],
                            "style": "exhaustive-2d"})
    return out


# ---------------------------------------------------------------------- independent oracle (the property restated)
def bound(b):
    """A box bound reported by the driver (doubled, divided by the case's scale) as an exact number / +-inf."""
    from fractions import Fraction
    if b == "inf":
        return float("inf")
    if b == "-inf":
        return float("-inf")
    if b == "nan":
        return float("nan")
    if isinstance(b, str) and b.startswith("F:"):
        return Fraction(b[2:])
    return b


FREE_FORMS = ("list / tuple container", "keyword arguments", "arguments omitted at their defaults", "other spelling of the strategy",
              "numpy scalars for k / max_leaf_size / r", "list / tuple / integer-array query point")


def free_forms(case):
    """Argument forms of this case about which the property text says nothing (it speaks of point ARRAYS, query POINTS, k, radii,
    leaf sizes and the three strategies): a refusal of such a form is accepted, an answer must satisfy the property."""
    f = []
    if case.get("container") in ("list", "tuple"):
        f.append("list / tuple container")
    if case.get("call") == "kw":
        f.append("keyword arguments")
    if case.get("call") == "default":
        f.append("arguments omitted at their defaults")
    if case.get("strategy_spelling") and case["strategy_spelling"] != case["strategy"]:
        f.append("other spelling of the strategy")
    if case.get("numrep", "py") != "py":
        f.append("numpy scalars for k / max_leaf_size / r")
    if case.get("qform", "array") not in ("array", "typed"):
        f.append("list / tuple / integer-array query point")
    return f


def is_refusal(ans):
    return bool(ans) and ans[0] == "error" and ans[1] != "timeout"


def oracle(case, obs):
    """None, or (class-key, message) for the first way the observation violates the C11 sentence.
    Only what the sentence states: the build finishes, the leaves partition the points, query / query_radius answers are
    exact (distances, not particular tied indices; sets, not orders)."""
    pts, n, d = case["pts"], len(case["pts"]), case["dim"]
    free = free_forms(case)
    if obs["status"] == "skipped":
        return None
    if obs["status"] == "timeout":
        return ("build-nontermination", "building the tree did not finish within the time limit (%d pivots drawn so far)"
                % obs.get("pivots_so_far", -1))
    if obs["status"] != "ok":
        if free:
            return None          # a refusal (any exception) of an argument form the text does not name
        return ("build-error", "building the tree failed: %s" % obs.get("msg"))
    # every input point in exactly one leaf
    leaves = obs.get("leaves")
    if leaves is None and obs.get("nodes") is not None:
        leaves = [nd[3] for nd in obs["nodes"] if nd[0] == "L"]
    if leaves is not None:
        seen = {}
        for li, lp in enumerate(leaves):
            for i in lp:
                if i in seen:
                    return ("partition", "point %d is stored in two leaves (%d-th and %d-th)" % (i, seen[i], li))
                if not 0 <= i < n:
                    return ("partition", "a leaf stores the index %d which is not a point" % i)
                seen[i] = li
        if len(seen) != n:
            return ("partition", "points %s are stored in no leaf" % sorted(set(range(n)) - set(seen))[:5])
    for which, knn_obs in (("", obs["knn"]), (" (repeated call)", obs.get("knn_again") or [])):
        for (Q, k), ans in zip(case["knn"], knn_obs):
            if ans and ans[0] == "error":
                if free and is_refusal(ans):
                    continue
                return ("knn-error", "query(%s/2, %d)%s failed: %s" % (Q, k, which, ans[1]))
            if case.get("call") == "default" and k == 1 and n > 0 and len(ans) >= 1:
                k = len(ans)     # k was omitted: the text does not fix the default, the answer must be exact for the k it chose
            if len(ans) != min(k, n):
                return ("knn-count", "query(%s/2, k=%d)%s returned %d indices, expected min(k,n)=%d" % (Q, k, which, len(ans), min(k, n)))
            if len(set(ans)) != len(ans) or any(not 0 <= i < n for i in ans):
                return ("knn-indices", "query(%s/2, k=%d)%s returned %s: repeated or invalid index" % (Q, k, which, ans))
            ds = [d2(pts[i], Q) for i in ans]
            brute = sorted(d2(p, Q) for p in pts)[:k]
            if case.get("float_only"):
                # exact integers, but two distances within binary64 rounding of each other may come in either order
                if any(not close_le(ds[i], ds[i + 1]) for i in range(len(ds) - 1)):
                    return ("knn-order", "query(%s/2, k=%d)%s distances decrease by more than rounding: %s" % (Q, k, which, ds))
                if any(not (close_le(a, b) and close_le(b, a)) for a, b in zip(sorted(ds), brute)):
                    return ("knn-not-nearest", "query(%s/2, k=%d)%s squared distances x4 %s differ from the k smallest %s by more than rounding"
                            % (Q, k, which, ds, brute))
                continue
            if any(ds[i] > ds[i + 1] for i in range(len(ds) - 1)):
                return ("knn-order", "query(%s/2, k=%d)%s distances are not non-decreasing: %s" % (Q, k, which, ds))
            if ds != brute:
                return ("knn-not-nearest", "query(%s/2, k=%d)%s squared distances x4 %s, the k smallest are %s" % (Q, k, which, ds, brute))
    for which, rad_obs in (("", obs["rad"]), (" (repeated call)", obs.get("rad_again") or [])):
        for (Q, m), ans in zip(case["rad"], rad_obs):
            if ans and ans[0] == "error":
                if free and is_refusal(ans):
                    continue
                return ("radius-error", "query_radius(%s/2, sqrt(%d)/2)%s failed: %s" % (Q, m, which, ans[1]))
            if case.get("float_only"):
                if len(set(ans)) != len(ans) or any(not 0 <= i < n for i in ans):
                    return ("radius-set", "query_radius(%s/2, sqrt(%d)/2)%s returned %s: repeated or invalid index" % (Q, m, which, ans))
                inside = [i for i in range(n) if not close_le(m, d2(pts[i], Q))]          # clearly inside: d2 (1+eps) < m
                outside = [i for i in range(n) if not close_le(d2(pts[i], Q), m)]         # clearly outside
                if not set(inside) <= set(ans) or set(ans) & set(outside):
                    return ("radius-set", "query_radius(%s/2, sqrt(%d)/2)%s returned %s; clearly inside %s, clearly outside %s"
                            % (Q, m, which, sorted(ans), inside, outside))
                continue
            want = sorted(i for i in range(n) if d2(pts[i], Q) <= m)
            if sorted(ans) != want:
                return ("radius-set", "query_radius(%s/2, sqrt(%d)/2)%s returned %s, the points within the radius are %s"
                        % (Q, m, which, sorted(ans), want))
    # requested by the coordinator (rounds 2-3), kept: objects of one session never influence each other
    if obs.get("query_point_modified_by"):
        return ("query-point-modified", "the caller's query point was modified by %s" % obs["query_point_modified_by"])
    if obs.get("input_modified_by_build") or obs.get("input_modified_by_query"):
        return ("caller-array-modified", "the caller's point array was modified by %s"
                % ("the constructor" if obs.get("input_modified_by_build") else "a query"))
    if case.get("ambient"):
        want = [sorted([[x, float(w)] for x, w in items], key=repr) for items in case["ambient"]]
        if obs.get("ambient_after") != want:
            return ("ambient-queue-changed", "other PriorityQueue objects alive during the run were modified: they held %s, "
                    "afterwards %s" % (want, obs.get("ambient_after")))
    return None


def mechanism_check(case, obs):
    """Not part of the property sentence (never a concrete violation): every point lies in the box of its leaf - what the
    pruning proofs rely on. A failure leaves an obligation undischarged."""
    if obs.get("status") != "ok" or not obs.get("nodes"):
        return None
    pts, d = case["pts"], case["dim"]
    for nd in obs["nodes"]:
        if nd[0] != "L":
            continue
        _, nid, _, lp, lo, hi = nd
        for i in lp:
            if not 0 <= i < len(pts):
                continue
            for a in range(d):
                c = 2 * pts[i][a]
                if not (bound(lo[a]) <= c <= bound(hi[a])):
                    return "point %d %s lies outside the box of its leaf %d (bounds x2: %s .. %s on axis %d)" % (i, pts[i], nid, lo[a], hi[a], a)
    return None


def rounding_ties(case, obs):
    """Number of kNN answers of a float-class case that are optimal only up to rounding (exact order differs)."""
    if obs.get("status") != "ok":
        return 0
    c = 0
    for (Q, k), ans in zip(case["knn"], obs["knn"]):
        if ans and ans[0] == "error":
            continue
        ds = [d2(case["pts"][i], Q) for i in ans if 0 <= i < len(case["pts"])]
        if ds != sorted(d2(p, Q) for p in case["pts"])[:k]:
            c += 1
    return c


def classify(case, kind):
    """Failure class: the clause that failed + the input class / configuration it failed on."""
    pts = [tuple(p) for p in case["pts"]]
    return "/".join([kind, "strategy=" + case["strategy"], "leaf=%d" % case["mls"], "dim=%d" % case["dim"],
                     "duplicates" if len(set(pts)) < len(pts) else "distinct",
                     "ambient-queues" if case.get("ambient") else "no-ambient",
                     "bigfloat" if case.get("float_only") else "small-int",
                     "scale=2^%d" % case["scale_exp"] if case.get("scale_exp") else "unscaled",
                     "call=%s/%s/%s%s%s" % (case.get("call", "pos"), case.get("numrep", "py"), case.get("qform", "array"),
                                            "/repeated" if case.get("repeat") else "", "/after-failed-calls" if case.get("bad_call_first") else ""),
                     "container=" + str(case.get("container", "float")),
                     "caller-overwrites-array(%s)" % case["mutate"] if case.get("mutate") else "array-untouched"])


def run_one(case, timeout=3.0):
    return core.run_impl("vf.impl.c11_driver", {"cases": [case], "timeout": timeout}, timeout=60)["obs"][0]


def shrink(case, key, budget=30.0):
    """Greedy shrinking keeping the same failure class: drop points, drop queries, lower k."""
    import time
    deadline = time.time() + budget

    def fails(c):
        if time.time() > deadline:
            return False
        o = oracle(c, run_one(c, 1.0))
        return o is not None and o[0] == key
    cur = json.loads(json.dumps(case))
    if cur.get("ambient"):
        for cand_amb in ([], cur["ambient"][:1], cur["ambient"][1:]):
            cand = dict(cur, ambient=cand_amb)
            if not cand_amb:
                cand.pop("ambient")
            if cand_amb != cur["ambient"] and fails(cand):
                cur = cand
                break
    for fld in ("mutate", "scale_exp", "strategy_spelling", "repeat", "bad_call_first", "numrep", "qform", "call", "container"):
        if fld in cur:
            cand = dict(cur)
            cand.pop(fld)
            if fails(cand):
                cur = cand
    # keep only one failing query
    for fld in ("knn", "rad"):
        for keep in ([], ) + tuple([x] for x in cur[fld]):
            cand = dict(cur, **{fld: list(keep)})
            if fails(cand):
                cur = cand
                break
    changed = True
    rounds = 0
    while changed and rounds < 60:
        changed = False
        rounds += 1
        for i in range(len(cur["pts"]) - 1, -1, -1):
            cand = dict(cur, pts=cur["pts"][:i] + cur["pts"][i + 1:])
            if fails(cand):
                cur = cand
                changed = True
        for ai in range(len(cur.get("ambient", []))):
            for ii in range(len(cur["ambient"][ai]) - 1, -1, -1):
                if len(cur["ambient"][ai]) > 1:
                    amb = [list(x) for x in cur["ambient"]]
                    amb[ai] = amb[ai][:ii] + amb[ai][ii + 1:]
                    cand = dict(cur, ambient=amb)
                    if fails(cand):
                        cur = cand
                        changed = True
        for qi, (Q, k) in enumerate(cur["knn"]):
            if k > 1:
                cand = dict(cur, knn=[[q2, (k2 - 1 if j == qi else k2)] for j, (q2, k2) in enumerate(cur["knn"])])
                if fails(cand):
                    cur = cand
                    changed = True
    return cur


# ---------------------------------------------------------------------- Gallina encoders
def zl(n):
    return "(%d)" % n if n < 0 else "%d" % n


def ext(x):
    if x == "inf":
        return "PosInf"
    if x == "-inf":
        return "NegInf"
    return "(Fin %s)" % zl(x)


def natlist(xs):
    return "[" + "; ".join("%d%%nat" % x for x in xs) + "]"


def zlistp(xs):
    return "[" + "; ".join(zl(x) for x in xs) + "]"


def node_term(nd):
    if nd[0] == "L":
        _, nid, ax, lp, lo, hi = nd
        return "(Leaf %d%%nat %s (mkbox %s %s))" % (ax, natlist(lp), coq_list([ext(x) for x in lo]), coq_list([ext(x) for x in hi]))
    _, nid, ax, sv, l, r, lo, hi = nd
    return "(Node %d%%nat %s %d%%nat %d%%nat (mkbox %s %s))" % (ax, zl(sv), l, r, coq_list([ext(x) for x in lo]), coq_list([ext(x) for x in hi]))


def case_term(case, obs):
    pts = coq_list([zlistp([2 * c for c in p]) for p in case["pts"]])
    knn = coq_list(["(%s, %d%%nat, %s)" % (zlistp(Q), k, natlist(ans)) for (Q, k), ans in zip(case["knn"], obs["knn"])])
    rad = coq_list(["(%s, %s, %s)" % (zlistp(Q), zl(m), natlist(ans)) for (Q, m), ans in zip(case["rad"], obs["rad"])])
    now = coq_list([zlistp(p) for p in obs["now"]])
    return "(mkcase %d%%nat %d%%nat %s %s %s %s %s %s %s)" % (
        case["dim"], case["mls"], {"balanced": "Balanced", "fast": "Fast", "random": "Random"}[case["strategy"]], pts, now, zlistp(obs["pivots"]), coq_list([node_term(nd) for nd in obs["nodes"]]), knn, rad)


def encodable(obs):
    if obs["status"] != "ok" or obs.get("nodes") is None or any(a and a[0] == "error" for a in obs["knn"] + obs["rad"]):
        return False
    nums = list(obs["pivots"]) + [x for row in obs.get("now", []) for x in row]
    for nd in obs["nodes"]:
        nums += ([nd[3]] if nd[0] == "N" else []) + [x for x in nd[-2] + nd[-1] if x not in ("inf", "-inf")]
    # (decimal literals of hundreds of bits make coqc's parser the bottleneck; the model never produces such bounds)
    return all(isinstance(x, int) and abs(x) < 2 ** 70 for x in nums)


# ---------------------------------------------------------------------- the check
WITNESSES = [
    # DESIGN.md section 6 #18: three distinct points, the median is the maximum on both axes
    {"dim": 2, "pts": [[3, 2], [2, 2], [3, 0]], "mls": 2, "strategy": "balanced", "seed": 0, "dtype": "float",
     "knn": [[[0, 0], 2]], "rad": [[[4, 4], 8]], "style": "witness18"},
    # majority duplicates
    {"dim": 2, "pts": [[1, 1], [1, 1], [1, 1], [0, 5]], "mls": 2, "strategy": "balanced", "seed": 0, "dtype": "float",
     "knn": [[[0, 0], 3]], "rad": [[[2, 2], 0]], "style": "witness18"},
    # all points identical, random strategy
    {"dim": 1, "pts": [[2], [2], [2]], "mls": 1, "strategy": "random", "seed": 1, "dtype": "float",
     "knn": [[[4], 2]], "rad": [[[4], 0]], "style": "witness18"},
    # #19 (scaled by 2 to integers): a=(3,0) c=(0,1) b=(0,7), q=0, k=3, leaf size 1
    {"dim": 2, "pts": [[3, 0], [0, 1], [0, 7]], "mls": 1, "strategy": "balanced", "seed": 0, "dtype": "float",
     "knn": [[[0, 0], 3]], "rad": [], "style": "witness19"},
]


def run(ctx):
    quick = ctx.tier == "quick"
    n_cases = 1500 if quick else 24000
    ctx.rule = ("integer point sets of dimension 1-5, 0-24 points (thorough: up to 40), styles uniform / clustered / collinear / "
                "axis-degenerate / duplicated / all-identical / majority-duplicate / grid; leaf sizes 1-4 (occasionally 6, 10); strategies balanced / "
                "fast / random with seeded numpy RNG; per case 3 kNN queries (k in 1..n+2, query on / near / far from the data) "
                "and 2 radius queries (radius 0, a data point exactly on the sphere, random); in 35% of the cases one or two other "
                "mouette PriorityQueue objects with pending items (negative / positive priorities) are alive during build and queries "
                "and must be left unchanged; the points are handed over as list / tuple / float ndarray / int ndarray / Fortran-ordered / "
                "non-contiguous view, or (25%) as uint8 / uint16 / int8 / int32 / float32 / bool arrays with the query point in the same dtype, and in 40% of the ndarray cases the caller overwrites its array after construction and builds a "
                "second tree from it before the first tree is queried (answers judged against the points at construction; the "
                "caller's array must never be modified by build or query). Scenario dimensions drawn per case: arguments positional / keyword / omitted-at-default, strategy spelled in "
                "other cases, k / max_leaf_size / r as python, numpy 64- and 32-bit numbers, query point as array / list / tuple / int "
                "array, every query re-issued interleaved after the caller appended to the first answers, failing calls caught before the "
                "queries, all coordinates scaled by 2^s (s in -1000..990, i.e. 1e-301..1e298; queries dropped when squares leave the "
                "binary64 range), the query sitting on point 0, and 2 (thorough 8) cases with 257-300 points. Plus a rounding class (200 quick / 4000 thorough cases, oracle only): "
                "coordinates 2^20..2^40 + (-3..3), queries far away, so that distinct true distances collide in binary64. Non-trivial = the build splits "
                "at least once (n > leaf size); distinct = by canonical JSON of the case")
    ctx.assumptions += [
        "coordinates are small integers (queries half-integers), everything is doubled on the Coq side; squared distances "
        "are compared instead of their binary64 square roots (order-isomorphic on these inputs)",
        "LIMIT: the theorems are about exact arithmetic. Under binary64 two points whose true distances differ by less than rounding "
        "resolution (e.g. (2^30,0) and (2^30,1) seen from the origin: both at float distance 2^30) are ties for the implementation: "
        "their order, which of them is among the k nearest, and whether they fall within a radius equal to that float are unspecified. "
        "The rounding class measures this; beyond that resolution the exact-integer oracle requires the answers to be optimal",
        "the pivot returned by _find_pivot (numpy median / RNG) is an input of the model (oracle), recorded from the run",
        "max_leaf_size >= 1 and dimension >= 1 as in the property's quantifier",
    ]
    ok_gen = ctx.regen(sys.modules[__name__])
    b = ctx.build_props(extra_targets=["theories/C11/Run.vo"])
    ctx.hygiene(["Lib", "C11"])

    cases = []
    cdir = os.path.join(core.ROOT, "corpus", "C11")
    if os.path.isdir(cdir):
        for f in sorted(os.listdir(cdir)):
            if f.endswith(".json"):
                cases.append(json.load(open(os.path.join(cdir, f))))
    cases += [json.loads(json.dumps(w)) for w in WITNESSES]
    maxn = 24 if quick else 40
    cases += [gen_case(ctx.rng, maxn) for _ in range(n_cases)]
    cases += [gen_float_case(ctx.rng) for _ in range(200 if quick else 4000)]
    for _ in range(2 if quick else 8):       # spread over the shards: each is a heavy Coq term
        cases.insert(ctx.rng.randrange(len(cases) + 1), gen_big_case(ctx.rng, ctx.rng.randint(257, 300)))
    if not quick:
        ex = exhaustive_cases()
        ctx.notes.append("thorough tier also enumerates %d cases exhaustively (all 1-D point sequences over {0,1,2} of length <= 5, "
                         "all 2-D sequences over {0,1}^2 of length <= 4; leaf sizes 1-2): bounded support, not the theorem" % len(ex))
        cases += ex

    nsh = max(1, min(core.NCPU, len(cases) // 60))
    payloads = [{"cases": cases[i::nsh], "timeout": 2.0 if quick else 4.0} for i in range(nsh)]
    results = core.run_impl_parallel("vf.impl.c11_driver", payloads, timeout=1800)
    ctx.log("implementation driver ran %d cases in %d shards" % (len(cases), nsh))
    obs = [None] * len(cases)
    for i, r in enumerate(results):
        for j, o in zip(range(i, len(cases), nsh), r["obs"]):
            obs[j] = o

    fails = []
    mech_fail = []
    n_refused = 0
    n_unobs = 0
    n_skipped = 0
    n_ties = 0
    for idx, (c, o) in enumerate(zip(cases, obs)):
        n = len(c["pts"])
        if o["status"] == "skipped":
            ctx.count("status=skipped (shard had already shown 3 build time-outs)")
            n_skipped += 1
            continue
        if c.get("float_only"):
            n_ties += rounding_ties(c, o)
        ctx.count("dim=%d" % c["dim"])
        ctx.count("style=" + c.get("style", "?"))
        ctx.count("strategy=" + c["strategy"])
        ctx.count("leaf_size=%d" % c["mls"])
        ctx.count("n<=%d" % (4 * ((n + 3) // 4)))
        ctx.count("status=" + o["status"])
        for (Q, k) in c["knn"]:
            ctx.count("k>n" if k > n else ("k=n" if k == n else "k<n"))
        if o["status"] == "ok":
            ctx.count("splits<=%d" % (4 * ((len(o["pivots"]) + 3) // 4)))
            if any(nd[0] == "N" and nd[3] != pv for nd, pv in zip([x for x in o["nodes"] if x[0] == "N"], o["pivots"])):
                ctx.count("cases with a degenerate (rank) split")
        if c.get("ambient"):
            ctx.count("cases with ambient PriorityQueue objects alive")
        ctx.count("container=" + str(o.get("container", c.get("container", "float"))))
        ctx.count("call form=" + c.get("call", "pos"))
        ctx.count("numeric representation=" + c.get("numrep", "py"))
        ctx.count("query point form=" + c.get("qform", "array"))
        if c.get("scale_exp"):
            ctx.count("coordinates scaled by 2^%d" % c["scale_exp"])
        for fld, txt in (("repeat", "queries repeated / interleaved"), ("bad_call_first", "failing calls caught first"),
                         ("strategy_spelling", "strategy in another spelling")):
            if c.get(fld):
                ctx.count(txt)
        if c.get("mutate") and o.get("now") is not None and o["now"] != [[2 * x for x in p] for p in c["pts"]]:
            ctx.count("cases where the caller overwrote its array after construction (second tree built from it)")
        ctx.case_seen([c["dim"], c["pts"], c["mls"], c["strategy"], c["seed"], c["knn"], c["rad"], c.get("ambient"), c.get("container"), c.get("mutate"),
                       c.get("scale_exp"), c.get("call"), c.get("numrep"), c.get("qform"), c.get("repeat"), c.get("bad_call_first")], nontrivial=n > c["mls"],
                      sample={"case": {k: c[k] for k in ("dim", "pts", "mls", "strategy", "knn", "rad", "ambient", "container", "mutate") if k in c}, "observed": o}
                      if 3 < n < 9 else None)
        m = oracle(c, o)
        if m:
            fails.append((idx, m))
        mech = mechanism_check(c, o)
        if mech:
            mech_fail.append((idx, mech))
        if o["status"] == "error" or any(is_refusal(a) for a in o.get("knn", []) + o.get("rad", [])):
            if free_forms(c) and not m:
                ctx.count("refusal of an argument form the text does not name (accepted): " + ", ".join(free_forms(c))[:80])
                n_refused += 1
        if o.get("structure_error"):
            n_unobs += 1
    # every failing case is classified; a failure counts against the obligation unless its class is a listed known finding
    classes = {}
    for idx, (kind, msg) in fails:
        classes.setdefault(classify(cases[idx], kind), []).append((idx, kind, msg))
    unknown = sorted(k for k in classes if not ctx.known(k))
    n_float_run = sum(1 for c, o in zip(cases, obs) if c.get("float_only") and o["status"] != "skipped")
    ctx.obligation("oracle: every observed tree / answer satisfies the C11 sentence (brute force, exact integers)",
                   "oracle-on-implementation", not any(not cases[i].get("float_only") for k in unknown for i, _, _ in classes[k]),
                   "%d failing cases in %d classes, %d classes not listed as known: %s" % (len(fails), len(classes), len(unknown), unknown[:6]))
    ctx.obligation("oracle on the rounding class (huge near-equal coordinates; exact integers, orders checked up to 2^-%d relative): "
                   "%d cases, %d answers optimal only up to binary64 rounding" % (TOL_BITS, n_float_run, n_ties),
                   "oracle-on-implementation", not any(cases[i].get("float_only") for k in unknown for i, _, _ in classes[k]),
                   "these cases are outside the exact-arithmetic model and are not sent to Coq")
    ctx.obligation("mechanism (not in the property sentence, never a concrete violation): every point lies in the box of its leaf; "
                   "the node array could be read in all but %d cases" % n_unobs, "mechanism-on-implementation",
                   not mech_fail and n_unobs == 0,
                   ("; ".join("case %d: %s" % (i, t) for i, t in mech_fail[:3]) or "") + (" | node array unreadable in %d cases" % n_unobs if n_unobs else ""))
    if mech_fail:
        ctx.extra["mechanism_failures"] = [{"case": cases[i], "what": t} for i, t in mech_fail[:3]]
    ctx.extra["accepted_refusals_of_unnamed_argument_forms"] = n_refused
    ctx.extra["rounding_class"] = {"cases": n_float_run, "answers_optimal_only_up_to_rounding": n_ties, "tolerance_bits": TOL_BITS}

    ctx.log("oracle done: %d failing cases" % len(fails))
    bad = []
    enc_idx = [i for i, o in enumerate(obs) if encodable(o) and not cases[i].get("float_only")]
    failing_idx = {i for i, _ in fails}
    dropped = [i for i, o in enumerate(obs) if not cases[i].get("float_only") and o["status"] != "skipped"
               and i not in failing_idx and not encodable(o)
               and not (free_forms(cases[i]) and (o["status"] == "error" or any(is_refusal(a) for a in o.get("knn", []) + o.get("rad", []))))]
    ctx.obligation("harness: every generated case was run and every passing small-integer case was sent to Coq "
                   "(skipped after 3 time-outs in a shard: %d, unencodable without an oracle failure: %d)" % (n_skipped, len(dropped)),
                   "harness", n_skipped == 0 and not dropped and ctx.evaluations > 0,
                   "" if n_skipped == 0 and not dropped else "the exploration is incomplete: the property is not shown on the skipped cases")
    if b["model_ok"]:
        terms = [case_term(cases[i], obs[i]) for i in enc_idx]
        badl = ctx.run_cases("kd", HEADER, terms, "check_case", case_type="case", shard=250)
        bad = [enc_idx[j] for j in (badl or [])]
    else:
        ctx.obligation("correspondence batches", "correspondence", False, "model does not compile")

    reported = set()
    import time
    shrink_deadline = time.time() + 45.0      # total time allowed for shrinking, over all failure classes
    ctx.log("correspondence done: %d disagreeing cases" % len(bad))
    kinds_done = set()
    # unknown classes first (one violation per failing clause, the other classes of the same clause are listed in it)
    for key in unknown + sorted(k for k in classes if ctx.known(k)):
        idx, kind, msg = classes[key][0]
        if ctx.known(key):
            ctx.report_known(key, ctx.known(key)["what"])
            continue
        if kind in kinds_done:
            continue
        kinds_done.add(kind)
        small = shrink(cases[idx], kind, budget=max(0.0, min(20.0, shrink_deadline - time.time())))
        o2 = run_one(small)
        m2 = oracle(small, o2)
        key2 = classify(small, m2[0]) if m2 else key
        ctx.violation("kd-tree: " + (m2[1] if m2 else msg),
                      {"case": small, "observed": o2, "class": key2,
                       "all_failing_classes_of_this_clause": [k for k in unknown if k.split("/")[0] == kind][:40]}, key=key2)
    if bad and not [i for i in bad if i in failing_idx]:
        ctx.notes.append("model/implementation disagree on cases %s but the oracle accepts the implementation's answers" % bad[:5])
        for i in bad[:3]:
            ctx.log("disagreement on case", i, json.dumps(cases[i]), json.dumps(obs[i]))
        ctx.extra["disagreeing_cases"] = [{"case": cases[i], "observed": obs[i]} for i in bad[:3]]


def replay(ctx, data):
    if "case" not in data:
        print("replay file names no concrete input:", json.dumps(data)[:400])
        return 1
    o = run_one(data["case"])
    m = oracle(data["case"], o)
    print("observed:", json.dumps(o)[:2000])
    print("FAILS: " + m[1] if m else "passes")
    return 1 if m else 0
