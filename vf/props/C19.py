"""C19 - samplers stay on their domain; Bezier evaluation matches the Bernstein form."""
import json
import math
import os
import sys
from fractions import Fraction

from .. import core
from ..core import zlit, coq_list, coq_bool, float_pair, qlit
from ..translate import c19 as tr

META = {
    "property_id": "C19",
    "design_ref": "DESIGN.md section 5, C19 (Appendix B6)",
    "technique": "Coq proof over R of an executable model of sampling.py / splines/bezier.py whose expressions, guards, loop "
                 "bounds and index formulas are regenerated from the source on every run (samplers are functions of their "
                 "recorded random draws; de Casteljau = Bernstein by induction with Pascal's rule) + kernel-checked "
                 "correspondence batches (binary64 with tolerance, exact Q for dyadic Bezier nets) + independent oracle",
    "level_text": "Machine-checked, unbounded Coq theorems about the model regenerated from the (repaired) source: exact "
                  "counts (n; round(n^(1/d))^d in grid mode); for ALL draws in their ranges the sphere sample is at distance "
                  "r, the ball sample within r with radial law (|p-c|/r)^3 = u, box samples lie in the box in both modes, "
                  "polyline samples are convex combinations of the chosen edge's end points, surface samples have "
                  "barycentric weights >= 0 summing to 1 on the chosen face and carry that face's unit normal; the vector "
                  "handed to numpy's choice is >= 0, sums to 1 and is proportional to length/area; de Casteljau equals the "
                  "Bernstein polynomial (binomial coefficients proved to be n!/(k!(n-k)!)), interpolates end/corner points, "
                  "is a convex combination on [0,1] (curves: weights >= 0 summing to 1; patches: product weights b_j(v) b_i(u) >= 0 "
                  "summing to 1 over ALL control points; every coordinate between the extreme control values), rejects parameters "
                  "outside [0,1]; the code's edge length / triangle area / unit normal / cross product (component expressions "
                  "generated from geometry.py, vector.py and the attribute functions) are proved equal to the Euclidean "
                  "definitions the probability and normal theorems are stated with; only a polyline with at most one edge bypasses "
                  "choice(NE, size=n, p=lengths/sum) (theorem on the generated NE test; sample_surface has no bypass); export indices are in range and "
                  "grid-consistent for all (n1,n2). NOT proved (statistical): that the observed share of samples per "
                  "edge/face follows length/area - numpy's choice is trusted, a chi-square test in the thorough tier is "
                  "support only; TESTED per run, not proved: the recorded call protocol (one choice call with p = lengths/areas normalised "
                  "whenever there are >= 2 edges/faces, every sample on the edge/face drawn for it), 200-draw runs in which every "
                  "edge/face of share >= 8 % must be hit, value semantics of evaluate/exports (results edited in place by the "
                  "caller must not change later evaluations), stale or colliding mesh attributes, call forms (positional / keyword / optional arguments omitted - defaults "
                  "come from the signature via Gen.v), numeric representations (np.int32/int64 counts, np.float32/int radii and "
                  "parameters, 0/1 and np.bool_ flags), control nets and custom positions given as tuples / arrays / one-shot "
                  "generators, the same request issued twice with the first result overwritten, inputs and mesh attribute "
                  "names unchanged by a call, scales 2^-23 and 2^130, zero-area faces, coincident control points. "
                  "Defects #36/#37/#38 were repaired by fix: commits; the theorems are about the repaired code.",
    "level_note": "Deliberately left free (not constrained by oracle, driver or Coq checkers): the exception class and "
                  "message of any refusal (a refusal is judged from the input: parameters outside [0,1] must be refused; "
                  "unknown mode strings, empty boxes, point clouds of dimension > 3, empty control nets, zero counts / zero "
                  "radius / empty custom positions and argument forms the text does not name - numpy scalars, generators, "
                  "tuples - may be refused or answered correctly); the order of the returned samples and of grid points; the "
                  "numbering of exported vertices, the starting corner and (common) orientation of exported faces, the "
                  "direction of exported edges; names / presence of the t, uv_coords and other attributes, extra attributes left on "
                  "a mesh, warnings, dtypes, types of returned scalars; the mechanism by which edges/faces are drawn (the recorded "
                  "choice(...) protocol only feeds the correspondence: a mismatch is 'unproved', never a concrete violation; "
                  "concrete share violations come from the geometry of 200-draw runs). Floats are compared with 1e-9 relative "
                  "to the magnitude of the input. Grid resolution: the model's grid_res is the EXACT nearest integer d-th root (iroot_round, proved to "
                  "satisfy (r-1/2)^d <= n < (r+1/2)^d); the code computes round(np.power(n_pts, 1/box.dim)) in binary64 with "
                  "round-half-even. Their agreement is not a theorem: it is checked on every run for ALL n_pts <= 100000 (quick; "
                  "2000000 thorough) and box dimensions 1..8 by a kernel-checked run-length table (C19_grid_resolution_table_sound "
                  "says what an accepted table means; exact ties cannot occur since ((2r+1)/2)^d is never an integer) and is "
                  "ASSUMED beyond those limits. Sphere/ball theorems exclude the all-zero normal row g = (0,0,0): a measure-zero "
                  "draw on which the code divides by a zero norm and returns NaN points (not rejected, not modelled). "
                  "Trusted: Coq kernel + vm_compute; Reals axioms of the stdlib; the sampling/bezier translator; the driver's "
                  "recording wrappers around numpy.random (draws are inputs of the model: numpy's generator is assumed to "
                  "return draws in the documented ranges and choice to follow p); numpy broadcasting modelled coordinate-"
                  "wise; np.linspace / np.meshgrid / round(np.power) modelled by hand and tied by correspondence; binary64 "
                  "round-off is outside the theorems (correspondence tolerance 1e-9).",
}

HEADER_F = """From Coq Require Import ZArith List Bool PrimFloat.
Import ListNotations.
Require Import MV.Lib.FloatLit MV.C19.Ops MV.C19.OpsF MV.C19.Gen MV.C19.Model MV.C19.RunF.
Open Scope Z_scope.
"""
HEADER_Q = """From Coq Require Import ZArith QArith List Bool.
Import ListNotations.
Require Import MV.C19.Ops MV.C19.OpsQ MV.C19.Gen MV.C19.Model MV.C19.RunQ.
Open Scope Z_scope.
"""
DRIVER = "vf.impl.c19_driver"
GRID_LIMIT_QUICK = 100000        # sample counts for which round(np.power(n, 1/d)) is checked against the exact root
GRID_LIMIT_THOROUGH = 2000000
GRID_DIMS = [1, 2, 3, 4, 5, 6, 7, 8]
TOL = 1e-9


def gen(ctx):
    return tr.gen()


# ---------------------------------------------------------------------- generators
def dy(rng, lo=-24, hi=24, den=8):
    return rng.randint(lo, hi) / den


def pt3(rng):
    return [dy(rng), dy(rng), dy(rng)]


RADII = [0.1, 0.125, 0.03125, 0.5, 0.75, 1.0, 1.0, 2.0, 3.5, 8.0, 0.3, 17.0, 0.0, 300.0]


SCALES = [2.0 ** -23, 2.0 ** 130]     # ~1.2e-7 and ~1.4e39: the property is scale-free


def scale_pts(ps, s):
    return [[x * s for x in p] for p in ps]


def decorate(rng, c):
    """call forms, numeric representations, containers, repeated calls, scale (classes 2-5, 7, 12 of the hardening list)"""
    k = c["kind"]
    r = rng.random()
    if r < 0.2:
        c["form"] = "pos"
    elif r < 0.45:
        c["form"] = "omit"
    rep = {}
    if rng.random() < 0.3:
        rep["n"] = rng.choice(["int64", "int32"])
    if rng.random() < 0.2:
        rep["pc"] = rep["normals"] = rng.choice(["flag_int", "flag_np"])
    if rng.random() < 0.25:
        rep["radius"] = rng.choice(["int", "f32", "f64"])
        rep["t"] = rng.choice(["int", "f32", "f64"])
    if rep:
        c["rep"] = rep
    if k in ("curve", "patch", "polylinex", "surfacex") and rng.random() < 0.35:
        c["net_as"] = rng.choice(["tuple", "array", "gen"])
    if k == "polylinex" and c.get("custom") is not None and rng.random() < 0.5:
        c["custom_as"] = rng.choice(["tuple", "array", "gen"])
    if k == "polylinex" and c.get("n_pts") is None and c.get("form") == "pos":
        c["form"] = "kw"
    if k in ("sphere", "ball", "box", "polyline", "surface") and rng.random() < 0.12:
        c["twice"] = True
    if rng.random() < 0.08 and not c.get("many"):
        sc = rng.choice(SCALES)
        c["scale"] = sc
        if k in ("sphere", "ball"):
            c["center"] = [x * sc for x in c["center"]]
            c["radius"] = c["radius"] * sc
        elif k == "box":
            c["p1"] = [x * sc for x in c["p1"]]
            c["p2"] = [x * sc for x in c["p2"]]
        elif k in ("polyline", "surface"):
            c["V"] = scale_pts(c["V"], sc)
            if c.get("V2"):
                c["V2"] = scale_pts(c["V2"], sc)
        elif k in ("curve", "polylinex"):
            c["P"] = scale_pts(c["P"], sc)
        else:
            c["rows"] = [scale_pts(r2, sc) for r2 in c["rows"]]
    return c


def gen_sphere(rng, kind):
    return {"kind": kind, "center": pt3(rng), "radius": rng.choice(RADII), "n": rng.choice([0, 1, 1, 2, 3, 5, 8] * 3 + [257] if kind == "sphere" else [0, 1, 1, 2, 3, 5, 8]),
            "pc": rng.random() < 0.3, "seed": rng.randrange(1 << 30)}


def gen_box(rng):
    d = rng.choice([1, 2, 2, 3, 3, 3, 4, 5, 6])
    p1 = [dy(rng) for _ in range(d)]
    p2 = [a + rng.randint(1, 24) / 8 for a in p1]
    r = rng.random()
    if r < 0.10:
        k = rng.randrange(d)
        p2[k] = p1[k] if rng.random() < 0.5 else p1[k] - 0.5   # empty box
    mode = rng.choice(["uniform", "grid", "grid"])
    if rng.random() < 0.04:
        mode = rng.choice(["Grid", "random", "", "UNIFORM", "Uniform", "grid "])
    pc = rng.random() < 0.3
    if mode == "grid":
        n = rng.choice([0, 1, 2, 3, 4, 5, 7, 8, 9, 12, 16, 20, 27, 30, 64, 81])
        while round(n ** (1.0 / d)) ** d > 130:
            n = n // 2
    else:
        n = rng.choice([0, 1, 2, 3, 5, 8])
    c = {"kind": "box", "p1": p1, "p2": p2, "n": n, "mode": mode, "pc": pc, "seed": rng.randrange(1 << 30)}
    if rng.random() < 0.25:
        c["corners"] = rng.choice(["pad_other", "mutate"])
    return c


def gen_polyline(rng):
    nv = rng.randint(2, 7)
    V = []
    while len(V) < nv:
        p = pt3(rng)
        if p not in V or rng.random() < 0.1:
            V.append(p)
    shape = rng.random()
    if shape < 0.08:
        E = []
    elif shape < 0.2:
        E = [[0, 1]]
    else:
        E = [[i, i + 1] for i in range(nv - 1)]
        if nv > 2 and rng.random() < 0.4:
            E.append([nv - 1, 0])
        rng.shuffle(E)
        E = [e if rng.random() < 0.7 else e[::-1] for e in E]
        # at least one edge of positive length, else the probability vector is NaN (numpy rejects it)
        if all(V[a] == V[b] for a, b in E):
            V[E[0][1]] = [V[E[0][0]][0] + 1.0] + V[E[0][0]][1:]
    n = rng.choice([0, 1, 2, 3, 5, 8])
    c = {"kind": "polyline", "V": V, "E": E, "n": n, "pc": rng.random() < 0.3, "seed": rng.randrange(1 << 30)}
    add_scenario(rng, c, lambda V2: not E or len(E) <= 1 or any(V2[a] != V2[b] for a, b in E))
    return c


def add_scenario(rng, c, ok):
    """~45 %: attributes (computed persistently, or colliding names with arbitrary values) exist on the mesh
    before its vertices are moved to V2 and the sampler is called; the oracle and the model use the CURRENT geometry"""
    r = rng.random()
    if r < 0.55:
        return
    c["pre"] = "compute" if r < 0.78 else ("sample" if r < 0.88 else "junk")
    if c["pre"] == "junk":
        c["junk"] = {"normals": [[dy(rng), dy(rng), dy(rng)] for _ in range(3)], "scalars": [rng.randint(0, 40) / 8 for _ in range(3)]}
    if rng.random() < 0.85:
        for _ in range(30):
            V2 = [p if rng.random() < 0.3 else pt3(rng) for p in c["V"]]
            if V2 != c["V"] and ok(V2):
                c["V2"] = V2
                break


def gen_many_polyline(rng):
    """few edges of unequal lengths, many draws: every edge holding >= 8 % of the length must be hit (miss probability 0.92^200 < 1e-7)"""
    ne = rng.choice([2, 2, 2, 3, 4])
    V = [[0.0, 0.0, 0.0]]
    for i in range(ne):
        step = rng.choice([0.5, 1.0, 2.0, 4.5])
        axis = rng.randrange(3)
        q = list(V[-1])
        q[axis] += step
        q[(axis + 1) % 3] += rng.choice([0.0, 0.25, 1.0])
        V.append(q)
    E = [[i, i + 1] for i in range(ne)]
    return {"kind": "polyline", "V": V, "E": E, "n": 200, "pc": False, "seed": rng.randrange(1 << 30), "many": True}


def gen_many_surface(rng):
    c = gen_surface(rng)
    while not (2 <= len(c["F"]) <= 4):
        c = gen_surface(rng)
    for key in ("pre", "V2", "junk"):
        c.pop(key, None)
    c.update(n=200, pc=False, normals=False, many=True)
    return c


def tri_degenerate(A, B, C):
    u = [b - a for a, b in zip(A, B)]
    v = [c - a for a, c in zip(A, C)]
    cr = [u[1] * v[2] - u[2] * v[1], v[0] * u[2] - v[2] * u[0], u[0] * v[1] - u[1] * v[0]]
    return cr == [0, 0, 0]


def gen_surface(rng):
    shape = rng.choice(["strip", "strip", "fan", "tetra", "single"])
    if shape == "single":
        nv, F = 3, [[0, 1, 2]]
    elif shape == "tetra":
        nv, F = 4, [[0, 2, 1], [0, 1, 3], [1, 2, 3], [2, 0, 3]]
    elif shape == "strip":
        k = rng.randint(2, 6)
        nv = k + 2
        F = [[i, i + 1, i + 2] if i % 2 == 0 else [i + 1, i, i + 2] for i in range(k)]
    else:
        k = rng.randint(2, 5)
        nv = k + 2
        F = [[0, i + 1, i + 2] for i in range(k)]
    for _ in range(50):
        V = [pt3(rng) for _ in range(nv)]
        if not any(tri_degenerate(V[a], V[b], V[c]) for a, b, c in F):
            break
    else:
        V = [[float(i), float(i * i % 5), float(i * i * i % 7)] for i in range(nv)]
    rot = rng.randrange(3)
    F = [f[rot:] + f[:rot] for f in F]
    n = rng.choice([0, 1, 2, 3, 5, 8])
    c = {"kind": "surface", "V": V, "F": F, "n": n, "pc": rng.random() < 0.35, "normals": rng.random() < 0.6,
         "seed": rng.randrange(1 << 30)}
    if shape != "tetra" and rng.random() < 0.15:
        # a zero-area face (valid combinatorics) on the border edge of the first face; it has no normal, so no normals
        a0, b0 = 0, 1
        V = V + [[(x + y) / 2 for x, y in zip(V[a0], V[b0])]]
        c["V"] = V
        c["F"] = F + [[b0, a0, len(V) - 1]]
        c["normals"] = False
        c["flat_face"] = True
        return c
    add_scenario(rng, c, lambda V2: not any(tri_degenerate(V2[a], V2[b], V2[cc]) for a, b, cc in F))
    return c


def dyadic_param(rng, den):
    r = rng.random()
    if r < 0.12:
        return 0.0
    if r < 0.24:
        return 1.0
    if r < 0.36:
        return rng.choice([-1.0, -0.125, 1.125, 2.0, -1 / den, 1 + 1 / den])
    return rng.randint(0, den) / den


def add_alias(rng, c, patch):
    """~40 %: the caller modifies, in place, points it got from evaluate / an export before the observed call"""
    if rng.random() < 0.6:
        return c
    pre = []
    for _ in range(rng.choice([1, 1, 2, 3])):
        r = rng.random()
        if r < 0.75:
            t = lambda: rng.choice([0.0, 1.0, 0, 1, 0.5, rng.randint(0, 8) / 8, 1.5, -0.25, c.get("t", 0.5), c.get("u", 1.0)])
            pre.append({"at": [t(), t()] if patch else t()})
        else:
            pre.append({"export": [rng.choice([1, 2, 3]), rng.choice([1, 2, 3])] if patch else rng.choice([1, 2, 3])})
    c["alias"] = {"pre": pre, "op": rng.choice([["add", 1.0], ["add", -0.5], ["mul", 2.0], ["mul", 0.0]])}
    return c


def gen_curve(rng, exact):
    deg = rng.choice([0, 1, 2, 2, 3, 3, 4, 5])
    dim = rng.choice([2, 3, 3, 1, 4]) if exact else rng.choice([2, 3])
    P = [[dy(rng, -64, 64) for _ in range(dim)] for _ in range(deg + 1)]
    if exact and rng.random() < 0.03:
        P = []
    elif rng.random() < 0.04:
        P = [list(P[0]) for _ in P]       # all control points coincide
    t = dyadic_param(rng, 16) if exact else rng.choice([rng.random(), rng.random(), 1 / 3, 0.1, 1 - 2 ** -53, 2 ** -40,
                                                        1 + 2 ** -52, -2 ** -60, float("nan"), float("inf"), float("-inf"),
                                                        -0.0, float("nan")])
    return add_alias(rng, {"kind": "curve", "P": P, "t": t, "exact": exact}, False)


def gen_net(rng, maxdeg=3):
    r, c = rng.randint(1, maxdeg + 1), rng.randint(1, maxdeg + 1)
    return [[[dy(rng, -64, 64) for _ in range(3)] for _ in range(c)] for _ in range(r)]


def gen_patch(rng, exact):
    rows = gen_net(rng)
    if exact:
        u, v = dyadic_param(rng, 8), dyadic_param(rng, 8)
    else:
        u, v = rng.random(), rng.choice([rng.random(), 1 / 3, 1.0, 0.0, float("nan"), float("inf"), -0.0])
        if rng.random() < 0.15:
            u, v = rng.choice([float("nan"), float("-inf"), 1 + 2 ** -52]), rng.random()
    return add_alias(rng, {"kind": "patch", "rows": rows, "u": u, "v": v, "exact": exact}, True)


def gen_polylinex(rng, small=None):
    deg = rng.choice([1, 2, 3, 4])
    dim = rng.choice([2, 3])
    P = [[dy(rng, -64, 64) for _ in range(dim)] for _ in range(deg + 1)]
    r = rng.random()
    if small is not None:
        return {"kind": "polylinex", "P": P, "n_pts": small, "custom": None}
    if r < 0.45:
        return add_alias(rng, {"kind": "polylinex", "P": P, "n_pts": rng.choice([1, 2, 3, 4, 5, 7, 10]), "custom": None}, False)
    m = rng.choice([0, 1, 2, 3, 4, 6])
    custom = sorted(rng.randint(0, 16) / 16 for _ in range(m))
    if m == 0:
        return {"kind": "polylinex", "P": P, "n_pts": rng.choice([None, 3]), "custom": []}
    if rng.random() < 0.12:
        custom[rng.randrange(m)] = rng.choice([1.25, -0.5, float("nan"), float("inf"), float("nan")])
    n_pts = None if rng.random() < 0.5 else rng.choice([0, 1, 2, 3, 5, 9])
    return add_alias(rng, {"kind": "polylinex", "P": P, "n_pts": n_pts, "custom": custom}, False)


def gen_surfacex(rng, n1=None, n2=None):
    rows = gen_net(rng, 2)
    if n1 is None:
        n1, n2 = rng.choice([1, 2, 3, 4, 5]), rng.choice([1, 2, 3, 4, 5, 6])
        if rng.random() < 0.03:
            n1 = n2 = None          # as_surface() with its default resolutions
        return add_alias(rng, {"kind": "surfacex", "rows": rows, "n1": n1, "n2": n2}, True)
    return {"kind": "surfacex", "rows": rows, "n1": n1, "n2": n2}


# ---------------------------------------------------------------------- encoders
def F(x):
    return float_pair(float(x))


def fl(xs):
    return coq_list([F(x) for x in xs])


def f3(p):
    return "(%s, %s, %s)" % (F(p[0]), F(p[1]), F(p[2]))


def f3l(ps):
    return coq_list([f3(p) for p in ps])


def fll(ps):
    return coq_list([fl(p) for p in ps])


ERR = {"range": "EOutOfRange", "index": "EIndex", "emptybox": "EEmptyBox", "badmode": "EBadMode", "dimgt3": "EDimGt3"}


def res_term(obs, ok_term):
    if "exc" in obs:
        return "(Err %s)" % ERR.get(obs["exc"], "EShape")
    return "(Ok %s)" % ok_term(obs)


class Protocol(Exception):
    """the recorded draws do not have the structure the model expects"""


def draws(obs, fn):
    return [d for d in obs["draws"] if d["fn"] == fn]


def float_case_term(c, obs):
    k = c["kind"]
    D = obs["draws"]
    if k in ("sphere", "ball"):
        if "exc" in obs:
            raise Protocol("%s raised %s" % (k, obs["exc"]))
        want = ["normal"] * 3 + (["uniform"] if k == "ball" else [])
        if [d["fn"] for d in D] != want or any(len(d["out"]) != c["n"] for d in D):
            raise Protocol("%s: draws %s" % (k, [(d["fn"], len(d["out"])) for d in D]))
        xs, ys, zs = D[0]["out"], D[1]["out"], D[2]["out"]
        if k == "sphere":
            return "FSphere %s %s %s %s %s %s" % (F(c["radius"]), f3(c["center"]), fl(xs), fl(ys), fl(zs), f3l(obs["out"]))
        return "FBall %s %s %s %s %s %s %s %s %s" % (F(c["radius"]), f3(c["center"]), F(D[3]["lo"]), F(D[3]["hi"]),
                                                   fl(xs), fl(ys), fl(zs), fl(D[3]["out"]), f3l(obs["out"]))
    if k == "box":
        mode = {"uniform": "MUniform", "grid": "MGrid"}.get(c["mode"], "MOther")
        mode_term = "None" if (c.get("form") == "omit" and c["mode"] == "uniform") else "(Some %s)" % mode
        d = len(c["p1"])
        us = []
        if "exc" not in obs and mode == "MUniform":
            if [x["fn"] for x in D] != ["random"] or D[0]["shape"] != [c["n"], d]:
                raise Protocol("box uniform: draws %s" % [(x["fn"], x.get("shape")) for x in D])
            flat = D[0]["out"]
            us = [flat[i * d:(i + 1) * d] for i in range(c["n"])]
        elif D:
            raise Protocol("box: unexpected draws")
        out = dict(obs)
        if "out" in out and mode == "MGrid":
            out["out"] = sorted(out["out"])
        return "FBox %s %s %s %s %s %s %s" % (mode_term, coq_bool(c["pc"]), fl(c["p1"]), fl(c["p2"]), zlit(c["n"]), fll(us),
                                             res_term(out, lambda o: fll(o["out"])))
    if k == "polyline":
        V, E = obs["V"], obs["E"]
        ch = draws(obs, "choice")
        rd = draws(obs, "random")
        probs, chosen = "None", []
        if ch:
            if len(ch) != 1 or D[0]["fn"] != "choice" or ch[0]["a"] != len(E) or ch[0]["size"] != c["n"] or ch[0]["p"] is None:
                raise Protocol("polyline: choice call %s" % ch)
            probs = "(Some %s)" % fl(ch[0]["p"])
            chosen = ch[0]["out"]
        if "exc" not in obs and (len(rd) != c["n"] or any(len(x["out"]) != 1 for x in rd)):
            raise Protocol("polyline: %d scalar draws for %d points" % (len(rd), c["n"]))
        ts = [x["out"][0] for x in rd]
        if "exc" in obs:
            ts = ts + [0.5] * (c["n"] - len(ts))   # the failing iteration never drew
        return "FPoly %s %s %s %s %s %s %s" % (f3l(V), coq_list(["(%s, %s)" % (zlit(a), zlit(b)) for a, b in E]), zlit(c["n"]),
                                              core.zlist(chosen), fl(ts), probs, res_term(obs, lambda o: f3l(o["out"])))
    if k == "surface":
        V, Fc = obs["V"], obs["F"]
        ch = draws(obs, "choice")
        rd = draws(obs, "random")
        if "exc" in obs:
            raise Protocol("surface raised %s" % obs["exc"])
        if len(ch) != 1 or D[0]["fn"] != "choice" or ch[0]["a"] != len(Fc) or ch[0]["size"] != c["n"] or ch[0]["p"] is None:
            raise Protocol("surface: choice call")
        if len(rd) != c["n"] or any(len(x["out"]) != 2 for x in rd):
            raise Protocol("surface: pair draws")
        us = coq_list(["(%s, %s)" % (F(x["out"][0]), F(x["out"][1])) for x in rd])
        nn = "(Some %s)" % f3l(obs["normals"]) if "normals" in obs else "None"
        return "FSurf %s %s %s %s %s %s %s" % (f3l(V), coq_list(["(%s, %s, %s)" % tuple(zlit(x) for x in f) for f in Fc]),
                                              core.zlist(ch[0]["out"]), us, fl(ch[0]["p"]),
                                              res_term(obs, lambda o: f3l(o["out"])), nn)
    if k == "curve":
        return "FCurve %s %s %s" % (fll(c["P"]), F(c["t"]), res_term(obs, lambda o: fl(o["out"])))
    if k == "patch":
        return "FPatch %s %s %s %s" % (coq_list([fll(r) for r in c["rows"]]), F(c["u"]), F(c["v"]),
                                      res_term(obs, lambda o: fl(o["out"])))
    if k == "polylinex":
        n_pts = "None" if c["n_pts"] is None else "(Some %s)" % zlit(c["n_pts"])
        cu = "None" if c["custom"] is None else "(Some %s)" % fl(c["custom"])
        return "FPolylineX %s %s %s %s" % (fll(c["P"]), n_pts, cu, res_term(obs, lambda o: "(%s, %s, %s)" % (
            fll(o["verts"]), fl(o["t"]), coq_list(["(%s, %s)" % (zlit(a), zlit(b)) for a, b in o["edges"]]))))
    if k == "surfacex":
        oz = lambda v: "None" if v is None else "(Some %s)" % zlit(v)
        return "FSurfaceX %s %s %s %s" % (coq_list([fll(r) for r in c["rows"]]), oz(c["n1"]), oz(c["n2"]),
                                         res_term(obs, lambda o: "(%s, %s, %s)" % (
                                             fll(o["verts"]), coq_list(["(%s, %s)" % (F(a), F(b)) for a, b in o["uv"]]),
                                             coq_list([core.zlist(f) for f in o["faces"]]))))
    raise Protocol("unknown kind " + k)


def Q(x):
    return qlit(Fraction(x))


def ql(xs):
    return coq_list([Q(x) for x in xs])


def q_case_term(c, obs):
    out = res_term(obs, lambda o: ql(o["out"]))
    if c["kind"] == "curve":
        return "QCurve %s %s %s" % (coq_list([ql(p) for p in c["P"]]), Q(c["t"]), out)
    return "QPatch %s %s %s %s" % (coq_list([coq_list([ql(p) for p in r]) for r in c["rows"]]), Q(c["u"]), Q(c["v"]), out)


# ---------------------------------------------------------------------- the independent oracle
def close(a, b, tol=TOL):
    return abs(a - b) <= tol * (1 + abs(b))


def nearest_root(n, d):
    """integer r with |n^(1/d) - r| < 1/2, by integer arithmetic"""
    r = 0
    while (2 ** d) * n >= (2 * r + 1) ** d:
        r += 1
    return r


def seg_dist(p, a, b):
    ab = [y - x for x, y in zip(a, b)]
    ap = [y - x for x, y in zip(a, p)]
    den = sum(x * x for x in ab)
    s = 0.0 if den == 0 else max(0.0, min(1.0, sum(x * y for x, y in zip(ab, ap)) / den))
    q = [x + s * y for x, y in zip(a, ab)]
    return math.dist(p, q)


def cross(u, v):
    return [u[1] * v[2] - u[2] * v[1], u[2] * v[0] - u[0] * v[2], u[0] * v[1] - u[1] * v[0]]


def in_triangle(p, A, B, C, tol=1e-8):
    u = [b - a for a, b in zip(A, B)]
    v = [c - a for a, c in zip(A, C)]
    w = [x - a for a, x in zip(A, p)]
    n = cross(u, v)
    nn = sum(x * x for x in n)
    scale = max(abs(x) for x in A + B + C) or 1.0
    if nn == 0:
        return min(seg_dist(p, A, B), seg_dist(p, A, C), seg_dist(p, B, C)) <= tol * scale
    if abs(sum(x * y for x, y in zip(n, w))) / math.sqrt(nn) > tol * scale:
        return False
    # barycentric coordinates from the Gram system
    uu, uv, vv = sum(x * x for x in u), sum(x * y for x, y in zip(u, v)), sum(x * x for x in v)
    wu, wv = sum(x * y for x, y in zip(w, u)), sum(x * y for x, y in zip(w, v))
    det = uu * vv - uv * uv
    b = (wu * vv - wv * uv) / det
    c = (wv * uu - wu * uv) / det
    return b >= -tol and c >= -tol and b + c <= 1 + tol


def bernstein(P, t):
    """Fraction-arithmetic Bernstein form"""
    n = len(P) - 1
    t = Fraction(t)
    dim = len(P[0])
    return [sum(math.comb(n, i) * t ** i * (1 - t) ** (n - i) * Fraction(P[i][k]) for i in range(n + 1)) for k in range(dim)]


def patch_bernstein(rows, u, v):
    q = [bernstein(r, u) for r in rows]
    return bernstein(q, v)


def hull_box_ok(P, x):
    S = max(abs(v) for p in P for v in p) or 1.0
    return all(min(p[k] for p in P) - TOL * S <= x[k] <= max(p[k] for p in P) + TOL * S for k in range(len(x)))


def oracle(c, obs):
    """None, or a sentence saying how the observation violates C19."""
    k = c["kind"]
    exc = obs.get("exc")
    # A refusal is judged from the INPUT: where the text wants an answer any exception is a violation, where a refusal is
    # legitimate (or the text does not speak about the input) any exception class / message is accepted.
    unusual = bool(c.get("rep") or c.get("net_as") or c.get("custom_as"))     # argument forms the text does not name
    degenerate = (c.get("n") == 0 or c.get("n_pts") == 0 or c.get("n1") == 0 or c.get("n2") == 0 or c.get("radius") == 0
                  or c.get("custom") == [])
    if exc and (unusual or degenerate):
        return None
    if obs.get("inputs_changed"):
        return "%s modified the geometry it was given: %s" % (k, obs["inputs_changed"])
    if k in ("sphere", "ball"):
        if exc:
            return "%s raised %s" % (k, exc)
        out, ce, r = obs["out"], c["center"], c["radius"]
        S = max([abs(r)] + [abs(x) for x in ce]) or 1.0
        if len(out) != c["n"]:
            return "%s returned %d points, %d requested" % (k, len(out), c["n"])
        for p in out:
            d = math.dist(p, ce)
            if k == "sphere" and abs(d - r) > TOL * S:
                return "sphere sample %s is at distance %.12g from the centre, radius is %g" % (p, d, r)
            if k == "ball" and d > r + TOL * S:
                return "ball sample %s is at distance %.12g > radius %g from the centre" % (p, d, r)
        return None
    if k == "box":
        p1, p2, d = c["p1"], c["p2"], len(c["p1"])
        # the text does not speak about unknown mode strings, empty boxes or point clouds of dimension > 3: a refusal
        # (any class) is accepted, and so is an answer that stays in the (closed) box
        free = c["mode"] not in ("uniform", "grid") or any(a >= b for a, b in zip(p1, p2)) or (d > 3 and c["pc"])
        if exc:
            return None if free else "sample_AABB raised %s on a valid request" % exc
        want = c["n"] if c["mode"] == "uniform" else nearest_root(c["n"], d) ** d
        if free:
            want = len(obs["out"])
        if len(obs["out"]) != want:
            return "sample_AABB(%s) returned %d points, expected %d" % (c["mode"], len(obs["out"]), want)
        S = max(abs(x) for x in p1 + p2) or 1.0
        for p in obs["out"]:
            if len(p) != d or any(not (a - TOL * S <= x <= b + TOL * S) for x, a, b in zip(p, p1, p2)):
                return "sample_AABB(%s) point %s is outside the box %s -> %s" % (c["mode"], p, p1, p2)
        if c["mode"] == "grid" and not free and len({tuple(p) for p in obs["out"]}) != want:
            return "grid samples are not distinct"
        return None
    if k == "polyline":
        V, E = obs["V"], obs["E"]
        if not E:
            # nothing to sample: any refusal is fine; an answer can only be empty
            return None if (exc or not obs["out"]) else "polyline without edges returned points %s" % obs["out"][:2]
        if exc:
            return "sample_polyline raised %s" % exc
        if len(obs["out"]) != c["n"]:
            return "sample_polyline returned %d points, %d requested" % (len(obs["out"]), c["n"])
        scale = max(abs(x) for p in V for x in p) or 1.0
        for p in obs["out"]:
            if min(seg_dist(p, V[a], V[b]) for a, b in E) > 1e-9 * scale:
                return "polyline sample %s is on no edge" % p
        lens = [math.dist(V[a], V[b]) for a, b in E]
        ch = draws(obs, "choice")
        for x in ch:
            m = prob_check(x["p"], lens, "length") if x["p"] is not None else "choice called without p"
            if m:
                return m
        if c.get("many"):
            tot = sum(lens)
            cnt = [0] * len(E)
            for p in obs["out"]:
                ds = [seg_dist(p, V[a], V[b]) for a, b in E]
                cnt[ds.index(min(ds))] += 1
            m = share_check(cnt, [x / tot for x in lens], "edge", "length")
            if m:
                return m
            for k2, (a, b) in enumerate(E):
                if lens[k2] >= 0.08 * tot and not any(seg_dist(p, V[a], V[b]) <= 1e-9 * scale for p in obs["out"]):
                    return ("edge %d holds %.0f%% of the length but received none of %d samples (shares per edge: %s)"
                            % (k2, 100 * lens[k2] / tot, c["n"],
                               [sum(1 for p in obs["out"] if seg_dist(p, V[x], V[y]) <= 1e-9 * scale) for x, y in E]))
        return None
    if k == "surface":
        V, Fc = obs["V"], obs["F"]
        if exc:
            return "sample_surface raised %s" % exc
        if len(obs["out"]) != c["n"]:
            return "sample_surface returned %d points, %d requested" % (len(obs["out"]), c["n"])
        if c["normals"] and len(obs.get("normals", [])) != c["n"]:
            return "sample_surface returned %d normals for %d points" % (len(obs.get("normals", [])), c["n"])
        for i, p in enumerate(obs["out"]):
            inside = [f for f in Fc if in_triangle(p, V[f[0]], V[f[1]], V[f[2]])]
            if not inside:
                return "surface sample %s is inside no face" % p
            if c["normals"]:
                nn = obs["normals"][i]
                ok = False
                for f in inside:
                    n = cross([b - a for a, b in zip(V[f[0]], V[f[1]])], [b - a for a, b in zip(V[f[0]], V[f[2]])])
                    l = math.sqrt(sum(x * x for x in n))
                    if l > 0 and all(close(x, y / l, 1e-8) for x, y in zip(nn, n)):
                        ok = True
                if not ok:
                    return "normal %s of sample %s is not the unit normal of a face containing it" % (nn, p)
        ar = []
        for f in Fc:
            n = cross([b - a for a, b in zip(V[f[0]], V[f[1]])], [b - a for a, b in zip(V[f[0]], V[f[2]])])
            ar.append(math.sqrt(sum(x * x for x in n)) / 2)
        ch = draws(obs, "choice")
        for x in ch:
            m = prob_check(x["p"], ar, "area") if x["p"] is not None else "choice called without p"
            if m:
                return m
        if c.get("many"):
            tot = sum(ar)
            cnt = [0] * len(Fc)
            for p in obs["out"]:
                ins = [i2 for i2, f in enumerate(Fc) if in_triangle(p, V[f[0]], V[f[1]], V[f[2]])]
                if ins:
                    cnt[ins[0]] += 1
            m = share_check(cnt, [x / tot for x in ar], "face", "area")
            if m:
                return m
            for k2, f in enumerate(Fc):
                if ar[k2] >= 0.08 * tot and not any(in_triangle(p, V[f[0]], V[f[1]], V[f[2]]) for p in obs["out"]):
                    return ("face %d holds %.0f%% of the area but received none of %d samples" % (k2, 100 * ar[k2] / tot, c["n"]))
        return None
    if k in ("curve", "patch"):
        params = [c["t"]] if k == "curve" else [c["u"], c["v"]]
        P = c["P"] if k == "curve" else c["rows"]
        if any(not (0 <= t <= 1) for t in params):
            # must be rejected: any exception class will do
            return None if exc else "parameter %s outside [0,1] not rejected (returned %s)" % (params, obs.get("out"))
        if not P or (k == "patch" and not P[0]):
            return None                                   # empty control net: the text does not say
        if exc:
            return "Bezier evaluation raised %s for parameters %s in [0,1]" % (exc, params)
        want = bernstein(P, params[0]) if k == "curve" else patch_bernstein(P, params[0], params[1])
        got = obs["out"]
        flat = P if k == "curve" else [p for row in P for p in row]
        S = max(abs(x) for p in flat for x in p) or 1.0
        if len(got) != len(want) or any(abs(g - float(w)) > TOL * S for g, w in zip(got, want)):
            return "Bezier value %s differs from the Bernstein polynomial %s at %s" % (got, [float(w) for w in want], params)
        if not hull_box_ok(flat, got):
            return "Bezier value %s leaves the bounding box of the control points" % got
        return None        # end points / corners: the Bernstein value at 0 / 1 IS the control point (checked above)
    if k == "polylinex":
        n_pts = 100 if c["n_pts"] is None else c["n_pts"]
        ts = c["custom"] if c["custom"] is not None else ([i / (n_pts - 1) for i in range(n_pts)] if n_pts > 1 else [0.0] * n_pts)
        if any(not (0 <= t <= 1) for t in ts):
            return None if exc else "parameter outside [0,1] not rejected by as_polyline"
        if exc:
            return "as_polyline raised %s" % exc
        m = len(ts)
        verts = obs["verts"]
        if len(verts) != m:
            return "as_polyline has %d vertices for %d sample positions" % (len(verts), m)
        S = max(abs(x) for p in c["P"] for x in p) or 1.0

        def at(t):
            w = [float(x) for x in bernstein(c["P"], t)]
            return w + [0.0] * (3 - len(w))

        def same(a, b):
            return all(abs(x - y) <= TOL * S for x, y in zip(a, b))
        # parameter of every vertex: from the attribute when there is one, else recovered from the position; the
        # numbering of the vertices is free, the multiset of parameters is not
        par = obs.get("t")
        if par is None or any(not same(v, at(t)) for v, t in zip(verts, par)):
            par, free_ts = [], list(ts)
            for v in verts:
                hit = [t for t in free_ts if same(v, at(t))]
                if not hit:
                    return "vertex %s is not the curve at any of the sampled positions %s" % (v, ts[:8])
                par.append(hit[0])
                free_ts.remove(hit[0])
        if any(not close(a, b) for a, b in zip(sorted(par), sorted(ts))):
            return "vertex parameters %s are not the sampled positions %s" % (sorted(par)[:8], sorted(ts)[:8])
        rank = {v: r for r, v in enumerate(sorted(range(m), key=lambda q: (par[q], q)))}
        got_e = sorted(tuple(sorted((rank[a], rank[b]))) for a, b in obs["edges"] if 0 <= a < m and 0 <= b < m)
        if len(got_e) != len(obs["edges"]) or got_e != [(i, i + 1) for i in range(m - 1)]:
            return "as_polyline edges %s do not link the %d consecutive samples" % (obs["edges"][:8], m)
        return None
    if k == "surfacex":
        n1, n2 = (20, 20) if c["n1"] is None else (c["n1"], c["n2"])      # documented defaults of as_surface
        if exc:
            return "as_surface(%d,%d) raised %s" % (n1, n2, exc)
        U = [i / (n1 - 1) for i in range(n1)] if n1 > 1 else [0.0] * n1
        Vv = [i / (n2 - 1) for i in range(n2)] if n2 > 1 else [0.0] * n2
        verts = obs["verts"]
        nv = len(verts)
        if nv != n1 * n2:
            return "as_surface(%d,%d) has %d vertices" % (n1, n2, nv)
        if len(obs["faces"]) != max(n1 - 1, 0) * max(n2 - 1, 0):
            return "as_surface(%d,%d) has %d faces, expected %d" % (n1, n2, len(obs["faces"]), (n1 - 1) * (n2 - 1))
        for f in obs["faces"]:
            if len(f) != 4 or any(not (0 <= x < nv) for x in f):
                return "as_surface(%d,%d): face %s has an index outside [0,%d)" % (n1, n2, f, nv)
        S = max(abs(x) for row in c["rows"] for p in row for x in p) or 1.0
        grid = {(i, j): [float(x) for x in patch_bernstein(c["rows"], U[i], Vv[j])] for i in range(n1) for j in range(n2)}

        def same(a, b):
            return all(abs(x - y) <= TOL * S for x, y in zip(a, b))
        # which grid sample every vertex is: from the uv attribute when there is one, else from the position
        # (vertex numbering is free; every sample must be present exactly once)
        cell_of = None
        uv = obs.get("uv")
        if uv is not None:
            cand = [(min(range(n1), key=lambda a: abs(U[a] - q[0])), min(range(n2), key=lambda a: abs(Vv[a] - q[1]))) for q in uv]
            if all(same(v, grid[ij]) for v, ij in zip(verts, cand)) and len(set(cand)) == nv:
                cell_of = cand
        if cell_of is None:
            cell_of, unused = [], dict(grid)
            for v in verts:
                hit = [ij for ij in unused if same(v, unused[ij])]
                if not hit:
                    return "as_surface(%d,%d): vertex %s is not the patch at an unused grid sample" % (n1, n2, v)
                cell_of.append(hit[0])
                del unused[hit[0]]
        cells, orient = set(), set()
        for f in obs["faces"]:
            ij = [cell_of[x] for x in f]
            i0, j0 = min(a for a, _ in ij), min(b for _, b in ij)
            ring = [(i0, j0), (i0, j0 + 1), (i0 + 1, j0 + 1), (i0 + 1, j0)]
            rots = [ring[r:] + ring[:r] for r in range(4)]
            if ij in rots:
                orient.add(1)
            elif ij[::-1] in rots:
                orient.add(-1)
            else:
                return "as_surface(%d,%d): face %s joins grid samples %s, not the corners of one grid cell in cyclic order" % (n1, n2, f, ij)
            cells.add((i0, j0))
        if len(cells) != len(obs["faces"]):
            return "as_surface(%d,%d): some grid cell is covered twice" % (n1, n2)
        if len(orient) > 1:
            return "as_surface(%d,%d): faces are not consistently oriented" % (n1, n2)
        return None
    if k in ("freq_polyline", "freq_surface"):
        return obs.get("fail")
    return "unknown case kind"


def share_check(counts, shares, elt, what):
    """statistical but with a vanishing false-alarm rate (fixed seeds, threshold far in the tail): the observed counts per
    edge/face over a few hundred draws must be compatible with the length/area shares"""
    n = sum(counts)
    chi, df = 0.0, -1
    for cnt, q in zip(counts, shares):
        if q * n >= 5:
            chi += (cnt - q * n) ** 2 / (q * n)
            df += 1
        elif q == 0 and cnt:
            return "%d samples on an %s of zero %s" % (cnt, elt, what)
    df = max(df, 1)
    if chi > df + 10 * math.sqrt(2 * df) + 30:
        return ("samples per %s %s do not follow the %s shares %s (chi2 = %.0f on %d degrees of freedom, %d draws)"
                % (elt, counts, what, [round(q, 3) for q in shares], chi, df, n))
    return None


def protocol_check(c, obs):
    """Mechanism, not property: with >= 2 edges/faces the model expects ONE call choice(N, size=n, p=weights/sum) and each
    sample on the edge/face drawn for it. A mismatch only means the model no longer describes the code (unproved)."""
    k = c["kind"]
    if k not in ("polyline", "surface") or "exc" in obs or "out" not in obs:
        return None
    elems = obs["E"] if k == "polyline" else obs["F"]
    V = obs["V"]
    ch = draws(obs, "choice")
    if len(elems) >= 2:
        if len(ch) != 1 or ch[0]["a"] != len(elems) or ch[0]["size"] != c["n"] or ch[0]["p"] is None:
            return "%s with %d elements: indices were not drawn by one call choice(%d, size=%d, p=...); recorded: %s" % (
                k, len(elems), len(elems), c["n"], [(x["a"], x["size"]) for x in ch])
    used = ch[0]["out"] if ch else [0] * len(obs["out"])
    scale = max([abs(x) for p in V for x in p] + [1e-300])
    for p, e in zip(obs["out"], used):
        if not (0 <= e < len(elems)):
            return "%s: drawn index %s out of range" % (k, e)
        if k == "polyline" and seg_dist(p, V[elems[e][0]], V[elems[e][1]]) > 1e-9 * scale:
            return "polyline sample %s is not on edge %s, the one drawn for it" % (p, e)
        if k == "surface" and not in_triangle(p, V[elems[e][0]], V[elems[e][1]], V[elems[e][2]]):
            return "surface sample %s is not in face %s, the one drawn for it" % (p, e)
    return None


def prob_check(p, w, what):
    tot = sum(w)
    if any(x < 0 for x in p):
        return "probability vector %s has a negative entry" % p
    if not close(sum(p), 1.0):
        return "probability vector sums to %r" % sum(p)
    if any(not close(x * tot, y, 1e-8) for x, y in zip(p, w)):
        return "probability vector %s is not proportional to %s %s" % (p, what, w)
    return None


# ---------------------------------------------------------------------- shrinking
def shrink(case, fails):
    """parameter descent: smaller n / resolutions / simpler flags while the oracle still fails"""
    cur = dict(case)
    changed = True
    while changed:
        changed = False
        for key in ("n", "n1", "n2", "n_pts"):
            v = cur.get(key)
            if isinstance(v, int) and v > 0:
                for cand in sorted({0, 1, 2, v // 2, v - 1}):
                    if cand < v:
                        t = dict(cur, **{key: cand})
                        if fails(t):
                            cur, changed = t, True
                            break
        if cur.get("alias"):
            t = {q: v for q, v in cur.items() if q != "alias"}
            if fails(t):
                cur, changed = t, True
            elif len(cur["alias"]["pre"]) > 1:
                for i in range(len(cur["alias"]["pre"])):
                    t = dict(cur, alias=dict(cur["alias"], pre=cur["alias"]["pre"][:i] + cur["alias"]["pre"][i + 1:]))
                    if fails(t):
                        cur, changed = t, True
                        break
        for key in ("V2", "pre"):
            if key in cur:
                t = {q: v for q, v in cur.items() if q != key and not (key == "pre" and q in ("junk", "V2"))}
                if fails(t):
                    cur, changed = t, True
        for key in ("pc", "normals"):
            if cur.get(key):
                t = dict(cur, **{key: False})
                if fails(t):
                    cur, changed = t, True
        if cur.get("custom") and len(cur["custom"]) > 1:
            for i in range(len(cur["custom"])):
                t = dict(cur, custom=cur["custom"][:i] + cur["custom"][i + 1:])
                if fails(t):
                    cur, changed = t, True
                    break
    return cur


def run_one(case):
    return core.run_impl(DRIVER, {"cases": [case]}, timeout=120)["obs"][0]


def klass(c, msg):
    k = c["kind"]
    if k == "box":
        return "box/" + c["mode"] + ("/corner-arrays-" + c["corners"] if c.get("corners") else "")
    if k == "ball":
        return "ball/" + ("r<1" if c["radius"] < 1 else "r>=1")
    if k == "surfacex":
        return "as_surface/" + ("n1=n2" if c["n1"] == c["n2"] else "n1!=n2")
    if k == "polylinex":
        return "as_polyline/" + ("custom" if c["custom"] is not None else "linspace")
    if c.get("alias"):
        return k + "/after-in-place-edit-of-returned-points"
    if k in ("polyline", "surface") and c.get("many"):
        return k + "/shares"
    if k in ("polyline", "surface") and c.get("pre"):
        return "%s/attributes-%s%s" % (k, c["pre"], "-moved" if c.get("V2") else "")
    return k


# ---------------------------------------------------------------------- frequency support test (thorough)
def freq_cases(rng):
    out = []
    for i in range(3):
        c = gen_polyline(rng)
        while len(c["E"]) < 3:
            c = gen_polyline(rng)
        c.update(n=20000, pc=False, kind="polyline")
        out.append(c)
    for i in range(3):
        c = gen_surface(rng)
        while len(c["F"]) < 3:
            c = gen_surface(rng)
        c.update(n=20000, pc=False, normals=False)
        out.append(c)
    return out


def chi_square(counts, p):
    n = sum(counts)
    chi = 0.0
    df = -1
    for cnt, q in zip(counts, p):
        if q * n < 5:
            if cnt and q == 0:
                return float("inf"), 1
            continue
        chi += (cnt - q * n) ** 2 / (q * n)
        df += 1
    return chi, max(df, 1)


# ---------------------------------------------------------------------- the check
def load_corpus():
    out = []
    cdir = os.path.join(core.ROOT, "corpus", "C19")
    if os.path.isdir(cdir):
        for f in sorted(os.listdir(cdir)):
            if f.endswith(".json"):
                d = json.load(open(os.path.join(cdir, f)))
                out += d["cases"] if "cases" in d else [d.get("case", d)]
    return out


def run(ctx):
    quick = ctx.tier == "quick"
    rng = ctx.rng
    ctx.rule = ("cases: sphere/ball (12 radii from 0.03 to 17, n<=8), boxes of dimension 1-6 in uniform and grid mode incl. "
                "empty boxes / bad modes / dim>3 point clouds, polylines of 0-7 edges, triangulated strips/fans/tetrahedra (45 % as multi-step scenarios: face_normals/face_area/edge_length stored "
                "on the mesh, or attributes named normals/area/length with arbitrary values, BEFORE the vertices move and the "
                "sampler runs - checked against the current geometry), "
                "Bezier curves of degree 0-5 and patches up to 3x3 with parameters in and outside [0,1], exports with equal "
                "and unequal resolutions and custom positions. Non-trivial = at least one point sampled / a non-constant "
                "net / a resolution >= 2; distinct = by canonical JSON of the request")
    ctx.assumptions += [
        "the random draws are inputs of the model: numpy's normal/uniform/random return reals in their documented ranges "
        "(normal rows are not the zero vector), choice returns indices < len(p) and follows p",
        "numpy broadcasting on Vec is coordinate-wise; control points of one net have one dimension",
        "theorems are over R; binary64 round-off enters only the correspondence (tolerance 1e-9 relative)",
        "round(np.power(n_pts, 1/dim)) evaluated in binary64 equals the exact nearest integer root: checked by table for "
        "n_pts <= %d and dim <= 8 on this run, assumed beyond" % (GRID_LIMIT_QUICK if quick else GRID_LIMIT_THOROUGH),
        "the three normal draws of a sphere/ball sample are not all exactly zero (probability 0; the code would return NaN)"]
    ctx.trusted_base += ["numpy's binary64 np.power and Python's round for the grid resolution beyond the checked table "
                         "(n_pts > limit or dim > 8)"]
    ctx.regen(sys.modules[__name__])
    b = ctx.build_props(extra_targets=["theories/C19/RunF.vo", "theories/C19/RunQ.vo"])
    ctx.hygiene(["Lib", "C19"])

    mult = 1 if quick else 20
    cases = load_corpus()
    ncorpus = len(cases)
    plan = [(lambda: gen_sphere(rng, "sphere"), 70), (lambda: gen_sphere(rng, "ball"), 80), (lambda: gen_box(rng), 140),
            (lambda: gen_polyline(rng), 100), (lambda: gen_surface(rng), 100), (lambda: gen_curve(rng, True), 120),
            (lambda: gen_curve(rng, False), 40), (lambda: gen_patch(rng, True), 60), (lambda: gen_patch(rng, False), 30),
            (lambda: gen_polylinex(rng), 70), (lambda: gen_surfacex(rng), 50)]
    for g, cnt in plan:
        cases += [decorate(rng, g()) for _ in range(cnt * mult)]
    for _ in range(3 * min(mult, 4)):
        cases += [gen_many_polyline(rng), gen_many_surface(rng)]
    # every small pair of resolutions, equal or not (exhaustive sweep: support, the theorem is unbounded)
    lim = 5 if quick else 9
    for n1 in range(0, lim + 1):
        for n2 in range(0, lim + 1):
            cases.append(gen_surfacex(rng, n1, n2))
    for n in range(0, lim + 2):
        cases.append(gen_polylinex(rng, small=n))

    nsh = max(1, min(core.NCPU, len(cases) // 40))
    payloads = [{"cases": cases[i::nsh]} for i in range(nsh)]
    results = core.run_impl_parallel(DRIVER, payloads, timeout=900)
    obs = [None] * len(cases)
    for i, r in enumerate(results):
        for j, o in zip(range(i, len(cases), nsh), r["obs"]):
            obs[j] = o

    for c, o in zip(cases, obs):
        k = c["kind"]
        ctx.count("kind " + k)
        if "exc" in o:
            ctx.count("raised " + o["exc"].split(":")[0])
        if k == "box":
            ctx.count("box mode=%s dim=%d" % (c["mode"] if c["mode"] in ("uniform", "grid") else "<invalid>", len(c["p1"])))
        if k in ("sphere", "ball"):
            ctx.count("%s radius %s 1" % (k, "<" if c["radius"] < 1 else (">" if c["radius"] > 1 else "=")))
        if k == "surfacex":
            ctx.count("as_surface n1%sn2" % ("=" if c["n1"] == c["n2"] else "!="))
        ctx.count("call form: " + c.get("form", "kw"))
        if c.get("corners"):
            ctx.count("box corners given as float ndarrays, then " + c["corners"])
        if any(isinstance(x, float) and x != x for x in [c.get("t"), c.get("u"), c.get("v")] + list(c.get("custom") or [])):
            ctx.count("NaN parameter")
        for q, v in (c.get("rep") or {}).items():
            ctx.count("representation %s=%s" % (q, v))
        for q in ("net_as", "custom_as", "twice", "scale", "flat_face"):
            if c.get(q):
                ctx.count("%s=%s" % (q, c[q] if q != "scale" else ("2^-23" if c[q] < 1 else "2^130")))
        if c.get("alias"):
            ctx.count("%s after in-place edit of returned points" % k)
        if c.get("many"):
            ctx.count("%s with 200 draws (every edge/face of share >= 8%% must be hit)" % k)
        if k == "polyline" and "E" in o:
            ctx.count("polyline NE=%s" % (len(o["E"]) if len(o["E"]) < 3 else ">=3"))
        if k == "surface" and "F" in o:
            ctx.count("surface NF=%s" % (len(o["F"]) if len(o["F"]) < 3 else ">=3"))
        if k in ("polyline", "surface"):
            ctx.count("%s scenario: %s" % (k, "fresh mesh" if not c.get("pre") else
                                           "attributes %s, then vertices %s" % ({"compute": "computed persistently", "junk": "pre-existing with arbitrary values", "sample": "left by an earlier sampling run"}[c["pre"]],
                                                                                 "moved" if c.get("V2") else "unchanged")))
        nontrivial = (c.get("n", 1) > 0 and (c.get("n1", 2) or 20) >= 2 and (c.get("n2", 2) or 20) >= 2
                      and len(c.get("P", [0, 0])) >= 2 and "exc" not in o)
        ctx.case_seen(c, nontrivial=nontrivial,
                      sample={"request": {q: v for q, v in c.items() if q not in ("V", "F", "E")},
                              "observed": {q: v for q, v in o.items() if q != "draws"}} if k in ("ball", "surfacex") else None)

    # 1. the oracle (also the search for a failing input)
    fails = [(i, m) for i, (c, o) in enumerate(zip(cases, obs)) for m in [oracle(c, o)] if m]
    unknown = [(i, m) for i, m in fails if not ctx.known(klass(cases[i], m))]
    ctx.obligation("oracle: every sample lies in its domain, counts are exact, Bezier values equal the Fraction-arithmetic "
                   "Bernstein form, export indices are grid-consistent (%d cases)" % len(cases),
                   "oracle-on-implementation", not unknown and len(cases) > 0,
                   "%d failing cases, %d of them not under a listed known-finding key" % (len(fails), len(unknown)))

    # 2. kernel-checked correspondence
    fterms, fidx, qterms, qidx, proto = [], [], [], [], []
    for i, (c, o) in enumerate(zip(cases, obs)):
        try:
            if c.get("exact"):
                qterms.append(q_case_term(c, o))
                qidx.append(i)
            else:
                fterms.append(float_case_term(c, o))
                fidx.append(i)
        except Protocol as ex:
            proto.append((i, str(ex)))
        except Exception as ex:  # noqa  (malformed observation)
            proto.append((i, "cannot encode observation: %r" % ex))
    for i, (c, o) in enumerate(zip(cases, obs)):
        m = protocol_check(c, o)
        if m:
            proto.append((i, m))
    ctx.obligation("draw protocol: every run drew exactly the random numbers the model is a function of",
                   "correspondence", not proto, "; ".join("%s: %s" % (cases[i]["kind"], m) for i, m in proto[:5]))
    bad_f = bad_q = []
    if b["model_ok"]:
        shard = min(400, max(20, -(-len(fterms) // core.NCPU)))
        ctx.log("implementation ran on %d cases, oracle failures: %d; evaluating the model in Coq" % (len(cases), len(fails)))
        bad_f = ctx.run_cases("float", HEADER_F, fterms, "check_f", case_type="fcase", shard=shard, timeout=900)
        shard = min(400, max(20, -(-len(qterms) // core.NCPU)))
        bad_q = ctx.run_cases("exact", HEADER_Q, qterms, "check_q", case_type="qcase", shard=shard, timeout=900)
    else:
        ctx.obligation("correspondence batches", "correspondence", False, "model does not compile")
    disagree = [fidx[i] for i in (bad_f or [])] + [qidx[i] for i in (bad_q or [])]

    # 2b. round(np.power(n, 1/d)) in binary64 against the exact nearest root, for ALL n <= GRID_LIMIT, d <= 8
    limit = GRID_LIMIT_QUICK if quick else GRID_LIMIT_THOROUGH
    gcase = {"kind": "gridres", "limit": limit, "dims": GRID_DIMS}
    gobs = run_one(gcase)
    ctx.extra["grid_resolution_table"] = {"limit": limit, "dims": GRID_DIMS}
    if "exc" in gobs or "tables" not in gobs:
        ctx.obligation("grid resolution table", "correspondence", False, "driver: %s" % gobs.get("exc"))
    else:
        tabs = gobs["tables"]
        gfail = None
        if 1 in GRID_DIMS and not tabs["1"].get("identity"):
            gfail = (1, None)
        for d in GRID_DIMS:
            if d == 1:
                continue
            lo = 0
            for hi, r in tabs[str(d)]:
                for n in (lo, hi):
                    if gfail is None and nearest_root(n, d) != r:
                        gfail = (d, n)
                lo = hi + 1
            if lo != limit + 1 and gfail is None:
                gfail = (d, lo)
        ctx.obligation("oracle: round(np.power(n, 1/d)) is the nearest integer root at every breakpoint, 0 <= n <= %d, d in %s; "
                       "identity for d = 1" % (limit, GRID_DIMS), "oracle-on-implementation", gfail is None, str(gfail or ""))
        if gfail is not None and gfail[1] is not None:
            d, n = gfail
            bc = {"kind": "box", "p1": [0.0] * d, "p2": [1.0] * d, "n": n, "mode": "grid", "pc": False, "seed": 0}
            bo = run_one(bc)
            ctx.violation("box: " + (oracle(bc, bo) or "round(np.power(%d, 1/%d)) is not the nearest root" % (n, d)),
                          {"case": bc, "class": "box/grid-resolution"}, key="box/grid-resolution")
        if b["model_ok"]:
            terms = ["(%s, %s, %s)" % (zlit(d), zlit(limit), coq_list(["(%s, %s)" % (zlit(hi), zlit(r)) for hi, r in tabs[str(d)]]))
                     for d in GRID_DIMS if d > 1]
            ctx.run_cases("gridres", HEADER_Q, terms, "check_grid_table", case_type="(Z * Z * list (Z * Z))", shard=1,
                          timeout=900)
        ctx.count("grid resolution table: n <= %d, d <= %d" % (limit, max(GRID_DIMS)))

    # 3. statistical support (thorough): shares per edge/face against length/area
    if not quick:
        fcs = freq_cases(rng)
        fobs = core.run_impl_parallel(DRIVER, [{"cases": [c]} for c in fcs], timeout=900)
        worst = 0.0
        for c, r in zip(fcs, fobs):
            o = r["obs"][0]
            ch = draws(o, "choice")
            if "exc" in o or not ch:
                continue
            p = ch[0]["p"]
            counts = [0] * len(p)
            for x in ch[0]["out"]:
                counts[x] += 1
            chi, df = chi_square(counts, p)
            worst = max(worst, chi / df)
            ctx.count("chi-square run")
            if chi > df + 8 * math.sqrt(2 * df) + 12:
                ctx.notes.append("chi-square support test: %s shares %s vs p %s: chi2=%.1f df=%d" % (c["kind"], counts, p, chi, df))
        ctx.extra["chi_square_support"] = {"runs": len(fcs), "samples_per_run": 20000, "worst_chi2_over_df": round(worst, 3),
                                           "status": "support only - the frequency claim is statistical and not proved"}

    # 4. verdicts
    reported = set()
    for i, msg in unknown + [f for f in fails if f not in unknown]:   # unknown classes first, every failure classified
        c = cases[i]
        key = klass(c, msg)
        if key in reported:
            continue
        reported.add(key)
        if ctx.known(key):
            ctx.report_known(key, ctx.known(key)["what"])
            continue

        def f(t):
            try:
                return oracle(t, run_one(t)) is not None
            except Exception:
                return False
        small = shrink(c, f) if i >= ncorpus else c
        o = run_one(small)
        m2 = oracle(small, o) or msg
        ctx.violation("%s: %s" % (c["kind"], m2), {"case": small, "observed": {q: v for q, v in o.items() if q != "draws"},
                                                   "class": key, "oracle": m2}, key=key)
    if disagree and not fails:
        for i in disagree[:4]:
            ctx.log("model/implementation disagree on case", i, json.dumps(cases[i])[:400],
                    json.dumps({q: v for q, v in obs[i].items() if q != "draws"})[:400])
        ctx.notes.append("model and implementation disagree on %d cases although the oracle accepts the implementation's answers"
                         % len(disagree))
    if proto and not fails:
        for i, m in proto[:3]:
            ctx.log("draw protocol mismatch on", json.dumps(cases[i])[:300], m)


def replay(ctx, data):
    c = data.get("case")
    if c is None:
        print("replay file names no concrete input:", json.dumps(data)[:400])
        return 1
    o = run_one(c)
    m = oracle(c, o)
    print("request :", json.dumps(c))
    print("observed:", json.dumps({q: v for q, v in o.items() if q != "draws"})[:2000])
    print("FAILS: " + m if m else "passes")
    return 1 if m else 0
