"""C15 - border and feature extraction are exact (mouette/processing/border.py surface part, features.py)."""
import json
import math
import os
import sys
from fractions import Fraction

from .. import core
from ..core import coq_list, coq_bool, coq_option, qlit
from ..translate import c15 as tr
from ..impl import c15_meshgen as G
from ..impl import c15_oracle as O

META = {
    "property_id": "C15",
    "design_ref": "DESIGN.md section 5, C15",
    "technique": "Coq proof (orbit argument on the border-predecessor function given by the sorted vertex "
                 "neighbourhoods; fold invariants for the loop bookkeeping, the index map and the three feature "
                 "sources; cos monotone on [0,pi] for the angle reading of the dot thresholds) + translator-regenerated "
                 "walk step / thresholds / comparison operators / short-cuts / index plumbing + kernel-checked "
                 "correspondence batches on generated surfaces",
    "level_text": "PROVED (unbounded Coq theorems about an executable model whose expressions, thresholds, comparisons and "
                  "index plumbing are regenerated from the source on every run): extract_border_cycle / _all / "
                  "extract_boundary_of_surface on tables satisfying wf_b (closed walk along border edges, each loop once, "
                  "count = number of loops, polyline = border edges, index map a bijection, component labels); the flagged "
                  "feature set and every derived container of FeatureEdgeDetector.run as functions of the tables it reads; "
                  "the same classification read on the mesh GEOMETRY (normal direction computed from the vertices, unit "
                  "normals compared without square roots, = angle between adjacent unit normals > 60 degrees / acos(4/5)), and "
                  "C15_features_are_geometric_exact_normals: on a normals table holding the exact (rational-length) unit "
                  "normals the detector model flags exactly that geometric classification; "
                  "PropsC01.v: the tables of C01's model satisfy wf_b (and the detector's wfF) for EVERY oriented manifold "
                  "surface, so no per-case hypothesis remains for the border theorems. TESTED (kernel-evaluated "
                  "correspondence + independent brute-force oracle): that the implementation returns what the model "
                  "returns on generated surfaces (fresh detectors, used meshes, one detector object re-used across runs), "
                  "that its flagged set is the geometric classification up to a 1e-9 band (the binary64 normals are only close to "
                  "the exact unit normals, so this step is tested, not proved), also after the caller moved the vertices "
                  "between two runs; wf_b / wf_f on the real tables; "
                  "corner orders are checked against the angle sums the implementation computed (angles are inputs).",
    "level_note": "Trusted: Coq kernel + vm_compute; the border/features translator; the correspondence harness "
                  "(generators, driver canonicalisation, tolerance band 1e-9 on dot products / angle sums that binary64 "
                  "does not compute exactly); C01's model of surface.py/linear.py is the one C01 ties to the code; the "
                  "corner-angle sums (corner_angles: C07) are inputs of the corner-order theorems; the observed face "
                  "normals are inputs of C15_features while C15_features_geometric / C15_unit_normals_angle are about the "
                  "vertex coordinates; Reals axioms of the stdlib only for the angle reading of the thresholds. "
                  "Deliberately left free (the oracle, which alone raises concrete violations, does not constrain them): "
                  "the class and message of the refusal of a start that is not a border vertex, and whether such a start "
                  "or a mesh without border is refused or answered by an empty result (a walk of a loop the start is not on IS a violation); the "
                  "vertex at which a cycle begins, its direction, the alignment of the edge list with the vertex list, the "
                  "order of the cycles; the numbering of the polyline vertices, the direction of the returned map, the "
                  "storage order of a polyline edge's two ends, the labels of the component attribute (only constant "
                  "exactly on loops); container types, iteration order, duplicates, explicit zero / empty entries of the "
                  "derived containers, the order inside a local index list; last-bit differences of dot products and "
                  "angle sums (band 1e-9); what is exposed as corners when flag_corners is off (None or the orders of this "
                  "edge set); attributes left on the mesh, the feature graph and corner point cloud, log lines, warnings, "
                  "scalar types. The Coq correspondence compares the walk as the code produces it (start, direction, "
                  "numbering): a change there is reported as unproved (no-failing-input-found), never as a concrete "
                  "violation.",
}

HEADER = """From Coq Require Import ZArith List Bool QArith.
Import ListNotations.
Require Import MV.C15.Model MV.C15.Run.
Open Scope Z_scope.
"""

EPS = Fraction(1, 10 ** 9)


def gen(ctx):
    # Props.v imports C01's cone (BridgeThm.v): C01's generated model must be regenerated from the same
    # working tree, otherwise the bridge theorems would be checked against a stale model of surface.py
    from ..translate import c01 as tr01
    files = dict(tr01.gen())
    files.update(tr.gen())
    return files


# ---------------------------------------------------------------------- encoders
# the case files open Z_scope: integer literals are written bare (far fewer tokens to parse than `3%Z`)
def zlit(n):
    return "(%d)" % n if n < 0 else "%d" % n


def zlist(xs):
    return coq_list([zlit(int(x)) for x in xs])


def plist(ps):
    return coq_list(["(%s, %s)" % (zlit(a), zlit(b)) for a, b in ps])


def ozlit(x):
    return "None" if x is None else "(Some %s)" % zlit(x)


def ints3(p):
    out = []
    for s in p:
        f = Fraction(s)
        if f.denominator != 1:
            raise ValueError("non-integer coordinate %s" % s)
        out.append(int(f))
    return "(%s, %s, %s)" % tuple(zlit(x) for x in out)


def me(s):
    """exact binary64 value given as 'num/den' -> (mantissa, exponent) with value = m * 2^e"""
    f = Fraction(s)
    if f == 0:
        return 0, 0
    x = float(f)
    assert Fraction(x) == f, s
    m, e = math.frexp(x)
    mi = int(m * (1 << 53))
    e -= 53
    while mi % 2 == 0:
        mi //= 2
        e += 1
    return mi, e


def q3(p):
    out = []
    for s in p:
        out += list(me(s))
    return "(%s)" % ", ".join(zlit(x) for x in out)


def cyc_obs_term(r):
    if r[0] == "empty":
        return "OEmpty"
    if r[0] == "exc":
        return "ONotOnBorder"        # a refusal, whatever its class and message
    if r[0] == "ok":
        return "(OOk %s %s)" % (zlist(r[1]), coq_list([ozlit(e) for e in r[2]]))
    return "OOther"


def surf_term(t):
    return "(mkSurf %s %s %s %s %s %s)" % (
        zlit(t["nv"]), coq_list([zlist(l) for l in t["vtv"]]), coq_list([coq_bool(b) for b in t["isb"]]),
        zlist(t["bverts"]), plist(t["edges"]), zlist(t["bedges"]))


def border_case_term(case, obs):
    t = obs["tables"]
    cyc = coq_list(["(%s, %s)" % (ozlit(s), cyc_obs_term(r)) for s, r in obs["cycles"]])
    al = "None" if obs["all"][0] != "ok" else "(Some %s)" % coq_list([zlist(c) for c in obs["all"][1]])
    if obs["boundary"][0] != "ok":
        bnd = "None"
    else:
        b = obs["boundary"][1]
        bnd = "(Some (mkBO %s %s %s %s))" % (coq_list([ints3(p) for p in b["verts"]]), plist(b["edges"]),
                                             plist(b["map"]), plist(b["comp_keys"] or []))
    return "(mkBC %s %s %s %s %s)" % (surf_term(t), coq_list([ints3(p) for p in t["coords"]]), cyc, al, bnd)


def fcase_term(t, exact, pairs, geo=None):
    """tables of one mesh + the (options, observation) pairs of every run made on it; geo = the mesh case when its
    normals are the computed ones (integer coordinates + faces for the geometric classification)"""
    e2f = coq_list(["(%s, %s)" % (ozlit(a), ozlit(b)) for a, b in t["e2f"]])
    v2e = coq_list([coq_list([ozlit(e) for e in l]) for l in t["v2e"]])
    hard = "None" if t["hard"] is None else "(Some %s)" % zlist(t["hard"])
    m = "(mkF %s %s %s %s %s [] %s [])" % (zlit(t["nv"]), plist(t["edges"]), e2f, zlist(t["bedges"]), hard, v2e)
    ds = []
    normals = angle = None
    for opt, d in pairs:
        if "exc" in d:
            raise ValueError("detector raised: " + d["exc"])
        eps = Fraction(0) if exact else EPS
        o = "(mkO %s %s %s)" % (coq_bool(opt["only_border"]), coq_bool(opt["flag_corners"]), zlit(opt["corner_order"]))
        nn = coq_list([q3(n) for n in d["normals"]])
        aa = coq_list(["(%s, %s)" % tuple(zlit(x) for x in me(a)) for a in d["angle"]])
        if normals is None:
            normals, angle = nn, aa
        elif (normals, angle) != (nn, aa):
            raise ValueError("two detector runs on the same mesh used different normals / angles")
        corners = "None" if d["corners"] is None else "(Some %s)" % plist(d["corners"])
        ds.append("(mkDO %s %s %s %s %s %s %s %s)" % (
            o, qlit(eps), qlit(EPS), zlist(d["fe"]), zlist(d["fv"]),
            plist([kv for kv in d["deg"] if kv[1] != 0]),
            coq_list(["(%s, %s)" % (zlit(v), zlist(l)) for v, l in d["local"] if l or v in set(d["fv"])]), corners))
    g = "None"
    if geo is not None:
        g = "(Some (%s, %s))" % (coq_list(["(%s, %s, %s)" % tuple(zlit(int(x)) for x in p) for p in geo["coords"]]),
                                 coq_list([zlist(F) for F in geo["faces"]]))
    return "(mkFC %s %s %s %s %s)" % (m, g, normals or "[]", angle or "[]", coq_list(ds))


def feat_case_terms(case, obs):
    """one fcase for the case's mesh (fresh runs + the runs of the re-used detector object made on it) and one for
    the session's second mesh"""
    pairs = list(zip(case["dets"], obs["dets"]))
    out = []
    ses, so = case.get("session"), obs.get("session")
    other, moved = [], []
    if ses and so:
        for st, d in zip(ses["steps"], so["steps"]):
            (moved if st.get("moved") else pairs if st["on"] == 0 else other).append((st, d))
    if pairs:
        out.append(fcase_term(obs["tables"], case["exact"], pairs, None if case["normals"] else case))
    if moved:        # same connectivity tables, the geometry the caller moved the vertices to
        out.append(fcase_term(obs["tables"], False, moved, dict(case, coords=ses["alt_coords"])))
    if other:
        out.append(fcase_term(so["other_tables"], False, other, None if ses["other"].get("normals") else ses["other"]))
    return out


# ---------------------------------------------------------------------- running the implementation
def run_driver(cases, timeout=900):
    if not cases:
        return []
    nsh = max(1, min(core.NCPU, len(cases) // 8))
    payloads = [{"cases": cases[i::nsh]} for i in range(nsh)]
    res = core.run_impl_parallel("vf.impl.c15_driver", payloads, timeout=timeout)
    obs = [None] * len(cases)
    for i, r in enumerate(res):
        for j, o in zip(range(i, len(cases), nsh), r["cases"]):
            obs[j] = o
    return obs


def fails(case):
    ob = run_driver([case], timeout=120)[0]
    return O.check_case(case, ob), ob


def strip(case):
    return {k: v for k, v in case.items() if k != "info"}


def shrink(case, key, budget=25.0):
    """Greedy: fewer starts / detector runs, then face deletion while the mesh stays an oriented manifold surface
    and the same failure class persists (bounded by a time budget)."""
    import time
    t0 = time.time()

    def still(c):
        if time.time() - t0 > budget:
            return False
        try:
            fs, _ = fails(c)
        except Exception:
            return False
        return any(k == key for k, _ in fs)

    def pick_start(c, k):
        """keep only start number k (and the default-start call), with its call form"""
        forms = c.get("start_forms") or ["omit"] + ["int"] * len(c["starts"])
        return dict(c, starts=[c["starts"][k]], start_forms=[forms[0], forms[k + 1]])

    def no_starts(c):
        forms = c.get("start_forms") or ["omit"]
        return dict(c, starts=[], start_forms=forms[:1])

    cur = dict(case)
    if key.startswith("reused-"):
        cur2 = dict(no_starts(cur), dets=[])
        if still(cur2):
            cur = cur2
        ses = cur["session"]
        # fewer runs of the re-used object (keep order), then drop the second mesh if unused
        k = 0
        while k < len(ses["steps"]) and len(ses["steps"]) > 1:
            cand = dict(ses, steps=ses["steps"][:k] + ses["steps"][k + 1:])
            if still(dict(cur, session=cand)):
                ses = cand
            else:
                k += 1
        if ses.get("other") and all(st["on"] == 0 for st in ses["steps"]):
            cand = dict(ses, other=None)
            if still(dict(cur, session=cand)):
                ses = cand
        cur = dict(cur, session=ses)
    elif key.startswith("features"):
        cur2 = dict(no_starts(cur), session=None)
        if still(cur2):
            cur = cur2
        for d in list(cur["dets"]):
            cur2 = dict(cur, dets=[d])
            if still(cur2):
                cur = cur2
                break
    else:
        cur2 = dict(cur, dets=[], session=None)
        if still(cur2):
            cur = cur2
        if key.startswith("cycle"):
            for k in range(len(cur["starts"])):
                cur2 = pick_start(cur, k)
                if still(cur2):
                    cur = cur2
                    break
        else:
            cur2 = no_starts(cur)
            if still(cur2):
                cur = cur2
    changed = True
    rounds = 0
    while changed and rounds < 40:
        changed = False
        rounds += 1
        for f in range(len(cur["faces"])):
            faces = cur["faces"][:f] + cur["faces"][f + 1:]
            if not faces or G.validate(cur["nv"], faces) is not None:
                continue
            normals = None
            if cur["normals"]:
                normals = cur["normals"][:f] + cur["normals"][f + 1:]
            hard = cur["hard"]
            if hard:
                es = set(G.edges_of(faces))
                hard = [e for e in hard if tuple(sorted(e)) in es] or None
            cand = dict(cur, faces=faces, normals=normals, hard=hard)
            if still(cand):
                cur = cand
                changed = True
                break
    return cur


def build_bridge(ctx):
    """The theorems of PropsC01.v rest on C01's development: built and reported as obligations of their own, so that
    a break in C01's cone cannot hide the verdict of the theorems of Props.v."""
    import re
    path = os.path.join(core.TH, "C15", "PropsC01.v")
    names = core.props_theorems(path)
    ok, log = ctx.make(["theories/C15/PropsC01.vo"], clean=(ctx.tier == "thorough"))
    kind = "theorem (rests on C01's cone)"
    if not ok:
        m = re.search(r'File "\./?(theories/[^"]+)", line (\d+)', log)
        where = "%s:%s" % (m.group(1), m.group(2)) if m else "?"
        ctx.log("bridge to C01 does not build (%s)\n%s" % (where, core.tail(log, 12)))
        for n in names:
            ctx.obligation(n, kind, False, "build failed at " + where)
        return
    ax = ctx.print_assumptions("MV.C15.PropsC01", names)
    for n in names:
        a = ax.get(n)
        if a is None:
            ctx.obligation(n, kind, False, "Print Assumptions produced no output")
            continue
        bad = [x for x in a if x.split(" ")[0] not in core.ALLOWED_AXIOMS and not x.startswith(core.PRIMITIVE_PREFIXES)]
        ctx.obligation(n, kind, not bad, ("closed under the global context" if not a else "axioms: " + "; ".join(a))
                       + (" | NOT ALLOWED: " + "; ".join(bad) if bad else ""))
    ctx.extra.setdefault("statement_hashes", {}).update(core.statement_hashes(path))


# ---------------------------------------------------------------------- the check
def run(ctx):
    quick = ctx.tier == "quick"
    n = 350 if quick else 12000
    ctx.rule = ("oriented manifold polygon surfaces (<= 60/90 faces) from seeds (polygons, grids, annuli, tori, solids, "
                "unions, hinges with prescribed normal pairs around both thresholds, folded roofs, flat lattices) under "
                "face deletion / ears / chords / splits / isolated vertices, random renumbering; every border vertex, "
                "interior, isolated and out-of-range vertices as starting points; hard edges none/some/all; normals "
                "computed or declared (exact quarter-integers); 3 detector option sets per mesh, the third on a mesh already used by a run. Non-trivial = at least "
                "one border loop and at least two faces; distinct = by canonical JSON of the case")
    ctx.assumptions += [
        "the connectivity answers consumed by border.py/features.py are input tables; well-formedness wf_b (sorted "
        "neighbourhoods) is PROVED for every oriented manifold surface from C01's theorems (BridgeThm.v) and also "
        "evaluated per case by Coq on the real tables (wf_b, wf_f; wf_f is per case only)",
        "face normals and corner angle sums are inputs of the detector model (computed by face_normals / corner_angles: C07)",
        "a detector run on a mesh that already went through a run with other options must give the same answers as on "
        "a fresh mesh (third option set of every case); ONE detector object re-used for 2-4 runs (same mesh and a second "
        "mesh, options changed between runs) must give after each run the containers of the mesh it just ran on"]
    ctx.regen(sys.modules[__name__])
    b = ctx.build_props(extra_targets=["theories/C15/Run.vo"])
    build_bridge(ctx)
    ctx.hygiene(["Lib", "C15", "C01"])

    corpus = []
    cdir = os.path.join(core.ROOT, "corpus", "C15")
    if os.path.isdir(cdir):
        for f in sorted(os.listdir(cdir)):
            if f.endswith(".json"):
                corpus.append(json.load(open(os.path.join(cdir, f))))
    cases = corpus + [G.gen_case(ctx.rng, ctx.tier) for _ in range(n)]
    for c in cases:
        info = c.get("info", {})
        ctx.count("seed " + str(info.get("seed_kind", "corpus")))
        ctx.count("border loops %s" % info.get("loops", "?"))
        ctx.count("faces<=%d" % (10 * ((len(c["faces"]) + 9) // 10)))
        ctx.count("normals " + str(info.get("normals", "?")))
        ctx.count("hard " + str(info.get("hard", "?")))
        for e in info.get("edits", []):
            ctx.count("edit " + e)
        for f in c.get("start_forms", []):
            ctx.count("start passed as " + f)
        if len(c["coords"]) > 257:
            ctx.count("more than 257 vertices")
        if c.get("degenerate"):
            ctx.count("all vertices coincident (border extraction only)")
        ctx.count("coordinates scaled by 2^%d" % c.get("scale_exp", 0))
        for d in c["dets"]:
            ctx.count("detector built %s / called %s / option types %s / junk attributes %s"
                      % (d.get("form", "kw"), d.get("call", "run"), d.get("types", "py"), bool(d.get("junk"))))
            ctx.count("only_border=%s" % d["only_border"])
            ctx.count("flag_corners=%s" % d["flag_corners"])
            ctx.count("corner_order=%d" % d["corner_order"])
            ctx.count("mesh %s" % ("already used by a run" if d.get("prior") else "fresh"))
        if c.get("session"):
            ctx.count("runs of one re-used detector object: %d" % len(c["session"]["steps"]))
            ctx.count("re-used detector: %s" % ("two meshes" if c["session"].get("other") else "same mesh"))
            if c["session"].get("alt_coords"):
                ctx.count("vertices moved between two runs")
        nontrivial = info.get("loops", 0) >= 1 and len(c["faces"]) >= 2
        ctx.case_seen(strip(c), nontrivial=nontrivial,
                      sample={"faces": c["faces"][:6], "info": info} if len(c["faces"]) < 8 else None)

    # 1. independent oracle on every case, 2. terms of the kernel-checked correspondence; in chunks, so that the
    #    implementation's observations of a thorough run are never all in memory at once
    failures = []
    good, bterms, fterms, fidx = [], [], [], []
    dropped = 0
    CH = 1000
    for c0 in range(0, len(cases), CH):
        chunk = cases[c0:c0 + CH]
        obs = run_driver(chunk, timeout=1500)
        for k, (c, o) in enumerate(zip(chunk, obs)):
            idx = c0 + k
            for key, msg in O.check_case(c, o):
                failures.append((idx, key, msg))
            if "crash" in o:
                dropped += 1
                continue
            if b["model_ok"]:
                good.append(idx)
                bterms.append(border_case_term(c, o))
                try:
                    for ft in feat_case_terms(c, o):
                        fterms.append(ft)
                        fidx.append(idx)
                except ValueError as ex:
                    dropped += 1
                    ctx.log("case %d not encodable for the correspondence: %s" % (idx, ex))
        del obs
    unknown = [f for f in failures if not ctx.known(f[1])]
    ctx.obligation("oracle: every observation of the implementation satisfies the property restated by brute force",
                   "oracle-on-implementation", not unknown,
                   "%d failing observations (%d of listed known classes)" % (len(failures), len(failures) - len(unknown)))

    bad_b = bad_f = []
    if b["model_ok"]:
        bad_b = ctx.run_cases("border", HEADER, bterms, "check_border", case_type="bcase",
                              shard=min(250, max(20, len(bterms) // 16 + 1)))
        bad_f = ctx.run_cases("features", HEADER, fterms, "check_feat", case_type="fcase",
                              shard=min(250, max(20, len(fterms) // 16 + 1)))
        ctx.obligation("harness: cases dropped before the correspondence (driver crash / unencodable) stay below 2%% and "
                       "at least one case was evaluated", "harness", len(cases) > 0 and dropped * 50 <= len(cases),
                       "%d of %d dropped" % (dropped, len(cases)))
        bad_b = None if bad_b is None else [good[i] for i in bad_b]
        bad_f = None if bad_f is None else [fidx[i] for i in bad_f]
    else:
        ctx.obligation("correspondence batches", "correspondence", False, "model does not compile")

    # for the record only (outside the quantifier): the witness of C15_cycle_unsorted_refuted on the implementation
    try:
        w = {"nv": 9, "faces": [[7, 8, 5], [6, 8, 7, 1, 2, 3, 4, 0]], "coords": [[i, i * i, 0] for i in range(9)],
             "hard": None, "normals": None, "exact": False, "starts": [0], "dets": [], "sort": False}
        ob = run_driver([w], timeout=120)[0]
        got = ob["cycles"][1][1]
        same = got[0] == "ok" and got[1] == [0, 4, 3, 2, 1, 7, 8, 5, 7, 8]
        ctx.notes.append("config.sort_neighborhoods=False (outside C15's quantifier): the implementation %s the walk of the "
                         "Coq witness C15_cycle_unsorted_refuted (observed %s)" % ("reproduces" if same else "does NOT reproduce", got[1:2]))
    except Exception as ex:  # never a verdict
        ctx.notes.append("unsorted witness could not be replayed: %r" % ex)

    # 3. verdicts
    reported = set()
    for idx, key, msg in failures:
        if key in reported or len(reported) >= 4:
            continue
        reported.add(key)
        if ctx.known(key):
            ctx.report_known(key, ctx.known(key)["what"])
            continue
        small = shrink(cases[idx], key)
        fs, ob = fails(small)
        m2 = [m for k, m in fs if k == key]
        ctx.violation((m2[0] if m2 else msg), {"case": strip(small), "class": key}, key=key)
    if (bad_b or bad_f) and not failures:
        ctx.notes.append("model/implementation disagree on border cases %s, feature cases %s but the oracle accepts "
                         "the implementation's answers" % ((bad_b or [])[:5], (bad_f or [])[:5]))
        for i in ((bad_b or [])[:2] + (bad_f or [])[:2]):
            ctx.log("disagreement on case", i, json.dumps(strip(cases[i]))[:1500])


def replay(ctx, data):
    if "faces" in data:          # a bare case (corpus file)
        data = {"case": data}
    if "case" not in data:
        print("replay file names no concrete input:", json.dumps(data)[:400])
        return 1
    fs, ob = fails(data["case"])
    print("observed:", json.dumps(ob)[:3000])
    for k, m in fs:
        print("FAILS [%s]: %s" % (k, m))
    if not fs:
        print("passes")
    return 1 if fs else 0
