"""C06 - meshes have value semantics: copy, merge and transforms never alias."""
import json
import os
import sys
from fractions import Fraction

from .. import core
from ..core import zlit, coq_list, coq_bool
from ..translate import c06 as tr
from ..impl import c06_gen as G
from ..impl import c06_oracle as OR

META = {
    "property_id": "C06",
    "design_ref": "DESIGN.md section 5, C06 (+ section 6 defects #13, #14)",
    "technique": "Coq proof (heap of reference cells; invariant 'no two vertex ids of a mesh share a buffer' by induction over "
                 "the operation history; frame / isolation lemmas; field and ordered-field algebra for inverses and "
                 "normalisation) + translator-regenerated aliasing structure and per-vertex maps + kernel-checked "
                 "correspondence batches (coordinates of all live objects and buffer-identity classes after every step)",
    "level_text": "Machine-checked Coq theorems about an executable heap model of mesh.py (copy, merge, from_arrays), "
                  "transform.py, rings.py, _prepare_vertices and Vec(x), for every operation history and over every "
                  "(ordered) field of coordinates, after sixteen fix: commits: a copy equals its source, uses fresh buffers and "
                  "stays isolated from it under any later history of writes; merge concatenates the vertices, shifts the "
                  "indices of input k by the running vertex count, takes the largest dimensionality and uses fresh, pairwise "
                  "distinct buffers even when one mesh is merged twice (also in closed form: an element of the result is an element "
                  "of input k moved by the number of vertices of the inputs before k and conversely, vertex v of input k is vertex "
                  "count+v of the result); a transform or an edit through one object leaves the whole record of every other object "
                  "(slots, elements, corner tables, attributes, class) and everything of its own target but the vertex slots; 'no two vertex ids share a buffer' is an invariant of "
                  "all histories (ring, from_arrays, copy, merge proved from their regenerated structure, producers outside "
                  "the anchors as a stated per-producer hypothesis that every run tests); every transform then maps every "
                  "vertex exactly once by the requested map and leaves every other buffer alone; translate/scale/rotate "
                  "followed by their inverses restore the coordinates; normalisation leaves the box centred with largest "
                  "extent 2, or at the origin with largest extent 1, when the largest extent is positive. In-place vs "
                  "rebinding, alias vs copy, index shifts, default origins and all per-vertex expressions are regenerated "
                  "from the source on every run; loops and object identity are tied by kernel-evaluated correspondence.",
    "level_note": "Deliberately left free: the class and message of every exception; whether a call whose ARGUMENT FORM the "
                  "property does not name (keyword names, numpy scalars / np.bool_ / 0-1 flags, list / tuple / ndarray translation "
                  "vectors, scipy Rotation objects, Euler angles) is answered or refused (if refused the same call is made again with "
                  "positional python numbers, a Vec and a 3x3 array; if answered it must satisfy the property); the convention of "
                  "several Euler angles in the ORACLE (any composition of the quarter turns is accepted; one angle is unambiguous; no "
                  "docstring, test or tutorial of the library fixes it) - but the convention the code hands to scipy is "
                  "regenerated (Gen.euler_seq) and the theorem C06_euler_form_of_rotate / C06_structure_of_the_code is about "
                  "'xyz' = fixed axes, R = Rz Ry Rx: a change of the string breaks that obligation (no-failing-input-found); merge([]) "
                  "(None, a refusal or an empty mesh); the ORDER of edges / faces / cells in a merge result and the rotation of a "
                  "face row (multisets; only vertices are ordered, by the running count), the numbering of its corners (the corner "
                  "containers must describe the result's own faces / cells), whether a merge result or a copy_attributes=False copy "
                  "carries attributes; the number of vertices of a ring; the value a transform returns; extra attributes, warnings, "
                  "log lines left by any call; dtype / container type of index rows and scalars; which exception an isolated vertex "
                  "gives in a connectivity query. Nothing is ever compared with a pristine run, only with the oracle. "
                  "Trusted: Coq kernel + vm_compute; the transform/mesh/rings translator; the correspondence harness "
                  "(generators, driver: buffer identity = start address of the numpy data, exact float->rational conversion, "
                  "tolerance 1e-9(1+|x|)); numpy semantics of views, `+=` and np.array copies; deepcopy; scipy "
                  "Rotation.from_matrix/apply realise the product with the given orthogonal matrix; producers outside the "
                  "anchors (loaders, other procedural generators, subdivision, boundary extraction) are observed, not "
                  "modelled: their aliasing pattern enters the model as data and is checked to be duplicate-free.",
}

HEADER = """From Coq Require Import ZArith List Bool QArith Qcanon.
Import ListNotations.
Require Import MV.Lib.Base MV.C06.Base MV.C06.Gen MV.C06.Model MV.C06.Run.
Open Scope Z_scope.
Notation V a b c d e f := (q a b, q c d, q e f) (only parsing).
"""

DRIVER = "vf.impl.c06_driver"


def gen(ctx):
    return tr.gen()


# ---------------------------------------------------------------------- encoders
def qv(x):
    f = Fraction(x)
    return "%s %d" % (("(%d)" % f.numerator) if f.numerator < 0 else str(f.numerator), f.denominator)


def ql(x):
    return "(q %s)" % qv(x)


def vl(p):
    """a vector of binary64 / dyadic values as (D n1 n2 n3 k) = (n1, n2, n3) / 2^k; other rationals as (V ...)"""
    fs = [Fraction(c) for c in p]
    d = max(f.denominator for f in fs)
    if d & (d - 1) == 0:
        k = d.bit_length() - 1
        ns = [f.numerator * (d // f.denominator) for f in fs]
        return "(D %s %d)" % (" ".join(("(%d)" % n) if n < 0 else str(n) for n in ns), k)
    return "(V %s %s %s)" % (qv(p[0]), qv(p[1]), qv(p[2]))


def zll(xs):
    return coq_list([core.zlist(x) for x in xs])


def corn(info):
    return "(mkcorn %s)" % " ".join(core.zlist(info[k][j]) for k in ("fc", "cc", "cf") for j in (0, 1))


KEYS = ("edges", "faces", "cells", "fc", "cc", "cf", "kind")


def info_term(info):
    return "(%s, %s, %s, %s, %s)" % (zll(info["edges"]), zll(info["faces"]), zll(info["cells"]), corn(info), zlit(info["kind"]))


def same_info(a, b):
    return all(a[k] == b[k] for k in KEYS)


def nat(n):
    return "%d%%nat" % n


def finite(xyz):
    return all(c == c and abs(c) != float("inf") for p in xyz for c in p)


def encode_case(case, steps):
    """-> (list of '(op, obs)' terms, number of steps encoded). Stops at the first step the model does not cover
    (exception, zero-extent normalisation, non-finite coordinates)."""
    items = []
    prev = []
    prevcls = None
    infos = []
    dirty = set()
    for k, (op, st) in enumerate(zip(case["ops"], steps)):
        if not st["ok"]:
            break
        cur = st["objs"]
        if not all(finite(o["xyz"]) for o in cur):
            break
        name = op[0]
        if name in ("conn", "bad") or (name == "merge" and not op[1]):
            # a pure query / a call that fails / a merge of nothing: no step of the model (the oracle checks that
            # nothing changed and nothing was created)
            prev = cur
            continue
        info = st["new"]
        new = cur[-1] if info is not None else None
        onew = "NewNone"
        if name in ("copy", "merge"):
            # the model carries the containers recorded when each object was created: stop if a source has been
            # edited since by something the model does not follow (SurfaceSubdivision empties face_corners)
            srcs = [op[1]] if name == "copy" else op[1]
            if not all(same_info(infos[m], si) for m, si in zip(srcs, info["src"])):
                break
        if name == "arr":
            t = "(ONew ByUser %s [] [] [] corn0 [] (-1))" % coq_list(["(IFresh %s)" % vl(p) for p in new["xyz"]])
        elif name == "from_arrays":
            t = "(OFromArrays %s %s %s %s %s %s)" % (nat(op[1]), zll(info["edges"]), zll(info["faces"]), zll(info["cells"]),
                                                     corn(info), zlit(info["kind"]))
        elif name == "ring":
            t = "(ORing %s %s %s %s %s %s %s)" % (zlit(op[1]), zlit(op[2]), coq_bool(op[3]), coq_list([vl(p) for p in new["xyz"]]),
                                                 zll(info["edges"]), zll(info["faces"]), corn(info))
        elif name in ("proc", "load", "subdiv", "border", "tree", "path", "cutgraph", "features"):
            where = {}
            for i, o in enumerate(cur[:-1]):
                for s, c in enumerate(o["cls"]):
                    where.setdefault(c, (i, s))
            pat = []
            for p, c in zip(new["xyz"], new["cls"]):
                if c in where:
                    pat.append("(IShare %s %s)" % (nat(where[c][0]), nat(where[c][1])))
                else:
                    pat.append("(IFresh %s)" % vl(p))
            # how the result comes about: the caller's own vectors (PointCloud.append), an exporter that appends to a
            # PolyLine() directly (Gen.append_mode), or RawMeshData.prepare()
            if name == "proc" and op[1] == "pointcloud":
                how = "ByUser"
            elif name == "border" and infos[op[1]]["kind"] == 2:
                how = "(ByAppend 0)"
            elif name == "path":
                how = "(ByAppend 1)"
            elif name == "tree":
                how = "(ByAppend %d)" % {"edge": 2, "face": 3, "cell": 4}[op[2]]
            else:
                how = "ByPrepare"
            # attributes a file format carried over (loaders) are part of what the producer hands out
            at0 = coq_list(["(%s, %s, %s)" % (zlit(x[0]), zlit(x[1]), core.zlist(x[2])) for x in new["attrs"]])
            if any(v is None for x in new["attrs"] for v in x[2]):
                break
            t = "(ONew %s %s %s %s %s %s %s %s)" % (how, coq_list(pat), zll(info["edges"]), zll(info["faces"]),
                                                   zll(info["cells"]), corn(info), at0, zlit(info["kind"]))
        elif name == "copy":
            t = "(OCopy %s %s)" % (nat(op[1]), coq_bool(op[2]))
            # every container of the copy against what was observed on the source (NewSame: the two observations are
            # identical, Coq compares the model's copy with the stored observation of the source)
            onew = "(NewSame %s)" % nat(op[1]) if same_info(info, infos[op[1]]) and op[1] not in dirty \
                else "(NewFull %s)" % info_term(info)
        elif name == "merge":
            t = "(OMerge %s)" % coq_list([nat(m) for m in op[1]])
            onew = "(NewFull %s)" % info_term(info)
        else:
            def orig(p):
                v = OR.resolve(prev, p)
                return "None" if v is None else "(Some %s)" % vl(v)
            pre = prev[op[1]]["xyz"]
            if name in ("attr", "attr_edit", "elem_edit", "grow") and any(v is None for x in cur[op[1]]["attrs"] for v in x[2]):
                break
            if name == "translate":
                p = op[2]
                if isinstance(p, list) and p and p[0] == "slot":
                    t = "(OTranslate %s (PSlot %s %s))" % (nat(op[1]), nat(p[1]), nat(p[2]))
                else:
                    t = "(OTranslate %s (PVal %s))" % (nat(op[1]), vl(p))
            elif name == "rotate_euler":
                R = OR.euler_matrix(op[2])
                if sum(1 for a in op[2] if a % 4) > 1:
                    # several Euler angles: the convention is left free; the model gets the rotation that was applied
                    og = OR.resolve(prev, op[3]) or [Fraction(0)] * 3
                    R = OR.euler_any([OR.F3(p) for p in pre], cur[op[1]]["xyz"], og)
                    if R is None:
                        break
                t = "(ORotate %s (%s, %s, %s) %s)" % (nat(op[1]), vl(R[0]), vl(R[1]), vl(R[2]), orig(op[3]))
            elif name == "rotate":
                # the exact rational rotation matrix the generator meant (the JSON carries its nearest binary64 entries):
                # the model accepts rotation matrices only, like scipy's Rotation.from_matrix
                R = [[Fraction(x).limit_denominator(10000) for x in r] for r in op[2]]
                t = "(ORotate %s (%s, %s, %s) %s)" % (nat(op[1]), vl(R[0]), vl(R[1]), vl(R[2]), orig(op[3]))
            elif name == "scale":
                t = "(OScale %s %s %s)" % (nat(op[1]), ql(op[2]), orig(op[3]))
            elif name == "scale_xyz":
                t = "(OScaleXYZ %s %s %s %s %s)" % (nat(op[1]), ql(op[2]), ql(op[3]), ql(op[4]), orig(op[5]))
            elif name in ("normalize", "fit"):
                if OR._span0(pre):
                    break
                t = "(ONormalize %s %s)" % (nat(op[1]), coq_bool(op[2])) if name == "normalize" else "(OFit %s)" % nat(op[1])
            elif name == "to_origin":
                if not pre:
                    break
                t = "(OToOrigin %s)" % nat(op[1])
            elif name == "flatten":
                t = "(OFlatten %s %s)" % (nat(op[1]), nat(op[2]))
            elif name == "edit":
                t = "(OEdit %s %s %s %s)" % (nat(op[1]), nat(op[2]), nat(op[3]), ql(op[4]))
            elif name == "set":
                t = "(OSet %s %s %s)" % (nat(op[1]), nat(op[2]), vl(op[3]))
            elif name == "attr":
                # the values of all keys of the container, as the implementation shows them (unset keys read the default)
                vals = next(x[2] for x in cur[op[1]]["attrs"] if x[0] == op[2] and x[1] == op[3])
                t = "(OAttrSet %s %s %s %s)" % (nat(op[1]), zlit(op[2]), zlit(op[3]), core.zlist(vals))
            elif name == "attr_edit":
                t = "(OAttrEdit %s %s %s %s %s)" % (nat(op[1]), zlit(op[2]), zlit(op[3]), nat(op[4]), zlit(op[5]))
            elif name == "grow":
                i0 = infos[op[1]]
                nv = len(pre)
                if i0["kind"] == 0:
                    ne, nf, ce, ca = [], [], [], []
                elif i0["kind"] == 1:
                    ne, nf, ce, ca = [[nv - 1, nv]], [], [], []
                else:
                    a, b = i0["edges"][0]
                    k0 = len(i0["faces"])
                    ne, nf, ce, ca = [sorted([a, nv]), sorted([b, nv])], [[a, b, nv]], [a, b, nv], [k0, k0, k0]
                t = "(OGrow %s %s %s %s %s %s)" % (nat(op[1]), vl(op[2]), zll(ne), zll(nf), core.zlist(ce), core.zlist(ca))
                infos[op[1]] = dict(i0, edges=i0["edges"] + ne, faces=i0["faces"] + nf,
                                    fc=[i0["fc"][0] + ce, i0["fc"][1] + ca], nv=nv + 1)
                dirty.add(op[1])
            elif name == "elem_edit":
                ci = {"edges": 0, "faces": 1, "cells": 2}[op[2]]
                el = cur[op[1]]["elems"][ci][op[3]]
                t = "(OElemEdit %s %s %s %s)" % (nat(op[1]), nat(ci), nat(op[3]), core.zlist(el))
                infos[op[1]] = dict(infos[op[1]], **{op[2]: cur[op[1]]["elems"][ci]})
                dirty.add(op[1])
            else:
                raise ValueError(name)
        changed = []
        for i, o in enumerate(cur):
            if i >= len(prev) or o["xyz"] != prev[i]["xyz"]:
                changed.append("(%s, %s)" % (nat(i), coq_list([vl(p) for p in o["xyz"]])))
        cls = [c for o in cur for c in o["cls"]]
        oat, oel = [], []
        for i, o in enumerate(cur):
            before = prev[i]["attrs"] if i < len(prev) else []
            if o["attrs"] != before:
                oat.append("(%s, %s)" % (nat(i), coq_list(["(%s, %s, %s)" % (zlit(x[0]), zlit(x[1]), core.zlist(x[2])) for x in o["attrs"]])))
            if i < len(prev) and o["elems"] != prev[i]["elems"]:
                oel.append("(%s, (%s, %s, %s))" % (nat(i), zll(o["elems"][0]), zll(o["elems"][1]), zll(o["elems"][2])))
        items.append("(%s, mkobs %s %s %s %s %s)" % (t, coq_list(changed), "None" if cls == prevcls else "(Some %s)" % core.zlist(cls),
                                                    onew, coq_list(oat), coq_list(oel)))
        prevcls = cls
        if info is not None:
            infos.append(info)
        prev = cur
    return items


# ---------------------------------------------------------------------- running the implementation
def run_impl_cases(ctx, cases):
    n = len(cases)
    nsh = max(1, min(core.NCPU, n // 40))
    os.makedirs(ctx.casedir, exist_ok=True)
    res = core.run_impl_parallel(DRIVER, [{"cases": cases[i::nsh]} for i in range(nsh)], timeout=1200,
                                 env={"C06_SCRATCH": ctx.casedir})
    obs = [None] * n
    for i, r in enumerate(res):
        for j, o in zip(range(i, n, nsh), r["obs"]):
            obs[j] = o
    return obs


def one(ctx, case):
    os.makedirs(ctx.casedir, exist_ok=True)
    return core.run_impl(DRIVER, {"cases": [case]}, timeout=300, env={"C06_SCRATCH": ctx.casedir})["obs"][0]


def shrink(ctx, case, key):
    """prefix up to the failing step, then drop non-creating ops one at a time while the same class still fails"""
    def fails(c):
        f, _ = OR.check_case(c, one(ctx, c))
        return [x for x in f if x[1] == key]
    f = fails(case)
    if not f:
        return case
    cur = {"ops": case["ops"][:f[0][0] + 1], "inv": [p for p in case.get("inv", []) if p[1] <= f[0][0]]}
    if not fails(cur):
        return case
    i = len(cur["ops"]) - 2
    while i >= 0:
        if cur["ops"][i][0] in OR.TRANSFORMS + ("edit", "set"):
            cand = {"ops": cur["ops"][:i] + cur["ops"][i + 1:], "inv": []}
            if fails(cand):
                cur = cand
        i -= 1
    return cur


CREATORS = ("copy", "merge", "from_arrays", "subdiv", "border", "tree", "path", "cutgraph", "features")
WRITERS = OR.TRANSFORMS + ("edit", "set", "attr", "attr_edit", "elem_edit", "grow")


def nontrivial(case):
    ops = [o[0] for o in case["ops"]]
    first = [i for i, n in enumerate(ops) if n in CREATORS]
    return bool(first) and any(n in WRITERS for n in ops[first[0] + 1:])


# ---------------------------------------------------------------------- the check
def run(ctx):
    quick = ctx.tier == "quick"
    n_cases = 400 if quick else 5000
    if os.environ.get("VERIF_C06_CASES"):      # development aid (mutation self-tests)
        n_cases = int(os.environ["VERIF_C06_CASES"])
    ctx.rule = ("histories of <= ~20 calls over 1-3 initial meshes (from_arrays over float/int caller arrays incl. two meshes "
                "over one array, ring open/closed, 12 other procedural generators, later: save+load in 6 formats, loop / 3-quad "
                "subdivision, surface / volume boundary extraction), then copy / merge (35% with one mesh twice) / translate / "
                "rotate (15 rational rotation matrices) / scale / scale_xyz / normalize / fit_into_unit_cube / "
                "translate_to_origin / flatten / in-place coordinate edits of meshes and caller arrays / vertex rebinding, "
                "35% of translate-rotate-scale followed by their inverse, 12% of parameters passed as the very vector stored "
                "in a mesh. Per history: call form (positional / keyword / defaults omitted), number representation (python, "
                "np.int64/float64, np.int32/float32, bools as np.bool_ or 0/1), translation vectors as Vec / list / tuple / ndarray, "
                "rotations as 3x3 array / scipy Rotation / Euler quarter turns (list or tuple), integer-valued numbers as ints (30%); "
                "25% of producer calls repeated with equal arguments, 8% of calls repeated, caller arrays with coincident rows or two "
                "columns, calls that must fail (wrong shapes, out-of-range indices, ring(2), merge of a generator, copy(None)) and "
                "merge([]) after which everything must be as before; attribute names of all objects before/after every anchored "
                "call; after copies source and copy grow apart and every connectivity answer is compared with the object's own "
                "containers. Non-trivial = a write happens after a copy/merge/from_arrays/derived producer; distinct = by "
                "canonical JSON of the history")
    ctx.assumptions += [
        "coordinates are exact rationals in the model (Qc); the implementation's binary64 values are converted exactly and "
        "compared with tolerance 1e-9(1+|x|)",
        "producers outside C06's anchors enter the model through their observed aliasing pattern (checked duplicate-free)",
        "normalisation of a mesh with zero extent: the code divides by zero silently and writes NaN/inf coordinates, the model "
        "returns the error value None; the property excludes the case ('needs max span > 0'), the history is cut there",
        "rotate: the model accepts exact rotation matrices only (R^T R = I, det 1), as scipy's Rotation.from_matrix does "
        "(it orthonormalises anything else); the generator draws 15 rational rotation matrices",
        "user-level container writes (PointCloud.append, mesh.vertices[i] = v) store the caller's vector as it is, number type "
        "included: the harness hands them float vectors; integer-valued numbers go as ints to every library producer/transform",
    ]
    ok_gen = ctx.regen(sys.modules[__name__])
    b = ctx.build_props(extra_targets=["theories/C06/Run.vo"])
    ctx.hygiene(["Lib", "C06"])
    ctx.log("model regenerated (%s), proofs built (%s)" % (ok_gen, b["props_ok"]))

    corpus = []
    cdir = os.path.join(core.ROOT, "corpus", "C06")
    if os.path.isdir(cdir):
        for f in sorted(os.listdir(cdir)):
            if f.endswith(".json"):
                corpus.append(json.load(open(os.path.join(cdir, f))))
    cases = [{"ops": c["ops"], "inv": c.get("inv", [])} for c in corpus] + [G.gen_case(ctx.rng) for _ in range(n_cases)]
    obs = run_impl_cases(ctx, cases)
    ctx.log("implementation ran on %d histories" % len(cases))

    # 1. oracle on every case
    fails = []
    notes = {}
    prod = {}
    for idx, (c, o) in enumerate(zip(cases, obs)):
        for op, st in zip(c["ops"], o):
            ctx.count("op " + op[0] + ("" if st["ok"] else " (raised)"))
            if op[0] == "proc":
                ctx.count("producer " + op[1])
            if op[0] == "load":
                ctx.count("loader ." + op[2])
        ctx.count("ops<=%d" % (5 * ((len(c["ops"]) + 4) // 5)))
        f, nt = OR.check_case(c, o)
        # per-producer invariant: no two vertex ids share a buffer, no buffer shared with another live object / the caller
        bad_steps = {x[0]: x[1] for x in f if x[1].endswith(("shares-buffers", "aliases-source", "aliases-caller-vectors"))}
        for k, (op, st) in enumerate(zip(c["ops"], o)):
            if st["ok"] and st["new"] is not None and op[0] != "arr":
                pk = op[0] + (" " + op[1] if op[0] == "proc" else " ." + op[2] if op[0] == "load" else " " + op[2] if op[0] == "subdiv" else "")
                rec = prod.setdefault(pk, [0, 0])
                rec[0] += 1
                rec[1] += 1 if k in bad_steps else 0
        for t in nt:
            key = t.split(":")[0][:70]
            notes[key] = notes.get(key, 0) + 1
        for k, key, txt in f:
            fails.append((idx, k, key, txt))
        ctx.case_seen(c["ops"], nontrivial=nontrivial(c),
                      sample={"history": c["ops"][:10]} if len(c["ops"]) >= 4 else None)
    ctx.extra["oracle_notes"] = notes
    ctx.extra["producer_invariant (results checked, results sharing a buffer)"] = {k: v for k, v in sorted(prod.items())}
    viol = sorted(k for k, v in prod.items() if v[1])
    ctx.log("producers whose results share vertex buffers (inside the result, with another live object or with the caller): %s"
            % (", ".join("%s %d/%d" % (k, prod[k][1], prod[k][0]) for k in viol) or "none"))
    unknown = [f for f in fails if not ctx.known(f[2])]
    ctx.obligation("oracle: value semantics restated on every observation of the implementation (snapshots of all live objects)",
                   "oracle-on-implementation", not unknown,
                   "%d failing steps%s" % (len(fails), (": " + "; ".join(sorted({f[2] for f in unknown}))[:600]) if unknown else ""))

    ctx.log("oracle done: %d failing steps" % len(fails))
    # 2. kernel-checked correspondence
    bad = []
    if b["model_ok"]:
        terms, ids = [], []
        for idx, (c, o) in enumerate(zip(cases, obs)):
            items = encode_case(c, o)
            if items:
                terms.append(coq_list(items))
                ids.append(idx)
        r = ctx.run_cases("hist", HEADER, terms, "check_case", case_type="list (op (T:=Qc) * obs)", shard=60, timeout=900)
        bad = [ids[i] for i in (r or [])]
    else:
        ctx.obligation("correspondence batches", "correspondence", False, "model does not compile")

    # 3. verdicts
    reported = set()

    def rank(f):   # root causes first: shared buffers, then side effects on other objects, then the rest
        return (0 if "shares" in f[2] else 1 if "changes-other" in f[2] else 2, f[1], f[0])
    for idx, k, key, txt in sorted(fails, key=rank):
        if key in reported:
            continue
        reported.add(key)
        if len(ctx.violations) >= 4:
            ctx.notes.append("further failing class not shrunk/reported separately: %s: %s" % (key, txt))
            continue
        if ctx.known(key):
            ctx.report_known(key, ctx.known(key)["what"])
            continue
        small = shrink(ctx, cases[idx], key)
        ob = one(ctx, small)
        f2, _ = OR.check_case(small, ob)
        msg = next((x[2] for x in f2 if x[1] == key), txt)
        ctx.violation("value semantics broken (%s): %s" % (key, msg), {"case": small, "class": key}, key=key)
    if bad and not fails:
        ctx.notes.append("model and implementation disagree on cases %s although the oracle accepts the implementation" % bad[:5])
        for i in bad[:3]:
            ctx.log("disagreement on case", i, json.dumps(cases[i]["ops"]))
    if fails and bad:
        # disagreements on histories that the oracle already condemns are explained by those violations
        fidx = {f[0] for f in fails}
        if all(i in fidx for i in bad):
            ctx.notes.append("all correspondence disagreements are on histories the oracle condemns")


def replay(ctx, data):
    case = data.get("case")
    if not case:
        print("replay file names no concrete input:", json.dumps(data)[:400])
        return 1
    ob = one(ctx, case)
    f, notes = OR.check_case(case, ob)
    for op, st in zip(case["ops"], ob):
        print(json.dumps(op), "->", ("ok" if st["ok"] else "RAISED %s" % st["err"]),
              [o["xyz"] for o in st.get("objs", [])][:6] if st["ok"] else "")
    for k, key, txt in f:
        print("FAILS [%s]: %s" % (key, txt))
    if not f:
        print("passes")
    return 1 if f else 0
