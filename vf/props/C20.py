"""C20 - union-find and priority queue conform to their abstract models."""
import itertools
import json
import math
import os

from .. import core
from ..core import zlit, coq_list, zlist, coq_bool
from ..translate import c20 as tr

META = {
    "property_id": "C20",
    "design_ref": "DESIGN.md section 5, C20",
    "technique": "Coq proof (refinement of the array union-find with path halving to the equivalence closure of the union history; heap-order invariant of the heapq algorithm) + translator-regenerated comparator/plumbing + kernel-checked correspondence batches",
    "level_text": "Machine-checked Coq theorems (all full, closed under the global context) about an executable model of "
                  "unionfind.py and priority_queue.py+heapq: for EVERY operation history the structural invariant holds "
                  "(acyclic parent forest, find never out of fuel, n_comps = #roots, sizes at roots), `connected` is exactly "
                  "the equivalence closure of the union history, queries never change the partition, component / components / "
                  "roots / component_mapping / len / n_comps all describe that one partition; for every queue history the "
                  "pending multiset is exact, pop/get/front give a minimum-priority pending item, emptiness is exact "
                  "(heap-order invariant of the heapq sift algorithms proved for any strict weak order; the comparator and "
                  "wrapper plumbing are regenerated from the source on every run and the instance lemmas are re-proved). "
                  "Histories start with the constructor on any element list (duplicates collapse); UnionFind.add and __init__ are "
                  "regenerated from the source (add by symbolic execution of its body) and proved equal to the model's; path "
                  "compression is proved free (any sequence of parent-to-grandparent shortcuts - halving, splitting, full "
                  "compression - leaves every query answer unchanged; find's loop is one); the queue checker evaluated by the "
                  "correspondence batches is proved to accept exactly the runs of the multiset specification (any minimum-priority "
                  "pending item, whatever the tie-break). "
                  "The hand-written part of the model is tied to the code by kernel-evaluated correspondence batches on "
                  "generated histories (ints, tuples, strings, mixed; ties, negatives, infinities).",
    "level_note": "Tested only (correspondence + oracle, not proved about the source): that the hand-written find/union/views of "
                  "Model.v mirror unionfind.py and that CPython's heapq behaves as the modelled sift algorithms. "
                  "Trusted: Coq kernel + vm_compute; the priority_queue / unionfind translators; the correspondence harness "
                  "(generators, driver canonicalisation, interning of hashable elements as integer codes); CPython's "
                  "heapq is modelled from Lib/heapq.py, dict/list semantics assumed. UnionFind.__setitem__ (overwriting a "
                  "stored element in place) is outside the operation set: the property is about add/union/find and "
                  "the queries (len, in, uf[i], connected, component, roots, components, component_mapping). "
                  "Deliberately left free: the exception class and message of a refusal (find/component/connected of an absent "
                  "element, uf[i] out of range, pop/get/front on an empty queue: any exception is accepted, for connected also the "
                  "answer False, for component the empty answer, for an empty queue also None; what is required is that nothing "
                  "changed, which the following counts/views/pops show); which representative find returns and which indices roots "
                  "uses; the numbering of stored elements (uf[i] must be a stored element, one per index; a negative index may be "
                  "refused or follow Python's convention); order inside and among the component listings; return values of "
                  "add/union/push; the type of returned truth values/containers; which of several pending items of equal minimum "
                  "priority is handed out; the heap layout and the content of PriorityQueue.data (recorded in replays only); extra "
                  "attributes, warnings, repr.",
}

HEADER = """From Coq Require Import ZArith List Bool.
Import ListNotations.
Require Import MV.C20.Model MV.C20.Gen MV.C20.Run.
Open Scope Z_scope.
"""


def gen(ctx):
    return tr.gen()


# ---------------------------------------------------------------------- generators
KINDS = ["int", "tuple", "str", "mixed"]


def make_pool(rng, kind, n):
    pool = []
    seen = set()
    while len(pool) < n:
        k = kind if kind != "mixed" else rng.choice(["int", "tuple", "str", "none"])
        if k == "int":
            # falsy 0, small ints, ints beyond the small-int cache (identity != equality) and beyond 2^31
            d = ["i", rng.choice([rng.randint(-5, 40), rng.randint(-5, 40), 0, rng.randint(257, 1000), 2 ** 40 + rng.randint(0, 3),
                                  -2 ** 33 - rng.randint(0, 3)])]
        elif k == "none":
            d = ["n", None]
        elif k == "tuple":
            d = ["t", [rng.randint(0, 3) for _ in range(rng.choice([0, 1, 2, 2, 3]))]]
        else:
            d = ["s", "".join(rng.choice("abc") for _ in range(rng.randint(0, 3)))]
        key = json.dumps(d)
        if key not in seen:
            seen.add(key)
            pool.append(d)
    return pool


UF_OPS = [("add", 1, 10), ("union", 2, 22), ("find", 1, 8), ("connected", 2, 14), ("component", 1, 6),
          ("roots", 0, 4), ("components", 0, 4), ("mapping", 0, 3), ("len", 0, 3), ("ncomps", 0, 5),
          ("contains", 1, 4), ("getitem", 1, 6)]


def gen_init(rng, n):
    """constructor argument: none at all, None, or a list/tuple/set/frozenset/generator WITH duplicates"""
    r = rng.random()
    if r < 0.35:
        return None
    if r < 0.40:
        return {"kind": "none", "elems": []}
    kind = rng.choice(["list", "list", "tuple", "set", "frozenset", "gen", "iter", "map", "dictkeys"])
    m = rng.choice([0, 1, 2, 3, 5, 8])
    # "kw": the argument is passed as elements=...; list-like containers are mutated by the driver after construction
    return {"kind": kind, "elems": [rng.randrange(n) for _ in range(m)], "kw": rng.random() < 0.3}


def gen_uf_history(rng, maxlen=40, ambient=True):
    kind = rng.choice(KINDS)
    n = rng.randint(1, 8)
    pool = make_pool(rng, kind, n)
    init = gen_init(rng, n)
    L = rng.choice([0, 1, 2, 3, 5, 8, 12, 20, 30, maxlen])
    names = [o[0] for o in UF_OPS]
    weights = [o[2] for o in UF_OPS]
    ar = {o[0]: o[1] for o in UF_OPS}
    ops = []
    for _ in range(L):
        nm = rng.choices(names, weights)[0]
        args = [rng.randrange(n) for _ in range(ar[nm])]
        if nm == "getitem":
            # raw index: in range, negative (Python lists would accept it, __getitem__ must not), == len, beyond
            args = [rng.choice([rng.randint(0, n), rng.randint(0, n), rng.randint(-n - 1, -1), n, n + 1,
                                len({a for o in ops if o[0] in ("add", "union") for a in o[1:]}
                                    | set(init["elems"] if init else []))])]
            if rng.random() < 0.25:
                args.append("i64")  # the index as a numpy integer
        if nm == "union" and rng.random() < 0.08:
            args[1] = args[0]  # self-union
        ops.append([nm] + args)
        if rng.random() < 0.12:
            ops.append(list(ops[-1]))  # the same call twice in a row
    if rng.random() < 0.5:
        # audit tail: after whatever happened (incl. refused calls on absent elements / bad indices, caught by the
        # caller) every count, view and membership is asked once more
        ops += [["len"], ["ncomps"], ["roots"], ["components"], ["mapping"]] + [["contains", a] for a in range(n)]
    case = {"kind": kind, "elts": pool, "init": init, "ops": ops}
    if ambient and rng.random() < 0.3:
        # a second structure over the same element objects, alive in the same session, operations interleaved
        other = gen_uf_history(rng, maxlen, ambient=False)
        k = len(pool)
        case["ambient"] = {"init": gen_init(rng, k),
                           "ops": [[o[0]] + ([o[1]] if o[0] == "getitem" else [a % k for a in o[1:]]) for o in other["ops"]]}
    return case


def gen_uf_large(rng):
    """a structure with ~300 elements: indices, roots and counts beyond 256 (small-int identity), long parent chains"""
    n = rng.randint(280, 330)
    pool = [["i", 7 * i - 50] for i in range(n)]
    m = rng.randint(265, n)
    elems = list(range(m)) + [rng.randrange(m) for _ in range(10)]
    if rng.random() < 0.5:
        rng.shuffle(elems)
    ops = []
    hi = lambda: rng.randrange(n) if rng.random() < 0.3 else rng.randrange(max(1, m - 40), n)
    for _ in range(rng.randint(60, 120)):
        r = rng.random()
        if r < 0.55:
            ops.append(["union", hi(), hi()])
        elif r < 0.7:
            ops.append(["connected", hi(), hi()])
        elif r < 0.8:
            ops.append(["find", hi()])
        elif r < 0.87:
            ops.append(["getitem", rng.choice([m - 1, m, 256, 257, 258, n - 1, n, -1, hi()])])
        elif r < 0.93:
            ops.append(["ncomps"])
        elif r < 0.97:
            ops.append(["len"])
        else:
            ops.append(["component", hi()])
    # (no roots(): the model's answer check is quadratic in the number of roots with unary indices)
    ops += [["ncomps"], ["len"], ["components"]]
    return {"kind": "int", "elts": pool, "init": {"kind": "list", "elems": elems}, "ops": ops, "large": True}


def pq_ops(c):
    return c["ops"] if isinstance(c, dict) else c


def gen_pq_history(rng, maxlen=40, ambient=True):
    """payloads are codes; the driver turns code k into an object of kind k % 5 (int, str, tuple, None, complex):
    mutually unorderable, as the payload field is declared compare=False"""
    if ambient and rng.random() < 0.3:
        return {"ops": gen_pq_history(rng, maxlen, False),
                "ambient": [gen_pq_history(rng, maxlen, False) for _ in range(rng.choice([1, 1, 2]))]}
    L = rng.choice([0, 1, 2, 4, 8, 16, 30, maxlen])
    style = rng.choice(["ties", "ties", "spread", "inf", "neg", "scale"])
    ops = []
    nxt = 0
    pend = 0

    def prio():
        if style == "ties":
            w = rng.choice([0, 1, 1, 2])
        elif style == "spread":
            w = rng.randint(-50, 50) / 4.0
        elif style == "inf":
            w = rng.choice([0, 1, 2.5, "inf", "-inf", "inf"])
        elif style == "scale":
            # magnitudes 1e-7 .. 1e39, integers beyond 2^31 / 2^40 (the order is all that matters)
            w = rng.choice([1e-7, 2e-7, -1e-7, 0, 1e39, -1e39, 2e39, 2 ** 40, 2 ** 40 + 1, -2 ** 33, 2 ** 31, 1])
        else:
            w = -rng.randint(0, 6) / 2.0
        # representation of the number handed to push: python int/float/bool, numpy scalars
        reps = ["py"]
        if isinstance(w, (int, float)):
            if float(w) == int(w) and abs(w) < 2 ** 62:
                reps += ["int", "i64"]
                if w in (0, 1):
                    reps += ["bool"]
            if abs(w) < 2 ** 20 and float(w) * 4 == int(float(w) * 4):
                reps += ["f32"]
            reps += ["f64", "float"]
        return w, rng.choice(reps)

    for _ in range(L):
        r = rng.random()
        if r < 0.5:
            w, rp = prio()
            ops.append(["push", nxt, w, rp])
            nxt += 1
            pend += 1
        elif r < 0.8:
            ops.append([rng.choice(["pop", "get"])])
            pend = max(0, pend - 1)
        elif r < 0.9:
            ops.append(["empty"])
        else:
            ops.append(["front"])
        if rng.random() < 0.1:
            o = list(ops[-1])
            if o[0] == "push":
                o[1] = nxt
                nxt += 1
                pend += 1
            elif o[0] in ("pop", "get"):
                pend = max(0, pend - 1)
            ops.append(o)
    if rng.random() < 0.4:
        # drain tail: empty the queue, one refused pop more (IndexError caught by the caller), then use it again
        ops += [["empty"]] + [[rng.choice(["pop", "get"])] for _ in range(pend + 1)] + [["empty"], ["front"]]
        w, rp = prio()
        ops += [["push", nxt, w, rp], ["empty"], ["front"], ["pop"], ["get"], ["empty"]]
    return ops


# ---------------------------------------------------------------------- encoders (history + observation -> Gallina)
def obs_term(o, op=None):
    k = o[0]
    if k == "raised":
        # a refusal of any exception class (uf[i]: OIndexError, element operations: OValueError)
        return "OIndexError" if op and op[0] == "getitem" else "OValueError"
    if k == "none":
        return "ONone"
    if k == "valueerror":
        return "OValueError"
    if k == "indexerror":
        return "OIndexError"
    if k == "nat":
        return "(ONat %d)" % o[1]
    if k == "bool":
        return "(OBool %s)" % coq_bool(o[1])
    if k == "elt":
        return "(OElt %s)" % zlit(o[1])
    if k == "set":
        return "(OSet %s)" % zlist(o[1])
    if k == "sets":
        return "(OSets %s)" % coq_list([zlist(c) for c in o[1]])
    if k == "map":
        return "(OMap %s)" % coq_list(["(%s, %s)" % (zlit(a), zlist(b)) for a, b in o[1]])
    return "OOther"


OPC = {"add": "Add", "union": "Union", "find": "Find", "connected": "Connected", "component": "Component",
       "roots": "Roots", "components": "Components", "mapping": "Mapping", "len": "Len", "ncomps": "NComps",
       "contains": "Contains", "getitem": "GetItem"}


def uf_case_term(case, obs, order=None):
    items = []
    for op, o in zip(case["ops"], obs):
        t = OPC[op[0]] + "".join(" " + zlit(a) for a in (op[1:2] if op[0] == "getitem" else op[1:]))
        items.append("(%s, %s)" % (t if len(op) == 1 else "(" + t + ")", obs_term(o, op)))
    return "(%s, %s)" % ("None" if order is None else "(Some %s)" % zlist(order), coq_list(items))


def pval(w):
    """priority as a float (the order on floats is the order the property speaks of)"""
    if w == "inf":
        return math.inf
    if w == "-inf":
        return -math.inf
    return float(w)


def prio_ranks(ops):
    """order-preserving map of the priorities of a history into Z (any magnitude, +-inf)"""
    vals = sorted({pval(op[2]) for op in ops if op[0] == "push"})
    return {v: 2 * i for i, v in enumerate(vals)}


def pq_case_term(ops, obs):
    ops = pq_ops(ops)
    rk = prio_ranks(ops)

    def prio_z(w):
        # a priority never pushed (only a wrong implementation can answer one) maps outside the range
        try:
            return rk.get(pval(w), 10 ** 9)
        except (TypeError, ValueError):
            return 10 ** 9
    items = []
    for op, (o, data) in zip(ops, obs):
        if op[0] == "push":
            t = "(Push %s %s)" % (zlit(op[1]), zlit(prio_z(op[2])))
        elif op[0] in ("pop", "get"):
            t = "Pop"
        elif op[0] == "empty":
            t = "Empty"
        else:
            t = "Front"
        if o[0] == "none":
            w = "QNone"
        elif o[0] in ("raised", "noitem"):
            w = "QIndexError"   # no item handed out: an exception of any class, or None
        elif o[0] == "item":
            w = "(QItem %s %s)" % (zlit(o[1]), zlit(prio_z(o[2])))
        elif o[0] == "bool":
            w = "(QBool %s)" % coq_bool(o[1])
        else:
            w = "QOther"
        d = "[]"   # the `data` attribute is recorded in replays for information only: the text does not constrain it
        items.append("(%s, %s, %s)" % (t, w, d))
    return coq_list(items)


# ---------------------------------------------------------------------- independent oracle (property restated)
def oracle_uf(case, obs, order=None):
    """Naive partition semantics: returns None or a description of the first observation that violates C20.
    `order` is the sequence in which the constructor's container handed out its elements (None: no container)."""
    comp = {}  # code -> frozenset (insertion-ordered: the i-th key is the i-th distinct element added)

    def ensure(a):
        if a not in comp:
            comp[a] = frozenset([a])

    init = case.get("init")
    if init and init.get("kind") not in (None, "noarg", "none"):
        if order is None:
            return "op 0 constructor: no iteration order reported for %s" % (init,)
        if init["kind"] in ("set", "frozenset"):
            if sorted(order) != sorted(set(init["elems"])):
                return "op 0 constructor: a set of %s iterated as %s" % (sorted(set(init["elems"])), order)
        elif init["kind"] == "dictkeys":
            if list(order) != list(dict.fromkeys(init["elems"])):
                return "op 0 constructor: the keys of a dict built from %s iterated as %s" % (init["elems"], order)
        elif list(order) != list(init["elems"]):
            return "op 0 constructor: %s iterated as %s" % (init["elems"], order)
        for a in order:   # the constructor adds each element; duplicates are no-ops
            ensure(a)

    slot = {}   # uf[i] answers seen so far: index -> element (the numbering of the stored elements is free)
    for k, (op, o) in enumerate(zip(case["ops"], obs)):
        nm, args = op[0], op[1:]
        want = None
        refused = o[0] == "raised"   # an exception of ANY class; legitimate or not is decided from the input below
        if nm == "add":
            ensure(args[0])
            want = ["none"]
        elif nm == "union":
            for a in args:
                ensure(a)
            u = comp[args[0]] | comp[args[1]]
            for e in u:
                comp[e] = u
            want = ["none"]
        elif nm in ("find", "component"):
            if args[0] not in comp:
                # absent element: the text does not speak about it; a refusal, or (component) the empty answer
                if refused or (nm == "component" and o == ["set", []]):
                    continue
                return "op %d %s of an absent element answered %s" % (k, op, o)
            elif nm == "component":
                want = ["set", sorted(comp[args[0]])]
            else:
                if o[0] != "elt" or o[1] not in comp[args[0]]:
                    return "op %d %s: answered %s, expected a representative of %s" % (k, op, o, sorted(comp[args[0]]))
                continue
        elif nm == "connected":
            if args[0] not in comp or args[1] not in comp:
                # an absent element is joined to nothing: a refusal or the answer False
                if refused or o == ["bool", False]:
                    continue
                return "op %d %s with an absent element answered %s" % (k, op, o)
            else:
                want = ["bool", comp[args[0]] == comp[args[1]]]
        elif nm == "roots":
            parts = set(comp.values())
            if o[0] != "set" or len(o[1]) != len(parts) or {comp.get(e) for e in o[1]} != parts:
                return "op %d roots: answered %s, partition is %s" % (k, o, sorted(sorted(p) for p in parts))
            continue
        elif nm == "components":
            want = ["sets", sorted(sorted(p) for p in set(comp.values()))]
        elif nm == "mapping":
            want = ["map", sorted([e, sorted(c)] for e, c in comp.items())]
        elif nm == "len":
            want = ["nat", len(comp)]
        elif nm == "ncomps":
            want = ["nat", len(set(comp.values()))]
        elif nm == "contains":
            want = ["bool", args[0] in comp]
        elif nm == "getitem":
            i, n = args[0], len(comp)
            if i >= n or i < -n:
                if refused:
                    continue
                return "op %d uf[%d] with %d elements answered %s" % (k, i, n, o)
            if i < 0 and refused:
                continue   # negative indices: refused, or Python's convention
            j = i % n
            if o[0] != "elt" or o[1] not in comp or slot.get(j, o[1]) != o[1] or any(e == o[1] and jj != j for jj, e in slot.items()):
                return "op %d uf[%d]: answered %s, expected a stored element, one per index (seen so far %s)" % (k, i, o, slot)
            slot[j] = o[1]
            continue
        if o != want:
            return "op %d %s: answered %s, the partition semantics says %s" % (k, op, o, want)
    return None


def oracle_pq(ops, obs):
    ops = pq_ops(ops)
    pending = []  # list of (x, prio)

    def val(w):
        try:
            return pval(w)
        except (TypeError, ValueError):
            return w

    for k, (op, (o, data)) in enumerate(zip(ops, obs)):
        if op[0] == "push":
            pending.append((op[1], val(op[2])))
            if o != ["none"]:
                return "op %d push answered %s" % (k, o)
        elif op[0] in ("pop", "get"):
            if not pending:
                # nothing to hand out: an exception of any class, or no item
                if o[0] not in ("raised", "noitem"):
                    return "op %d pop on the empty queue answered %s" % (k, o)
            else:
                if o[0] != "item":
                    return "op %d pop answered %s with %d items pending" % (k, o, len(pending))
                it = (o[1], val(o[2]))
                if it not in pending:
                    return "op %d pop handed out %s which is not pending" % (k, o)
                if it[1] != min(p for _, p in pending):
                    return "op %d pop handed out priority %s, minimum pending is %s" % (k, it[1], min(p for _, p in pending))
                pending.remove(it)
        elif op[0] == "empty":
            if o != ["bool", not pending]:
                return "op %d empty answered %s with %d pending" % (k, o, len(pending))
        elif op[0] == "front":
            if not pending:
                if o[0] not in ("raised", "noitem"):
                    return "op %d front on the empty queue answered %s" % (k, o)
            elif o[0] != "item" or (o[1], val(o[2])) not in pending or val(o[2]) != min(p for _, p in pending):
                return "op %d front answered %s, not a pending minimum" % (k, o)
        # (the `data` attribute is not constrained by the text - lazy deletion, extra bookkeeping entries ... are free;
        #  "each pushed item exactly once" is checked on what pop/get hand out)
    return None


# ---------------------------------------------------------------------- shrinking
def shrink_ops(case_of_ops, ops, fails):
    """Greedy delta debugging on an op list; fails(ops)->bool."""
    import time
    t_end = time.time() + 45
    cur = list(ops)
    n = 2
    while len(cur) >= 2 and time.time() < t_end:
        chunk = max(1, len(cur) // n)
        reduced = False
        for i in range(0, len(cur), chunk):
            cand = cur[:i] + cur[i + chunk:]
            if cand and fails(cand):
                cur = cand
                n = max(n - 1, 2)
                reduced = True
                break
        if not reduced:
            if chunk == 1:
                break
            n = min(n * 2, len(cur))
    return cur


def classify_uf(case, msg):
    """Failure class key used to match known findings."""
    kind = case["kind"]
    op = msg.split(" ")[2] if msg.startswith("op ") else "?"
    m = [o for o in ("component", "mapping", "components", "roots", "find", "connected", "union", "add", "len", "ncomps", "contains", "getitem") if ("['%s'" % o) in msg or (" %s:" % o) in msg]
    return "uf/%s/%s" % (m[0] if m else "?", "non-int" if kind != "int" else "int")


# ---------------------------------------------------------------------- the check
def run(ctx):
    quick = ctx.tier == "quick"
    n_uf = 1500 if quick else 40000
    n_pq = 600 if quick else 15000
    ctx.rule = ("union-find histories: <=40 ops over a pool of 1-8 hashable elements of kind int/tuple/str/mixed, "
                "weighted op alphabet incl. repeated adds, self-unions, unions and queries of absent elements, uf[i]; each history "
                "starts with a constructor call (no argument, None, or a list/tuple/set/frozenset/generator of elements with "
                "duplicates and mixed kinds); 30% of the cases have a second UnionFind (resp. 1-2 more PriorityQueue objects) "
                "alive in the same session with interleaved operations; queue payloads are of mutually unorderable kinds "
                "(int, str, tuple, None, complex); priorities as python int/float/bool and numpy scalars, magnitudes 1e-7..1e39 "
                "and beyond 2^31 (mapped to Z by rank); elements incl. 0, None, (), '', ints > 256 and > 2^31; a few structures "
                "with ~300 elements; calls repeated twice in a row; half of the histories end with an audit of all counts, views "
                "and memberships (resp. a drain of the queue, a refused pop, and reuse); views' results and the constructor's "
                "container are mutated by the caller afterwards; constructor/push in positional and keyword form; "
                "queue histories: <=40 ops with ties, negatives, +-inf. Non-trivial = at least one union (resp. one pop "
                "with >=2 pending) ; distinct = by canonical JSON of the history")
    ctx.assumptions += ["hashable elements enter the model as integer codes (the structure only hashes/compares them)",
                       "priorities are dyadic or +-inf and are mapped order-preservingly to Z (NaN excluded, as the property states)"]
    import sys
    ctx.regen(sys.modules[__name__])
    b = ctx.build_props(extra_targets=["theories/C20/Run.vo"])
    ctx.hygiene(["Lib", "C20"])

    # corpus first, then generated
    corpus = []
    cdir = os.path.join(core.ROOT, "corpus", "C20")
    if os.path.isdir(cdir):
        for f in sorted(os.listdir(cdir)):
            corpus.append(json.load(open(os.path.join(cdir, f))))
    ufs = [c["uf"] for c in corpus if "uf" in c] + [gen_uf_history(ctx.rng) for _ in range(n_uf)]
    ufs += [gen_uf_large(ctx.rng) for _ in range(6 if quick else 60)]
    pqs = [c["pq"] for c in corpus if "pq" in c] + [gen_pq_history(ctx.rng) for _ in range(n_pq)]
    if not quick:
        # exhaustive small space (support only): all histories of length <= 4 of union/connected/ncomps over 3 ints
        pool = [["i", 0], ["i", 1], ["i", 2]]
        alpha = [["union", a, b2] for a in range(3) for b2 in range(3)] + [["ncomps"], ["components"], ["component", 0], ["find", 2]]
        for L in range(1, 4):
            for h in itertools.product(alpha, repeat=L):
                ufs.append({"kind": "int", "elts": pool, "ops": [list(o) for o in h]})
    # implementation runs, sharded over processes
    nsh = max(1, min(core.NCPU, (len(ufs) + len(pqs)) // 200))
    payloads = [{"uf": ufs[i::nsh], "pq": pqs[i::nsh]} for i in range(nsh)]
    results = core.run_impl_parallel("vf.impl.c20_driver", payloads, timeout=900)
    uf_obs = [None] * len(ufs)
    uf_order = [None] * len(ufs)
    pq_obs = [None] * len(pqs)
    for i, r in enumerate(results):
        for j, o in zip(range(i, len(ufs), nsh), r["uf"]):
            uf_obs[j] = o["obs"]
            uf_order[j] = o["order"]
        for j, o in zip(range(i, len(pqs), nsh), r["pq"]):
            pq_obs[j] = o

    for c, o in zip(ufs, uf_obs):
        ctx.count("uf kind=" + c["kind"])
        ctx.count("uf len<=%d" % (10 * ((len(c["ops"]) + 9) // 10)))
        ctx.count("uf constructor " + ((c.get("init") or {}).get("kind", "noarg")
                                       + ("+dup" if len(set((c.get("init") or {}).get("elems", []))) < len((c.get("init") or {}).get("elems", [])) else "")))
        if c.get("ambient"):
            ctx.count("uf with a second structure alive")
        if c.get("large"):
            ctx.count("uf large (>256 elements)")
        for op, ob in zip(c["ops"], o):
            ctx.count("uf op " + op[0])
            if ob[0] in ("raised", "other"):
                ctx.count("uf answer " + ob[0])
        ctx.case_seen(["uf", c["elts"], c.get("init"), c["ops"]], nontrivial=any(op[0] == "union" and op[1] != op[2] for op in c["ops"]),
                      sample={"uf_history": c["ops"][:12], "elements": c["elts"], "observed": o[:12]})
    for c0, o in zip(pqs, pq_obs):
        c = pq_ops(c0)
        ctx.count("pq len<=%d" % (10 * ((len(c) + 9) // 10)))
        if isinstance(c0, dict) and c0.get("ambient"):
            ctx.count("pq with %d other queue(s) alive" % len(c0["ambient"]))
        for op in c:
            ctx.count("pq op " + op[0])
        ctx.case_seen(["pq", c], nontrivial=sum(1 for op in c if op[0] == "push") >= 2 and any(op[0] in ("pop", "get") for op in c),
                      sample={"pq_history": c[:12]} if len(ctx.samples) < 4 and len(c) > 3 else None)

    # 1. independent oracle on every case (this is also the search for a failing input)
    fails = []
    for idx, (c, o) in enumerate(zip(ufs, uf_obs)):
        m = oracle_uf(c, o, uf_order[idx])
        if m:
            fails.append(("uf", idx, m))
    for idx, (c, o) in enumerate(zip(pqs, pq_obs)):
        m = oracle_pq(c, o)
        if m:
            fails.append(("pq", idx, m))
    unknown_fails = [f for f in fails if not (f[0] == "uf" and ctx.known(classify_uf(ufs[f[1]], f[2])))]
    ctx.obligation("oracle: every observation of the implementation satisfies the property's partition / multiset semantics",
                   "oracle-on-implementation", not unknown_fails,
                   "%d failing case(s), %d of them not instances of a listed known finding" % (len(fails), len(unknown_fails)))

    # 2. kernel-checked correspondence
    bad_uf = bad_pq = []
    if b["model_ok"]:
        bad_uf = ctx.run_cases("uf", HEADER, [uf_case_term(c, o, r) for c, o, r in zip(ufs, uf_obs, uf_order)],
                               "check_uf_case", case_type="(option (list Z) * list (op * obs))")
        bad_pq = ctx.run_cases("pq", HEADER, [pq_case_term(c, o) for c, o in zip(pqs, pq_obs)], "check_pq",
                               case_type="list (qop * qobs * list item)")
    else:
        ctx.obligation("correspondence batches", "correspondence", False, "model does not compile")

    # 3. verdicts: oracle failures are concrete violations (shrunk); disagreements without oracle failure
    #    leave the obligation broken -> finish() reports no-failing-input-found
    reported = set()
    for which, idx, msg in fails[:200]:
        if len(ctx.violations) >= 3:
            ctx.notes.append("%d failing cases in total; only the first 3 failure classes were shrunk and reported" % len(fails))
            break
        if which == "uf":
            case = ufs[idx]
            key = classify_uf(case, msg)
            if key in reported:
                continue
            reported.add(key)
            if ctx.known(key):
                ctx.report_known(key, ctx.known(key)["what"])
                continue

            def f(ops, case=case):
                cc = dict(case, ops=ops)
                ob = core.run_impl("vf.impl.c20_driver", {"uf": [cc]})["uf"][0]
                return oracle_uf(cc, ob["obs"], ob["order"]) is not None
            small = shrink_ops(case, case["ops"], f) if f(case["ops"]) else case["ops"]
            cc = dict(case, ops=small)
            if cc.get("ambient") and f(small, dict(case, ambient=None)):
                cc["ambient"] = None   # the second structure is not needed for the failure
            ob = core.run_impl("vf.impl.c20_driver", {"uf": [cc]})["uf"][0]
            ctx.violation("union-find: " + (oracle_uf(cc, ob["obs"], ob["order"]) or msg),
                          {"uf": cc, "observed": ob, "class": key}, key=key)
        else:
            ops = pqs[idx]
            key = "pq/" + msg.split(" ")[2]
            if key in reported:
                continue
            reported.add(key)

            amb = ops.get("ambient", []) if isinstance(ops, dict) else []

            def g(o2, amb=amb):
                cc = {"ops": o2, "ambient": amb} if amb else o2
                ob = core.run_impl("vf.impl.c20_driver", {"pq": [cc]})["pq"][0]
                return oracle_pq(o2, ob) is not None
            small = shrink_ops(None, pq_ops(ops), g) if g(pq_ops(ops)) else pq_ops(ops)
            if amb and g(small, []):
                amb = []
            small = {"ops": small, "ambient": amb} if amb else small
            ob = core.run_impl("vf.impl.c20_driver", {"pq": [small]})["pq"][0]
            ctx.violation("priority queue: " + (oracle_pq(small, ob) or msg), {"pq": small, "observed": ob, "class": key}, key=key)
    if (bad_uf or bad_pq) and not fails:
        ctx.notes.append("model/implementation disagree on uf cases %s, pq cases %s but the oracle accepts the implementation's answers"
                         % ((bad_uf or [])[:5], (bad_pq or [])[:5]))
        for i in (bad_uf or [])[:3]:
            ctx.log("disagreement uf case", i, json.dumps(ufs[i].get("init")), json.dumps(ufs[i]["ops"]), json.dumps(uf_obs[i]))
        for i in (bad_pq or [])[:3]:
            ctx.log("disagreement pq case", i, json.dumps(pqs[i]), json.dumps(pq_obs[i]))


def replay(ctx, data):
    if "uf" in data:
        ob = core.run_impl("vf.impl.c20_driver", {"uf": [data["uf"]]})["uf"][0]
        m = oracle_uf(data["uf"], ob["obs"], ob["order"])
    elif "pq" in data:
        ob = core.run_impl("vf.impl.c20_driver", {"pq": [data["pq"]]})["pq"][0]
        m = oracle_pq(data["pq"], ob)
    else:
        print("replay file names no concrete input:", json.dumps(data)[:400])
        return 1
    print("observed:", json.dumps(ob))
    print("FAILS: " + m if m else "passes")
    return 1 if m else 0
