"""C18 - surface frame fields are unit, border-aligned and topologically consistent; harmonic extension under a Hermitian
connection Laplacian."""
import json
import math
import os
import sys

from .. import core
from ..core import zlit, coq_list, zlist, coq_bool
from ..translate import c18 as tr
from ..impl import c18_gen as G
from ..impl import c18_oracle as ORA
from ..impl import c18_own as OWN

META = {
    "property_id": "C18",
    "design_ref": "DESIGN.md section 5, C18",
    "technique": "Coq proof over an abstract ring/field (structural induction over the element lists, ring/field) about an "
                 "executable model of the frame-field pipeline with unit complex numbers handled algebraically and the "
                 "linear solvers as section hypotheses; expressions/constants/sign patterns regenerated from the source by "
                 "a fail-closed translator on every run + kernel-checked correspondence batches (binary64, tolerance) + "
                 "independent numpy oracle incl. a renumbering metamorphic test",
    "level_text": "Machine-checked, unbounded Coq theorems (axiom-free, over any field with three named facts about sqrt and "
                  "the thresholds; Examples.v shows R satisfies them) about an executable model of faces2d/vertex2d/base.py, "
                  "connection.py and laplacian_op.py whose expressions, exponents, thresholds and sign/conjugation patterns are "
                  "regenerated from the source on every run. FULL: the connection Laplacians on faces and on vertices are "
                  "Hermitian for every element list, weights and transport; with a flat connection they are the scalar "
                  "Laplacian; a face with exactly one feature edge is constrained to 1 = X^order (branch 0 = the unit vector "
                  "along the edge) for every order and keeps it through optimize; every constrained element (faces or "
                  "vertices) is left at its (normalised) constraint for any solver / smoothing answers; normalisation gives "
                  "modulus 1 to every element above the 1e-10 guard (C18_unit_partial: the guard is per element and depends on the "
                  "solver's answer - NO condition on the input alone is proved, and none can hold for all meshes: 'unit on "
                  "every element' fails on symmetric inputs, see the refutation and the known findings; each run tests it "
                  "element by element); the bordered pipeline with n_smooth = 0 returns the "
                  "element-wise normalisation of the field that extends the constraints and is harmonic at the free elements, "
                  "for EVERY solver answer satisfying L_II z = -L_IB z_B; the vertex angles of flag_singularities telescope to "
                  "the sum of the defects for any edge rotations, so the stored indices (+ the explicit sub-threshold residue) "
                  "sum to (sum of defects)*2/pi, which is 4 chi under the Gauss-Bonnet premise stated in the theorem (C07's result; "
                  "tested per run on the defects the code uses, not linked by proof); re-flagging on a mesh object that carried earlier "
                  "fields stores exactly the indices of the field asked for (both element kinds; the `.clear()` of both "
                  "flag_singularities is generated); which vertex a face starts from changes neither the tangent basis nor the "
                  "constraint of a face with exactly one feature edge, nor the combinatorial layer (left face of an edge, dual "
                  "edges, constrained faces, free / fixed partition) for any face (C18_face_rotation_*); the stage plumbing of FrameField.run() (generated: initialize iff not "
                  "initialised, optimize iff not smoothed, independently; C18_init_caches: the face field caches no attribute in "
                  "_initialize_attributes) guarantees that any order of the public calls "
                  "initialize / optimize / run / __call__ containing a run() has optimised; gauge covariance of operator + partition + solve: whatever any solver "
                  "answers in rotated bases, rotated back it is a harmonic extension of the original constraints, and "
                  "normalisation commutes with the gauge. PARTIAL: index quantum (e^{i order angle} = 1 under "
                  "the named hypotheses: root property of the picked branches, holonomy; the closed fan is discharged from the "
                  "cyclic order of the faces); end-to-end numbering independence (it also involves the constraint "
                  "initialisation) is a metamorphic TEST. REFUTED (known findings, witnesses replayed each run): unit "
                  "modulus without the guard (solution exactly 0 on symmetric inputs; cancelling vertex constraints); "
                  "'z = u^order' on faces with two feature edges for order != 4 (hard-coded **4, DESIGN #35); numbering "
                  "dependence of the constraint on faces with two feature edges and on vertices with conflicting feature "
                  "edges. The model is tied to the code by the translator and by kernel-evaluated correspondence batches "
                  "(bases, transports as (cos,sin), operator entries, constraint vector, partition, the system handed to "
                  "spsolve and the residual of its answer, final field, indices incl. the previous content of the attribute) on "
                  "generated surfaces, on SEQUENCES of field computations + flaggings on one mesh object (vertices moved in place "
                  "between steps, mouette.config.display_duplicate_attribute_warning toggled; every step compared with a fresh mesh of "
                  "the same geometry; attribute names snapshotted before / after every computation), and with every field "
                  "driven through one of nine legal orders of its public stage methods (the number of initialize / optimize "
                  "executions is compared with the model in a kernel batch).",
    "level_note": "Trusted: Coq kernel + vm_compute; the translator vf/translate/c18.py; the correspondence harness (mesh "
                  "generators, driver canonicalisation of scipy matrices, wrapping of scipy.sparse.linalg.spsolve to record "
                  "the first system and answer, tolerance 1e-9 relative to 1+|re|+|im| on binary64, 1e-7 for the solver "
                  "residual, math.cos/sin to relate stored angles to unit complex numbers). NOT modelled (universally "
                  "quantified in the theorems, residual checked per run): scipy spsolve/factorized/eigsh, the inverse power "
                  "iteration (closed surfaces: only unit modulus, Hermitian operator and index sum/quantum are checked), the "
                  "smoothing solves (any function). The dual cotangent edge weights 1/(cot a + cot b) (SIGNED: "
                  "negative on non-Delaunay edges; 1e8 where the sum vanishes - the docstring of cotan_edge_diagonal says 1/abs(..), "
                  "the code and the DEC dual length are signed, the signed form is the reference), the corner cotangents handed to the "
                  "Coq model, and the whole reference operator of the oracle (own bases and parallel transport on faces) are computed "
                  "by the harness from the geometry (vf/impl/c18_own.py), not by the library. Inputs still taken from the "
                  "implementation: mesh.edges, the iteration order of feat.feature_edges, angle defects (C07; Gauss-Bonnet is a named "
                  "hypothesis, tested per run), the edge rotations of flag_singularities (matching rule checked by the oracle only), "
                  "and for the vertex-based field the vertex bases and transport angles of SurfaceConnectionVertices (they rescale "
                  "corner angles, not a field operation). A step computed on verified stale geometry caches (known finding) is not an "
                  "instance of the model and gets no kernel term. "
                  "Deliberately left free (never a concrete violation; at most an unproved obligation when the regenerated model changes): "
                  "the tangent bases of faces / vertices (any direct orthonormal basis of the tangent plane: the oracle rebuilds the "
                  "operator in the bases the implementation chose), which linear solver is used and whether scipy's spsolve is called "
                  "(the oracle solves its own system and judges the final field), the exception class / message of any refusal and "
                  "whether a stage called before initialize() is refused at all, how many times initialize / optimize actually run "
                  "under a protocol, the stored per-edge rotations ('angles') and the branch-matching rule behind them (only the "
                  "indices are judged: quantum, sum, history), extra attributes left on the mesh, log lines and warnings, dtypes and "
                  "scalar types of outputs, which of its feature edges a face with several of them follows and how a vertex measures "
                  "the direction of its feature edge (extrinsic projection or the connection's own angle), the eigenvector returned "
                  "on closed surfaces (any unit field), last-bit float differences (tolerances 1e-9 relative; 1e-6 on directions "
                  "compared with the oracle's own solve). "
                  "Floating-point round-off is outside the theorems (they are over fields); cad_correction / TrivialConnection "
                  "(OSQP) are outside the property's quantifier and not run.",
}

HEADER = """From Coq Require Import ZArith List Bool.
Import ListNotations.
Require Import MV.Lib.Base MV.C18.Ops MV.C18.Gen MV.C18.Model MV.C18.Run.
Open Scope Z_scope.
"""


def gen(ctx):
    return tr.gen()


# ---------------------------------------------------------------------- encoders
def lit(x):
    x = float(x)
    if x != x or x in (float("inf"), float("-inf")):
        raise ValueError("non-finite float in an observation")
    if x == 0:
        return "(0, 0)"
    m, e = math.frexp(x)
    mi = int(m * (1 << 53))
    e -= 53
    return "(%s, %s)" % ("(%d)" % mi if mi < 0 else "%d" % mi, "(%d)" % e if e < 0 else "%d" % e)


def lit2(p):
    return "(%s, %s)" % (lit(p[0]), lit(p[1]))


def lit3(p):
    return "(%s, %s, %s)" % (lit(p[0]), lit(p[1]), lit(p[2]))


def entries(l):
    return coq_list(["(%s, %s, %s)" % (zlit(i), zlit(j), lit2((a, b))) for i, j, a, b in l])


def opt(x, f):
    return "None" if x is None else "(Some %s)" % f(x)


def solve_term(obs):
    s = obs.get("solve")
    if s is None:
        return "None"
    return "(Some (%s, %s, %s))" % (entries(s["A"]), coq_list([lit2(z) for z in s["b"]]), coq_list([lit2(z) for z in s["x"]]))


def faces_term(case, obs):
    f = ["%d%%nat" % case["order"], "%d%%nat" % case["n_smooth"],
         coq_list([lit3(p) for p in case["V"]]),
         coq_list(["(%s, %s, %s)" % tuple(zlit(x) for x in t) for t in case["F"]]),
         coq_list(["(%s, %s)" % (zlit(a), zlit(b)) for a, b in obs["edges"]]),
         zlist(obs["feat"]),
         # the dual cotangent weights handed to the model are the harness's own (from the geometry), not the library's
         opt(OWN.edge_weights(case["V"], case["F"], obs["edges"]) if case["cotan"] else None, lambda d: coq_list([lit(x) for x in d])),
         coq_list(["(%s, %s)" % (lit3(X), lit3(Y)) for X, Y in obs["bases"]]),
         entries(obs["transport"]),
         entries(obs["lap"]),
         coq_list([lit2(z) for z in obs["var0"]]),
         zlist(obs["free"]), zlist(obs["fixed"]),
         solve_term(obs),
         coq_list([lit2(z) for z in obs["final"]]),
         coq_list([lit(x) for x in obs["defect"]]),
         coq_list([lit(x) for x in obs["rot"]]),
         coq_list([lit(x) for x in obs["singuls"]]),
         coq_list([lit(x) for x in obs.get("prev_singuls", [0.0] * len(obs["singuls"]))])]
    return "(mkfcase %s)" % " ".join(f)


def vertices_term(case, obs):
    f = ["%d%%nat" % case["order"], "%d%%nat" % case["n_smooth"], coq_bool(case["smooth_normals"]),
         coq_list([lit3(p) for p in case["V"]]),
         coq_list(["(%s, %s, %s)" % tuple(zlit(x) for x in t) for t in case["F"]]),
         coq_list(["(%s, %s)" % (zlit(a), zlit(b)) for a, b in obs["edges"]]),
         zlist(obs["feat"]),
         opt(OWN.corner_cots(case["V"], case["F"]) if case["cotan"] else None, lambda d: coq_list([lit3(x) for x in d])),
         coq_list(["(%s, %s)" % (lit3(X), lit3(Y)) for X, Y in obs["bases"]]),
         entries(obs["transport"]),
         entries(obs["lap"]),
         coq_list([lit2(z) for z in obs["var0"]]),
         zlist(obs["free"]), zlist(obs["fixed"]),
         solve_term(obs),
         coq_list([lit2(z) for z in obs["final"]])]
    return "(mkvcase %s)" % " ".join(f)


# ---------------------------------------------------------------------- running the implementation
def run_cases_impl(cases, timeout=600, per=8):
    if not cases:
        return []
    nsh = max(1, min(core.NCPU, len(cases) // per))
    payloads = [{"cases": cases[i::nsh]} for i in range(nsh)]
    res = core.run_impl_parallel("vf.impl.c18_driver", payloads, timeout=timeout)
    out = [None] * len(cases)
    for i, r in enumerate(res):
        for j, o in zip(range(i, len(cases), nsh), r["results"]):
            out[j] = o
    return out


def make_case(rng, tier):
    m = G.random_mesh(rng, tier)
    c = G.random_config(rng)
    c.update({"V": m["V"], "F": m["F"], "planar": m["planar"], "kind": m["kind"], "seed": rng.randrange(1 << 30)})
    return c


def sweep_cases():
    """thorough tier: every order x element x features x smoothing x weights on a fixed list of base surfaces (support only)"""
    import random
    rng = random.Random(18)
    bases = []
    for nm, (V, F), planar in [("fan3", G.disk_fan(rng, 3), False), ("fan5", G.disk_fan(rng, 5), False),
                               ("eqtri2", G.eqtri_n(rng, 2), True), ("eqtri3", G.eqtri_n(rng, 3), True),
                               ("grid2x2", G.grid(rng, 2, 2, True), True), ("grid3x2", G.grid(rng, 3, 2, False, jitter=0.1), False),
                               ("rect3x2", G.rectangle(rng, 3, 2), True), ("polygon8", G.polygon(rng, 8, 2, 0.1), True),
                               ("openbox", G.open_box(rng), False), ("tet", G.polyhedron(rng, "tet"), False),
                               ("octa", G.polyhedron(rng, "octa"), False), ("torus4x3", G.torus(rng, 4, 3), False)]:
        bases.append((nm, [list(map(float, p)) for p in V], [list(f) for f in F], planar))
    out = []
    for nm, V, F, planar in bases:
        for order in range(1, 7):
            for elem in ("faces", "vertices"):
                for feats in (False, True):
                    for ns in (0, 2):
                        out.append({"elem": elem, "order": order, "features": feats, "n_smooth": ns, "cotan": (order + ns) % 3 != 0,
                                    "smooth_normals": order % 2 == 0 or feats, "V": V, "F": F, "planar": planar, "kind": nm,
                                    "seed": 7 * order + ns,
                                    "protocol": ["init_opt", "run", "init_run", "call", "init_opt_run", "run_run", "opt_opt",
                                                 "init_call", "init_opt_ns_opt"][(order + 2 * ns + (1 if feats else 0) + len(out)) % 9]})
    return out


def make_sequence(rng, tier):
    """2-3 field computations on ONE mesh object (changing order / n_smooth / element / features), flagged after each"""
    m = G.random_mesh(rng, tier)
    steps = []
    elem = rng.choice(["faces", "faces", "vertices"])
    V = m["V"]
    dup = rng.random() < 0.4        # mouette.config.display_duplicate_attribute_warning for the whole sequence
    for k in range(rng.choice([2, 2, 3])):
        if k >= 1 and rng.random() < 0.5:
            # the caller moves the vertices of the mesh object in place between two computations
            size = max(max(p[k] for p in V) - min(p[k] for p in V) for k in range(3))
            for _ in range(20):
                amp = 0.015 * size
                V2 = [[x + rng.uniform(-amp, amp) for x in p] if not m["planar"] else [p[0] + rng.uniform(-amp, amp), p[1] + rng.uniform(-amp, amp), p[2]]
                      for p in V]
                if G._nondegenerate(V2, m["F"]):
                    V = V2
                    break
        c = G.random_config(rng)
        c["dup_warning"] = dup
        if rng.random() < 0.75:
            c["elem"] = elem           # mostly the same element kind: the attribute is re-used
        if rng.random() < 0.7:
            c["n_smooth"] = 0
        c.update({"V": V, "F": m["F"], "planar": m["planar"], "kind": m["kind"], "seed": rng.randrange(1 << 30)})
        steps.append(c)
    return steps


def witness_cases():
    """the recorded witnesses of the known findings (corpus/C18/witness_*.json), replayed on the implementation on every run"""
    out = []
    cdir = os.path.join(core.ROOT, "corpus", "C18")
    if os.path.isdir(cdir):
        for f in sorted(os.listdir(cdir)):
            if f.startswith("witness_") and f.endswith(".json"):
                d = json.load(open(os.path.join(cdir, f)))
                out.append((d["key"], d["case"]))
    return out


def shrink_case(case, fails_with):
    """parameter descent: try simpler configurations that still fail with the same class"""
    cur = dict(case)
    for key, val in (("n_smooth", 0), ("cotan", True), ("features", False), ("smooth_normals", True)):
        if cur.get(key) != val:
            cand = dict(cur)
            cand[key] = val
            if fails_with(cand):
                cur = cand
    return cur


NOTES = []     # (key, message) about things the property leaves free - evidence only


def oracle_on(case, res):
    """-> list of (key, message[, extra])"""
    if not res["ok"]:
        return [("crash", "the implementation raised %s" % res["error"])]
    if "crash" in res["obs"]:
        try:
            k, m, extra = ORA.classify_crash(case, res["obs"])
            return [(k, m, extra)]
        except Exception as ex:  # noqa
            return [("crash", "the implementation raised %s (and the crash could not be classified: %r)" % (res["obs"]["crash"]["error"], ex))]
    try:
        return ORA.check(case, res["obs"], NOTES)
    except Exception as ex:  # noqa - malformed observation
        return [("oracle-crash", "oracle could not evaluate the observation: %r" % ex)]


def parallel_term(case, obs, field):
    f = ["%d%%nat" % case["order"],
         coq_list([lit3(p) for p in case["V"]]),
         coq_list(["(%s, %s, %s)" % tuple(zlit(x) for x in t) for t in case["F"]]),
         coq_list(["(%s, %s)" % (zlit(a), zlit(b)) for a, b in obs["edges"]]),
         zlist(obs["feat"]),
         opt(OWN.edge_weights(case["V"], case["F"], obs["edges"]) if case["cotan"] else None, lambda d: coq_list([lit(x) for x in d])),
         coq_list([lit2(z) for z in field])]
    return "(mkpcase %s)" % " ".join(f)


def run(ctx):
    quick = ctx.tier == "quick"
    n_cases = 95 if quick else 800
    n_seq = 12 if quick else 150
    n_meta = 35 if quick else 400
    ctx.rule = ("triangulated surfaces with float coordinates: sheared anisotropic lattices with many non-Delaunay interior edges and obtuse "
                "border triangles (both element kinds), bordered grids (optionally with a hole, planar or with relief, "
                "jittered), fans around an interior vertex, equilateral patches with two-border-edge corner faces, open box "
                "(border + sharp edges), closed tetra/octa/cube/icosa/bipyramid/torus; orders 1-6, elements faces/vertices, "
                "features on/off, n_smooth in {0,1,3}, cotan/uniform weights, smooth_normals on/off; every field is driven through one of "
                "the legal orders of its public stage methods (initialize+optimize, run, __call__, initialize then run / __call__, "
                "initialize+optimize then run, run twice, optimize twice, n_smooth changed between two optimisations) and judged "
                "after the protocol (incl. a refused optimize()/flag_singularities() before initialize() followed by normal use, and "
                "initialize() twice); constructor call forms (keywords / defaults omitted / positional / 0-1 integers for the flags); "
                "half of the surfaces renumbered + faces rotated + face list shuffled, 15% with the opposite orientation, 15% at "
                "another length scale (1e-3, 1e3), single- and two-triangle meshes; 15% with garbage pre-seeded under the names of "
                "the output / work attributes; flag_singularities() called twice in a quarter of the cases. Non-trivial = the mesh "
                "has at least one free and one constrained element or is closed; distinct = canonical JSON of the case")
    ctx.assumptions += [
        "scipy spsolve / factorized / eigsh and the inverse power iteration are not modelled: the theorems hold for every "
        "solver answer that satisfies the linear system; each run checks the recorded system and the residual of the recorded answer",
        "vertex-based field: vertex bases and transport angles of SurfaceConnectionVertices enter the model as inputs (they "
        "rescale corner angles); face-based field: cotan_edge_diagonal (C08's operator) enters as the weight vector D",
        "an implementation angle theta is related to the model's unit complex number by (cos theta, sin theta) computed on the Python side",
        "sum of the angle defects = 2 pi chi (Gauss-Bonnet, C07) is a named hypothesis of the last step of C18_index_sum",
    ]
    ctx.regen(sys.modules[__name__])
    b = ctx.build_props(extra_targets=["theories/C18/Run.vo"])
    ctx.hygiene(["Lib", "C18"])

    # ---- cases: corpus (regressions), witnesses of the known findings, generated
    cases = []
    cdir = os.path.join(core.ROOT, "corpus", "C18")
    if os.path.isdir(cdir):
        for f in sorted(os.listdir(cdir)):
            if f.endswith(".json") and not f.startswith("witness_"):
                cases.append(json.load(open(os.path.join(cdir, f))))
    wit = witness_cases()
    wit_at = {}
    wit_seqs = []     # witnesses that are sequences on one mesh object: (key, steps)
    for k, c in wit:
        if c.get("_seq", {}).get("earlier"):
            plain = {kk: vv for kk, vv in c.items() if kk != "_seq"}
            wit_seqs.append((k, [dict(x, V=x.get("V", c["V"]), F=c["F"]) for x in c["_seq"]["earlier"]] + [plain]))
            continue
        wit_at[len(cases)] = k
        cases.append(dict(c))
    n_fixed_cases = len(cases)
    cases += [make_case(ctx.rng, ctx.tier) for _ in range(n_cases)]
    seqs = [sq for _, sq in wit_seqs] + [make_sequence(ctx.rng, ctx.tier) for _ in range(n_seq)]
    if not quick:
        sw = sweep_cases()
        cases += sw
        ctx.count("sweep cases (orders 1-6 x elements x features x smoothing on 10 fixed surfaces)", len(sw))
    ctx.log("built: model_ok=%s props_ok=%s; running %d cases on the implementation" % (b["model_ok"], b["props_ok"], len(cases)))
    results = run_cases_impl(cases)
    # sequences on one mesh object: every step becomes a case of its own (judged against the field it was asked for);
    # steps after the first are also re-run on a fresh mesh (history independence of the flagging)
    seq_res = run_cases_impl([{"seq": sq, "dup_warning": sq[0].get("dup_warning", False)} for sq in seqs], per=2)
    fresh_of = {}
    later = []
    for si, (sq, sr) in enumerate(zip(seqs, seq_res)):
        if si < len(wit_seqs):
            wit_at[len(cases) + len(sq) - 1] = wit_seqs[si][0]
        for k, (c, r) in enumerate(zip(sq, sr["steps"])):
            cases.append(dict(c, _seq={"step": k, "earlier": [{kk: vv for kk, vv in x.items() if kk != "F"} for x in sq[:k]]}))
            results.append(r)
            if k >= 1 and r["ok"] and "crash" not in r["obs"]:
                later.append(len(cases) - 1)
    fresh = run_cases_impl([{kk: vv for kk, vv in cases[i].items() if kk != "_seq"} for i in later])
    for i, fr in zip(later, fresh):
        fresh_of[i] = fr
    ctx.count("sequence steps on a re-used mesh object", sum(len(sq) for sq in seqs))
    ctx.log("implementation runs done (%d single cases, %d sequences)" % (len(cases) - sum(len(sq) for sq in seqs), len(seqs)))

    # ---- metamorphic twins (bordered surfaces, no smoothing): renumbering + face rotation + face shuffle
    meta = []
    for i, (c, r) in enumerate(zip(cases, results)):
        if "_meta" in c:
            m = c["_meta"]
            meta.append((i, dict(c, n_smooth=0), dict(c, V=m["V2"], F=m["F2"], n_smooth=0), m["vperm"], m["fperm"]))
        elif i >= n_fixed_cases and len(meta) < n_meta and r["ok"] and "crash" not in r["obs"] and r["obs"]["n_boundary_edges"] > 0:
            V2, F2, vperm, fperm = G.renumber(ctx.rng, c["V"], c["F"])
            cases[i] = c = dict(c, _meta={"V2": V2, "F2": F2, "vperm": vperm, "fperm": fperm})
            meta.append((i, dict(c, n_smooth=0), dict(c, V=V2, F=F2, n_smooth=0), vperm, fperm))
    mres = run_cases_impl([m[1] for m in meta] + [m[2] for m in meta])
    m1, m2 = mres[:len(meta)], mres[len(meta):]
    ctx.log("metamorphic twins done (%d pairs)" % len(meta))

    # ---- bookkeeping
    for c, r in zip(cases, results):
        ctx.count("elem=" + c["elem"])
        ctx.count("order=%d" % c["order"])
        ctx.count("features=%s" % c["features"])
        ctx.count("n_smooth=%d" % c["n_smooth"])
        ctx.count("weights=" + ("cotan" if c["cotan"] else "uniform"))
        ctx.count("protocol=" + c.get("protocol", "init_opt"))
        ctx.count("callform=" + c.get("callform", "explicit"))
        if c.get("preseed"):
            ctx.count("preseeded attributes")
        ctx.count("mesh=" + c["kind"].rstrip("0123456789x"))
        nontriv = False
        if r["ok"] and "crash" not in r["obs"]:
            o = r["obs"]
            closed = o["n_boundary_edges"] == 0
            ctx.count("closed" if closed else "bordered")
            ctx.count("branch=" + ("linear-solve" if o["feat"] else "eigen"))
            ctx.count("faces<=%d" % (10 * ((len(c["F"]) + 9) // 10)))
            nontriv = closed or (len(o["free"]) > 0 and len(o["fixed"]) > 0)
        ctx.case_seen([c["elem"], c["order"], c["features"], c["n_smooth"], c["cotan"], c["smooth_normals"], c.get("protocol"), c["V"], c["F"]],
                      nontrivial=nontriv,
                      sample={"mesh": c["kind"], "elem": c["elem"], "order": c["order"], "features": c["features"],
                              "n_smooth": c["n_smooth"], "faces": len(c["F"]), "protocol": c.get("protocol", "init_opt")})

    # ---- 1. oracle on every case: EVERY offending element is classified
    fails = []   # (case index, key, message)
    crash_cls = []   # (case index, parallel unit field) of crashes filed under the known input class: re-checked in Coq below
    for i, (c, r) in enumerate(zip(cases, results)):
        for f in oracle_on(c, r):
            fails.append((i, f[0], f[1]))
            if f[0] == "crash/singular-operator" and len(f) > 2 and f[2]:
                crash_cls.append((i, f[2]["parallel"]))
    # history independence of the flagging
    stale_idx = set()   # steps computed on verified stale geometry caches (known finding): the model describes the fresh computation
    for i, fr in fresh_of.items():
        if fr["ok"] and results[i]["ok"] and "crash" not in fr["obs"] and "crash" not in results[i]["obs"]:
            hist = ORA.history_check(cases[i], results[i]["obs"], fr["obs"])
            obs_i = results[i]["obs"]
            # moved vertices: when the probe shows that the very same call on the very same object gives the fresh field AND
            # indices once the five known geometry caches are deleted, whatever is wrong with the indices of the stale run
            # (stale corner angles -> stale defects) has that recorded mechanism
            deterministic = len(obs_i["feat"]) > 0 and cases[i]["n_smooth"] == 0
            verified = ORA.cleared_matches_fresh(obs_i, fr["obs"]) if deterministic else (
                "cleared_obs" in obs_i and "crash" not in obs_i["cleared_obs"]
                and not any(k.startswith(("index/", "rotation/", "operator/", "harmonic/")) for k, _ in ORA.check(cases[i], obs_i["cleared_obs"])))
            if obs_i.get("moved") and verified:
                stale_keys = ("index/quantum", "index/sum", "index/history", "rotation/matching", "operator/edge-weight",
                              "operator/corner-cotangent", "operator/own-laplacian", "harmonic/residual", "harmonic/normalised")
                if any(fi == i and fk in stale_keys for fi, fk, _ in fails) or any(k in stale_keys for k, _ in hist) \
                        or any(k == "history/stale-geometry-cache" for k, _ in hist):
                    fails = [(fi, ("history/stale-geometry-cache" if (fi == i and fk in stale_keys) else fk), fm) for fi, fk, fm in fails]
                    hist = [(("history/stale-geometry-cache" if k in stale_keys else k), m) for k, m in hist]
                    stale_idx.add(i)
            for key, msg in hist:
                fails.append((i, key, msg + " [earlier on this mesh: %s]"
                              % [(x["elem"], x["order"], x["features"], x["n_smooth"]) for x in cases[i]["_seq"]["earlier"]]))
    # metamorphic
    n_meta_checked = n_meta_dropped = 0
    for (i, c1, c2, vperm, fperm), r1, r2 in zip(meta, m1, m2):
        if not (r1["ok"] and r2["ok"]) or "crash" in r1["obs"] or "crash" in r2["obs"]:
            n_meta_dropped += 1
            if not any(fi == i for fi, _, _ in fails):
                fails.append((i, "crash", "metamorphic twin raised: %s" % (r1.get("error") or r2.get("error") or "crash")))
            continue
        n_meta_checked += 1
        for key, msg in ORA.compare_runs(c1, r1["obs"], c2, r2["obs"], vperm, fperm):
            fails.append((i, key, msg + " [mesh %s, %s]" % (c1["kind"], c1["elem"])))
    ctx.count("metamorphic pairs", n_meta_checked)
    for k in sorted(set(k for k, _ in NOTES)):
        ctx.count("left free by the property, observed: " + k, sum(1 for kk, _ in NOTES if kk == k))
    if NOTES:
        ctx.notes.append("observations about behaviour the property leaves free (never a violation): %s" % sorted(set(m[:160] for _, m in NOTES))[:4])
    unknown = [(i, k, m) for i, k, m in fails if not ctx.known(k)]
    ctx.obligation("oracle: unit modulus, constraints kept and tangent, Hermitian operator, flat = scalar, harmonic residual, "
                   "index sum/quantum/history, renumbering metamorphic test on %d bordered pairs (independent numpy restatement); "
                   "every offending element classified" % n_meta_checked,
                   "oracle-on-implementation", not unknown,
                   "%d failing observations, %d outside the recorded known-finding classes" % (len(fails), len(unknown)))

    # ---- 2. kernel-checked correspondence
    okidx = [i for i, r in enumerate(results) if r["ok"] and "crash" not in r["obs"]]
    n_dropped = len(results) - len(okidx)
    # a step whose operator was built from verified stale caches is not an instance of the model (which builds the operator
    # from the current geometry): its term is not emitted (the finding is reported instead)
    okidx = [i for i in okidx if i not in stale_idx]
    ctx.count("steps on verified stale geometry caches (no kernel term)", len(stale_idx))
    fidx = [i for i in okidx if cases[i]["elem"] == "faces"]
    vidx = [i for i in okidx if cases[i]["elem"] == "vertices"]
    bad_f = bad_v = []
    if b["model_ok"]:
        def encode(idx, fn):
            keep, terms = [], []
            for i in idx:
                try:
                    terms.append(fn(cases[i], results[i]["obs"]))
                    keep.append(i)
                except ValueError:
                    pass   # a non-finite observation cannot enter the kernel batch: counted as dropped below
            return keep, terms
        nf, nv = len(fidx), len(vidx)
        fidx, fterms = encode(fidx, faces_term)
        vidx, vterms = encode(vidx, vertices_term)
        n_dropped += (nf - len(fidx)) + (nv - len(vidx))
        bad_f = ctx.run_cases("faces", HEADER, fterms, "check_faces", case_type="fcase", shard=8 if quick else 12, timeout=1800)
        bad_v = ctx.run_cases("vertices", HEADER, vterms, "check_vertices", case_type="vcase", shard=8 if quick else 12, timeout=1800)
        # the stage protocol: how often initialize / optimize really ran, against the model of run() and of the flags
        PROTO = {"init_opt": "[CInit; COpt]", "run": "[CRun]", "call": "[CRun]", "init_run": "[CInit; CRun]", "init_call": "[CInit; CRun]",
                 "init_opt_run": "[CInit; COpt; CRun]", "run_run": "[CRun; CRun]", "opt_opt": "[CInit; COpt; COpt]",
                 "init_opt_ns_opt": "[CInit; COpt; COpt]", "early_opt_run": "[COpt; CRun]", "init_init_opt": "[CInit; CInit; COpt]"}
        sidx = [i for i in okidx if "stage_calls" in results[i]["obs"]]
        sterms = ["(%s, %s, %s, %s)" % (coq_bool(cases[i]["elem"] == "faces"), PROTO[results[i]["obs"]["protocol"]],
                                       zlit(results[i]["obs"]["stage_calls"][0]), zlit(results[i]["obs"]["stage_calls"][1])) for i in sidx]
        bad_s = ctx.run_cases("stages", HEADER, sterms, "check_stages", case_type="(bool * list call * Z * Z)", shard=400, timeout=300)
        # (a stage-count mismatch is a broken correspondence of the run() model, not a failing input: how often the stages run is
        #  not something the property fixes - the field after the protocol is judged by the oracle)
        # the input class of the known crash is a statement about the MODEL's operator: kernel-checked per case
        if crash_cls:
            pterms = [parallel_term(cases[i], results[i]["obs"], fld) for i, fld in crash_cls]
            bad_p = ctx.run_cases("crashclass", HEADER, pterms, "check_parallel", case_type="pcase", shard=20, timeout=600)
            for k in (bad_p if bad_p is not None else range(len(crash_cls))):
                i = crash_cls[k][0]
                fails = [(fi, ("crash" if (fi == i and fk == "crash/singular-operator") else fk), fm) for fi, fk, fm in fails]
    else:
        ctx.obligation("correspondence batches", "correspondence", False, "model does not compile")
    ctx.log("correspondence batches done: faces bad=%s vertices bad=%s" % (bad_f, bad_v))
    dis = [fidx[k] for k in (bad_f or [])] + [vidx[k] for k in (bad_v or [])]
    # cases that did not reach the kernel batch (driver error, crash of the implementation, non-finite observation): each
    # must be condemned by the oracle, and they must stay a small fraction
    uncondemned = [i for i in range(len(results)) if (i not in set(fidx) | set(vidx)) and not any(fi == i for fi, _, _ in fails)]
    n_dropped = max(0, n_dropped)
    ctx.count("cases without kernel correspondence (crash / non-finite)", n_dropped)
    ctx.obligation("cases dropped from the kernel batches: %d of %d, each condemned by the oracle, at most 5%%" % (n_dropped, len(results)),
                   "harness", (not uncondemned) and n_dropped <= max(3, 0.05 * len(results)) and len(okidx) > 0,
                   "uncondemned: %s" % uncondemned[:10])

    # ---- 3. verdicts: unknown keys first, one report per key
    fails.sort(key=lambda f: (1 if ctx.known(f[1]) else 0))
    reported = set()
    wit_keys = wit_at
    for i, key, msg in fails:
        if key in reported:
            continue
        reported.add(key)
        c = {k: v for k, v in cases[i].items() if k != "_meta" or key.startswith("gauge/") or key == "unit/zero-solution-noise"}
        if ctx.known(key):
            ctx.report_known(key, ctx.known(key)["what"])
            continue

        def fails_with(cand, key=key):
            r = run_cases_impl([cand])[0]
            return any(f[0] == key for f in oracle_on(cand, r))
        small = shrink_case(c, fails_with) if not (key.startswith("gauge/") or "_seq" in c) else c
        ctx.violation("%s: %s" % (key, msg), {"case": small, "class": key}, key=key)
    # witnesses of known findings that no longer fail are reported (not an alarm)
    for i, k in wit_keys.items():
        if not any(fi == i and fk == k for fi, fk, _ in fails):
            ctx.notes.append("witness of known finding %s no longer fails on the implementation" % k)
            ctx.log("note: witness of known finding %s no longer fails" % k)
    if dis:
        unexplained = [i for i in dis if not any(fi == i for fi, _, _ in fails)]
        for i in unexplained[:3]:
            c = cases[i]
            ctx.log("model/implementation disagreement on case %d: %s %s order=%d features=%s n_smooth=%d cotan=%s"
                    % (i, c["kind"], c["elem"], c["order"], c["features"], c["n_smooth"], c["cotan"]))
        if unexplained:
            ctx.notes.append("model and implementation disagree on cases %s but the oracle accepts the implementation's answers" % unexplained[:8])
            cpath = os.path.join(core.ROOT, "replays", "C18")
            os.makedirs(cpath, exist_ok=True)
            json.dump(cases[unexplained[0]], open(os.path.join(cpath, "last_disagreement.json"), "w"))


def replay(ctx, data):
    case = data.get("case")
    if case is None:
        print("replay file names no concrete input:", json.dumps(data)[:400])
        return 1
    if case.get("_seq", {}).get("earlier"):
        plain = {k: v for k, v in case.items() if k != "_seq"}
        seq = [dict(x, V=x.get("V", case["V"]), F=case["F"]) for x in case["_seq"]["earlier"]] + [plain]
        r = run_cases_impl([{"seq": seq, "dup_warning": case.get("dup_warning", False)}])[0]["steps"][-1]
        fs = oracle_on(case, r)
        fr = run_cases_impl([plain])[0]
        if r["ok"] and fr["ok"] and "crash" not in r["obs"] and "crash" not in fr["obs"]:
            fs += ORA.history_check(case, r["obs"], fr["obs"])
        print("sequence on one mesh object: %d earlier field(s)" % len(case["_seq"]["earlier"]))
    else:
        r = run_cases_impl([case])[0]
        fs = oracle_on(case, r)
    if "_meta" in case and r["ok"] and "crash" not in r["obs"]:
        m = case["_meta"]
        c1 = dict(case, n_smooth=0)
        c2 = dict(case, V=m["V2"], F=m["F2"], n_smooth=0)
        r1, r2 = run_cases_impl([c1, c2])
        if r1["ok"] and r2["ok"]:
            fs += ORA.compare_runs(c1, r1["obs"], c2, r2["obs"], m["vperm"], m["fperm"])
    want = data.get("class")
    hit = [f for f in fs if want is None or f[0] == want]
    for f in fs:
        print("oracle:", f[0], "-", f[1])
    print("FAILS" if hit else "passes")
    return 1 if hit else 0
