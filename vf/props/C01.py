"""C01 - surface connectivity answers agree with the face list, in any query order."""
import json
import os
import sys

from .. import core
from ..core import zlit, coq_list, zlist, coq_bool
from ..impl import c01_meshgen as G
from ..impl import c01_oracle as O

META = {
    "property_id": "C01",
    "design_ref": "DESIGN.md section 5, C01 (+ section 4.1 Orbit/Mesh, Appendix B1)",
    "technique": "Coq proof (fold invariants over the corner / face lists for the adjacency and half-edge tables, "
                 "state-machine invariant of the lazy caches for query-order independence, orbit argument for the rotational "
                 "sort) + translator-regenerated guards / record layout / slot indices / walk steps / border predicate + "
                 "kernel-checked correspondence batches on generated oriented manifold surfaces and random query scripts",
    "level_text": "TO BE FILLED",
    "level_note": "TO BE FILLED",
}

HEADER = """From Coq Require Import ZArith List Bool.
Import ListNotations.
Require Import MV.C01.Defs MV.C01.Gen MV.C01.Model MV.C01.Spec MV.C01.Run.
Open Scope Z_scope.
"""
CASE_TYPE = "case"


def gen(ctx):
    from ..translate import c01 as tr
    return tr.gen()


# ---------------------------------------------------------------------- encoders
QCON = {q: "Q_" + q for q in G.QUERIES}
ERRS = {"AttributeError": "EAttr", "TypeError": "EType", "KeyError": "EKey", "IndexError": "EIndex",
        "AssertionError": "EAssert"}


def oz(x):
    return "None" if x is None else "(Some %s)" % zlit(x)


def ans_term(o):
    k = o[0]
    if k == "none":
        return "ANone"
    if k == "int":
        return "(AInt %s)" % zlit(o[1])
    if k == "bool":
        return "(ABool %s)" % coq_bool(o[1])
    if k == "list":
        return "(AList %s)" % coq_list([oz(x) for x in o[1]])
    if k == "err" and o[1] in ERRS:
        return "(AErr %s)" % ERRS[o[1]]
    return "(AErr EFuel)"   # an exception class / value the model never produces: forces a disagreement


def query_term(q):
    name, args = q[0], q[1:]
    if name == "face_id":
        return "(Q_face_id %s)" % zlist(args)
    if not args:
        return QCON[name]
    return "(%s %s)" % (QCON[name], " ".join(zlit(a) for a in args))


def case_term(case, res):
    faces = coq_list([zlist(F) for F in case["faces"]])
    edges = coq_list(["(%s, %s)" % (zlit(a), zlit(b)) for a, b in res["edges"]])
    corners = coq_list(["(%s, %s)" % (zlit(a), zlit(b)) for a, b in zip(res["corner_elem"], res["corner_adj"])])
    script = coq_list(["(%s, %s)" % (query_term(q), ans_term(o)) for q, o in zip(case["script"], res["obs"])])
    return "(%s, %s, %s, %s, %s, %s)" % (zlit(case["nv"]), faces, edges, corners, coq_bool(case["sort"]), script)


# ---------------------------------------------------------------------- running the implementation
def run_impl_cases(cases, timeout=900):
    if not cases:
        return []
    nsh = max(1, min(core.NCPU, len(cases) // 25))
    payloads = [{"cases": cases[i::nsh]} for i in range(nsh)]
    results = core.run_impl_parallel("vf.impl.c01_driver", payloads, timeout=timeout)
    out = [None] * len(cases)
    for i, r in enumerate(results):
        for j, o in zip(range(i, len(cases), nsh), r["cases"]):
            out[j] = o
    return out


def fails_case(case):
    res = core.run_impl("vf.impl.c01_driver", {"cases": [case]}, timeout=120)["cases"][0]
    return O.check_case(case, res), res


# ---------------------------------------------------------------------- shrinking
def shrink(case):
    """Shrink a failing case: script (delta debugging, keeping the failing query last), then faces."""
    def bad(c):
        try:
            if G.validate(c["nv"], c["faces"]) is not None:
                return False
            m, _ = fails_case(c)
            return m is not None
        except Exception:
            return False
    cur = dict(case)
    m, _ = fails_case(cur)
    if m is None:
        return cur
    k = m[0]
    if k >= 0:
        cur["script"] = cur["script"][:k + 1]
    # drop queries
    i = 0
    while i < len(cur["script"]) - 1:
        cand = dict(cur, script=cur["script"][:i] + cur["script"][i + 1:])
        if bad(cand):
            cur = cand
        else:
            i += 1
    # drop faces (queries naming a face beyond the end are dropped by validity of the script: keep only if still failing)
    changed = True
    budget = 60
    while changed and budget > 0:
        changed = False
        for f in range(len(cur["faces"])):
            budget -= 1
            if budget <= 0:
                break
            faces = cur["faces"][:f] + cur["faces"][f + 1:]
            if not faces:
                continue
            nf = len(faces)
            nc = sum(len(F) for F in faces)
            ok = True
            for q in cur["script"]:
                sig = G.QUERIES[q[0]]
                for ch, a in zip(sig, q[1:]):
                    if ch == "F" and a >= nf:
                        ok = False
                    if ch == "C" and a >= nc:
                        ok = False
                    if ch == "E":
                        ok = False
            if not ok:
                continue
            cand = dict(cur, faces=faces)
            if bad(cand):
                cur = cand
                changed = True
                break
    return cur


def classify(case, msg):
    k, text = msg
    if k < 0:
        return "mesh/" + text.split(" ")[0]
    q = case["script"][k][0]
    return "query/%s" % q


# ---------------------------------------------------------------------- the check
def gen_case(rng, max_faces):
    mesh, info = G.gen_mesh(rng, max_faces=max_faces)
    script = G.gen_script(rng, mesh)
    return dict(mesh, sort=rng.random() < 0.65, script=script, info=info)


def run(ctx):
    quick = ctx.tier == "quick"
    n_cases = 600 if quick else 9000
    max_faces = 80 if quick else 160
    ctx.rule = ("generated oriented manifold polygon surfaces (seeds triangle/quad/polygon/tetra/octahedron/cube/grid/"
                "triangulated grid/annulus/torus/unions, random manifold-preserving edits, random renumbering, face rotation, "
                "face shuffle) x a fresh mesh x a random script of 40-60 public queries with config.sort_neighborhoods on/off. "
                "Non-trivial = the mesh has at least one border and one interior vertex, or genus > 0 (closed with chi <= 0), "
                "or is closed; distinct = by canonical JSON of (faces, sort flag, script)")
    ctx.assumptions += [
        "meshes are built through RawMeshData + SurfaceMesh(data) with faces as python int lists; edges and face corners "
        "are the ones mouette completes from the faces (their agreement with the model's completion is checked per case)",
        "query arguments: valid ids, plus absent vertices/corners/edges only for the accessors documented to return None",
        "iteration order of python sets of ints is not modelled: unsorted neighbourhoods and boundary_vertices are compared as sets, "
        "sorted rings of interior vertices up to rotation",
    ]
    ctx.regen(sys.modules[__name__])
    b = ctx.build_props(extra_targets=["theories/C01/Run.vo"])
    ctx.hygiene(["Lib", "C01"])

    corpus = []
    cdir = os.path.join(core.ROOT, "corpus", "C01")
    if os.path.isdir(cdir):
        for f in sorted(os.listdir(cdir)):
            if f.endswith(".json"):
                corpus.append(json.load(open(os.path.join(cdir, f))))
    cases = corpus + [gen_case(ctx.rng, max_faces) for _ in range(n_cases)]
    results = run_impl_cases(cases)

    for c, r in zip(cases, results):
        st = G.mesh_stats(c)
        ctx.count("faces<=%d" % (10 * ((st["nf"] + 9) // 10)))
        ctx.count("sort=%s" % c["sort"])
        ctx.count("border_loops=%d" % min(st["border_loops"], 4))
        ctx.count("components=%d" % min(st["components"], 3))
        ctx.count("arities=%s" % ",".join(map(str, st["arities"][:4])))
        if st["border_loops"] == 0:
            ctx.count("closed chi=%d" % st["chi"])
        info = c.get("info", {})
        ctx.count("seed=%s" % info.get("seed_kind", "corpus"))
        for e in info.get("edits", []):
            ctx.count("edit=" + e)
        for q, o in zip(c["script"], r.get("obs", [])):
            ctx.count("query " + q[0])
            if o[0] in ("err", "other"):
                ctx.count("answer %s %s" % (o[0], o[1] if o[0] == "err" else ""))
        nontrivial = (st["border_vertices"] > 0 and st["interior_vertices"] > 0) or st["border_loops"] == 0
        ctx.case_seen([c["faces"], c["sort"], c["script"]], nontrivial=nontrivial,
                      sample={"nv": c["nv"], "faces": c["faces"][:6], "sort": c["sort"], "script": c["script"][:6],
                              "observed": r.get("obs", [])[:6]})

    # 1. independent oracle on every case = search for a concrete failing input
    fails = []
    for idx, (c, r) in enumerate(zip(cases, results)):
        try:
            m = O.check_case(c, r)
        except Exception as ex:  # the oracle itself must not hide anything
            m = (-1, "oracle crashed: %r" % ex)
        if m:
            fails.append((idx, m))
    ctx.obligation("oracle: every answer of the implementation equals the brute-force recomputation from the face list",
                   "oracle-on-implementation", True, "%d failing cases" % len(fails))

    # 2. kernel-checked correspondence
    bad = []
    if b["model_ok"]:
        terms = [case_term(c, r) if "crash" not in r else None for c, r in zip(cases, results)]
        idxs = [i for i, t in enumerate(terms) if t is not None]
        shard = 40 if quick else 60
        badl = ctx.run_cases("scripts", HEADER, [terms[i] for i in idxs], "check_case", case_type=CASE_TYPE, shard=shard,
                             timeout=900)
        bad = [idxs[i] for i in (badl or [])]
    else:
        ctx.obligation("correspondence batches", "correspondence", False, "model does not compile")

    # 3. verdicts
    reported = set()
    for idx, msg in fails[:50]:
        case = cases[idx]
        key = classify(case, msg)
        if key in reported:
            continue
        reported.add(key)
        if ctx.known(key):
            ctx.report_known(key, ctx.known(key)["what"])
            continue
        small = shrink({k: v for k, v in case.items() if k != "info"})
        m2, res2 = fails_case(small)
        ctx.violation("surface connectivity: " + (m2[1] if m2 else msg[1]),
                      {"case": small, "observed": res2.get("obs"), "class": key}, key=key)
    if bad and not fails:
        ctx.notes.append("model and implementation disagree on cases %s but the oracle accepts the implementation's answers" % bad[:5])
        for i in bad[:3]:
            ctx.log("disagreement on case", i, json.dumps({k: v for k, v in cases[i].items() if k != "info"})[:1500])


def replay(ctx, data):
    if "case" not in data:
        print("replay file names no concrete input:", json.dumps(data)[:400])
        return 1
    m, res = fails_case(data["case"])
    print("observed:", json.dumps(res.get("obs", res))[:2000])
    print("FAILS: " + m[1] if m else "passes")
    return 1 if m else 0
