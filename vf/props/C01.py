"""C01 - surface connectivity answers agree with the face list, in any query order."""
import json
import os
import sys

from .. import core
from ..core import zlit, coq_list, zlist, coq_bool
from ..impl import c01_meshgen as G
from ..impl import c01_oracle as O

META = {
    "property_id": "C01",
    "design_ref": "DESIGN.md section 5, C01 (+ section 4.1 Orbit/Mesh, Appendix B1)",
    "technique": "Coq proof (fold invariants over the corner / face lists for the adjacency and half-edge tables, "
                 "state-machine invariant of the lazy caches for query-order independence, orbit argument for the rotational "
                 "sort) + translator-regenerated guards / record layout / slot indices / walk steps / border predicate + "
                 "kernel-checked correspondence batches on generated oriented manifold surfaces and random query scripts",
    "level_text": "PROVED (Coq 8.16, closed under the global context, unbounded: all oriented manifold polygon surfaces, all query "
                  "scripts incl. clear()/clear_boundary_data(), sorting on/off) about an executable model of "
                  "PolyLine/SurfaceMesh._Connectivity and the SurfaceMesh border API: query-order independence (every reachable "
                  "cache state answers every query with its pure answer - which may be an exception value for an id that names no "
                  "element; a fresh mesh answers what a used one answers); the table computations never raise; next/previous/"
                  "opposite corner, corner<->half-edge, face on either side of an edge (+local indices), opposite face (+indices), "
                  "corner of a vertex in a face, first corner of a face, edge and face identifiers equal direct inspection of the "
                  "face list; sorted vertex_to_corners is a rotational closed ring / open fan from border to border and sorted "
                  "vertex_to_vertices the matching vertex ring; unsorted: the corner / neighbour sets; vertex_to_faces / "
                  "vertex_to_edges / face_to_corners / face_to_faces / face_to_edges element by element; common_edge, "
                  "in_face_index, other_edge_end; border / interior partition of edges and vertices; the per-case boolean checks "
                  "imply the theorems' hypotheses for the finished object; a fresh mesh answers every query exactly as after "
                  "any script (C01_fresh_as_later); the kind of the sorted corner ring is the border classification (open fan iff "
                  "is_vertex_on_border, closed ring iff not: C01_ring_kind_is_border_class); every query the property names is "
                  "answered with a value, never an exception, when it names an element (C01_named_queries_answered). "
                  "Statements are for ids >= 0 (Python's wrap-around of "
                  "negative indices is not modelled). TIE TO THE SOURCE: Gen.v is regenerated from surface.py/linear.py on every "
                  "run and contains, per accessor and compute method, the lazy guard, assigned/cleared attributes, dictionary keys "
                  "and stored entries, index formulas, call argument orders, return expressions, branch tests/polarities, the "
                  "half-edge record layout and slots, the walk steps of the sort, what each border property returns; the "
                  "statement plumbing around them (vertex_to_faces, face_to_faces, face_to_vertices, edge_to_vertices, "
                  "corner_to_face, loop skeletons, sort calls) is compared strictly up to local names and fails closed. "
                  "Model and proofs use these definitions (25 audit mutations: 18 break a proof, 7 fail the translation). "
                  "TESTED (kernel-evaluated correspondence batches + independent brute-force oracle): the hand-written loops and "
                  "cache state machine against the implementation on generated manifold surfaces x random scripts of 40-60 "
                  "public queries on a fresh mesh (incl. ids one past the end: exception classes compared), every answer compared "
                  "(interior rings up to rotation, unordered answers as sets; the four rings of a vertex also for mutual "
                  "alignment); each surface is built through one of 13 construction routes (bare lists, tuples, numpy rows, "
                  "from_arrays, save+load in three text formats, RawMeshData(mesh) re-wrap with appended faces, subdivision "
                  "editor, copy, merge) and model / oracle are fed the finished object's own face list, edge and corner containers.",
    "level_note": "Trusted: Coq kernel + vm_compute; the surface.py/linear.py translators (vf/translate/c01.py, c01b.py); the "
                  "correspondence harness (mesh and script generators, driver canonicalisation: tuples/lists identified, numpy "
                  "ints/bools cast); CPython dict/set/list semantics (set iteration order is not modelled: such answers are "
                  "compared as sets / up to rotation); negative ids (Python wrap-around) are neither modelled nor generated; the "
                  "partially assigned cache state after an exception inside a compute method is not modelled (cannot arise on "
                  "manifold meshes: theorem C01_compute_total); mesh_data.py's edge / corner completion is modelled (gen_edges, "
                  "gen_corners; C01_build_mesh_of) but the check feeds the model the finished object's own containers and verifies "
                  "them per case (edges_ok_b, corner container = concatenation of the faces); a 'faces removed' re-wrap route is "
                  "not generated (no public removal API). "
                  "Deliberately left free: the exception class / message of a call that names no element (an id past the end, a "
                  "vertex pair that is no edge, a vertex not in the face, a vertex tuple that is no face, a face not incident to "
                  "the edge) - there a refusal and the conventional None / False are both accepted, and for ids past the end any "
                  "answer; conversely any exception on a call that names an element is a violation whatever its class; the "
                  "direction in which a ring around a vertex is listed (either way round; closed rings also up to rotation) and "
                  "the mutual alignment of the four rings when listed the other way round; the order of boundary/interior edge "
                  "and vertex lists, of the faces around a face (multiset), the starting side of face_to_vertices / "
                  "face_to_corners / face_to_edges, which shared side common_edge names and in which vertex order; unsorted "
                  "neighbourhoods as sets; list vs tuple, numpy vs python scalars, the type of truth values; warnings, log lines, "
                  "extra attributes; rows of an edge the caller declared twice. NOT free: (min,max) edge rows, None for a border "
                  "side, local indices, ids.",
}

HEADER = """From Coq Require Import ZArith List Bool.
Import ListNotations.
Require Import MV.C01.Defs MV.C01.Gen MV.C01.Model MV.C01.Spec MV.C01.Run.
Open Scope Z_scope.
"""
CASE_TYPE = "case"


def gen(ctx):
    from ..translate import c01 as tr
    return tr.gen()


# ---------------------------------------------------------------------- encoders
QCON = {q: "Q_" + q for q in G.QUERIES}
ERRS = {"AttributeError": "EAttr", "TypeError": "EType", "KeyError": "EKey", "IndexError": "EIndex",
        "AssertionError": "EAssert"}


def oz(x):
    return "None" if x is None else "(Some %s)" % zlit(x)


def ans_term(o):
    k = o[0]
    if k == "none":
        return "ANone"
    if k == "int":
        return "(AInt %s)" % zlit(o[1])
    if k == "bool":
        return "(ABool %s)" % coq_bool(o[1])
    if k == "list":
        return "(AList %s)" % coq_list([oz(x) for x in o[1]])
    if k == "err":
        return "(AErr %s)" % ERRS.get(o[1], "EType")     # which exception class is raised is left free
    return "(AErr EFuel)"   # a value of a kind no answer has: compared as a refusal where a refusal is admissible


def query_term(q):
    name, args = q[0], q[1:]
    if name == "face_id":
        return "(Q_face_id %s)" % zlist(args)
    if not args:
        return QCON[name]
    return "(%s %s)" % (QCON[name], " ".join(zlit(a) for a in args))


def case_term(case, res):
    # the model is fed the FINISHED object's vertex count, face list, script
    case = dict(case, nv=res["nv"], faces=res["faces"], script=res["script"])
    faces = coq_list([zlist(F) for F in case["faces"]])
    edges = coq_list(["(%s, %s)" % (zlit(a), zlit(b)) for a, b in res["edges"]])
    corners = coq_list(["(%s, %s)" % (zlit(a), zlit(b)) for a, b in zip(res["corner_elem"], res["corner_adj"])])
    B = O.Brute(case["nv"], case["faces"], res["edges"])
    script = coq_list(["(%s, %s, %s)" % (query_term(q), ans_term(o), coq_bool(O.is_free(B, q)))
                       for q, o in zip(case["script"], res["obs"])])
    return "(%s, %s, %s, %s, %s, %s)" % (zlit(case["nv"]), faces, edges, corners, coq_bool(case["sort"]), script)


# ---------------------------------------------------------------------- running the implementation
def run_impl_cases(cases, timeout=900):
    if not cases:
        return []
    nsh = max(1, min(core.NCPU, len(cases) // 25))
    payloads = [{"cases": cases[i::nsh]} for i in range(nsh)]
    results = core.run_impl_parallel("vf.impl.c01_driver", payloads, timeout=timeout)
    out = [None] * len(cases)
    for i, r in enumerate(results):
        for j, o in zip(range(i, len(cases), nsh), r["cases"]):
            out[j] = o
    return out


def fails_many(cands, timeout=300):
    """One driver process for a batch of candidate cases -> list of (oracle message or None, result)."""
    if not cands:
        return []
    res = core.run_impl("vf.impl.c01_driver", {"cases": cands}, timeout=timeout)["cases"]
    out = []
    for c, r in zip(cands, res):
        try:
            out.append((O.check_case(c, r), r))
        except Exception as ex:
            out.append(((-1, "oracle crashed: %r" % ex), r))
    return out


def fails_case(case):
    return fails_many([case])[0]


# ---------------------------------------------------------------------- shrinking
def script_valid_for(script, faces):
    nf = len(faces)
    nc = sum(len(F) for F in faces)
    for q in script:
        sig = G.QUERIES[q[0]]
        for ch, a in zip(sig, q[1:]):
            if ch == "F" and a >= nf:
                return False
            if ch == "C" and a >= nc:
                return False
            if ch == "E":
                return False
    return True


def shrink(case, budget_s=60.0):
    """Shrink a failing case with batched re-runs: script (keep the failing query last), then faces."""
    import time
    t0 = time.time()
    cur = {k: v for k, v in case.items() if k != "info"}
    m, res = fails_case(cur)
    if m is None or "script" not in res:
        return cur
    cur["script"] = res["script"][:m[0] + 1] if m[0] >= 0 else res["script"][:1]   # explicit from now on
    cur.pop("script_seed", None)
    same_faces = ("list", "tuple", "numpy", "from_arrays", "obj", "geogram", "rewrap", "copy", "copy_conn", "edges_explicit")
    if cur.get("route", "list") != "list":
        # does the failure depend on the construction route at all?
        plain = dict(cur, route="list", nv=res["nv"], faces=res["faces"])
        if fails_case(plain)[0] is not None:
            cur = plain
    # 1. the failing query alone, else drop one query at a time (batched)
    while len(cur["script"]) > 1 and time.time() - t0 < budget_s:
        sc = cur["script"]
        cands = [dict(cur, script=[sc[-1]])] + [dict(cur, script=sc[:i] + sc[i + 1:]) for i in range(len(sc) - 1)]
        rs = fails_many(cands)
        hit = [c for c, (mm, _) in zip(cands, rs) if mm is not None]
        if not hit:
            break
        cur = min(hit, key=lambda c: len(c["script"]))
    # 2. drop faces (batched, one face per round; half of the faces first) - only where the finished face list is the given one
    while cur.get("route", "list") in same_faces and len(cur["faces"]) > 1 and time.time() - t0 < budget_s:
        fs = cur["faces"]
        cands = []
        h = len(fs) // 2
        for sub in ([fs[:h], fs[h:]] if h >= 1 else []) + [fs[:i] + fs[i + 1:] for i in range(len(fs))]:
            if sub and script_valid_for(cur["script"], sub) and G.validate(cur["nv"], sub) is None:
                cands.append(dict(cur, faces=sub))
        cands = cands[:40]
        if not cands:
            break
        rs = fails_many(cands)
        hit = [c for c, (mm, _) in zip(cands, rs) if mm is not None]
        if not hit:
            break
        cur = min(hit, key=lambda c: len(c["faces"]))
    return cur


def classify(case, msg, res=None):
    """Failure class: accessor + construction route + what kind of wrong answer (+ whether on a fresh cache)."""
    k, text = msg
    route = case.get("route", "list")
    if k < 0:
        return "mesh/route=%s/%s" % (route, "-".join(text.split(" ")[:3]))
    q = case["script"][k][0]
    o = (res or {}).get("obs", [])
    kind = "?"
    if k < len(o):
        kind = "raises-" + o[k][1] if o[k][0] == "err" else "wrong-" + o[k][0]
    fresh = "fresh" if all(x[0] in ("clear", "clear_boundary_data") for x in case["script"][:k]) else "after-queries"
    return "query/%s/route=%s/%s/%s/sort=%s" % (q, route, kind, fresh, case.get("sort"))


# ---------------------------------------------------------------------- the check
ROUTE_WEIGHTS = [("edges_explicit", 12), ("list", 22), ("tuple", 5), ("numpy", 6), ("from_arrays", 4), ("obj", 6), ("medit", 5), ("geogram", 5),
                 ("rewrap", 12), ("triangulate", 7), ("loop", 4), ("copy", 5), ("copy_conn", 5), ("merge", 6)]


def gen_case(rng, max_faces):
    route = rng.choices([r for r, _ in ROUTE_WEIGHTS], [w for _, w in ROUTE_WEIGHTS])[0]
    mf = max_faces
    if route == "loop":
        mf = max(4, max_faces // 6)      # 1 -> 4 subdivision after triangulation
    elif route == "triangulate":
        mf = max(4, max_faces // 2)
    size = None
    if route == "from_arrays":           # needs one arity: grids / triangulated seeds without edits are the usual source
        size = rng.choice(["tiny", "mid"])
    mesh, info = G.gen_mesh(rng, size=size, max_faces=mf)
    return dict(mesh, route=route, sort=rng.random() < 0.65, script_seed=rng.randrange(1 << 30), info=info,
                argtype=rng.choice(["int", "int", "np64", "np32"]), decoy=rng.random() < 0.25,
                collide=rng.choice([None, None, None, "bool", "float"]), dupwarn=rng.random() < 0.5,
                coords=rng.choice(["distinct", "distinct", "zero"]))


def small_meshes(nv=5, max_faces=4):
    """All oriented manifold triangle surfaces with <= max_faces faces over nv labelled vertices, each face stored with its
    smallest vertex first (support sweep of the thorough tier; bounded, never the theorem)."""
    import itertools
    tris = []
    for a, b, c in itertools.combinations(range(nv), 3):
        tris += [[a, b, c], [a, c, b]]
    out = []
    for k in range(1, max_faces + 1):
        for sub in itertools.combinations(tris, k):
            faces = [list(t) for t in sub]
            if G.validate(nv, faces) is None:
                out.append({"nv": nv, "faces": faces})
    return out


def sweep_case(rng, mesh, sort):
    nv, faces = mesh["nv"], mesh["faces"]
    script = G.gen_script(rng, mesh, length=10)
    script = [q for q in script if q[0] not in ("clear", "clear_boundary_data")]
    script += [[nm, v] for v in range(nv) for nm in ("vertex_to_corners", "vertex_to_vertices", "vertex_to_faces", "is_vertex_on_border")]
    rng.shuffle(script)
    return dict(mesh, route="list", sort=sort, script=script, info={"seed_kind": "exhaustive<=4tri/5v", "size": "tiny", "edits": []})


def run(ctx):
    quick = ctx.tier == "quick"
    n_cases = 600 if quick else 3200
    max_faces = 80 if quick else 140
    ctx.rule = ("each surface built through one of 13 construction routes (bare lists, tuples, numpy rows, from_arrays, save+load "
                ".obj/.mesh/.geogram_ascii, RawMeshData(mesh) re-wrap with appended faces, SurfaceSubdivision triangulate / "
                "loop_subdivision, copy with/without connectivity, merge) and queried as the FINISHED object; "
                "generated oriented manifold polygon surfaces (seeds triangle/quad/polygon/tetra/octahedron/cube/grid/"
                "triangulated grid/annulus/torus/unions, random manifold-preserving edits, random renumbering, face rotation, "
                "face shuffle) x a fresh mesh x a random script of 40-60 public queries with config.sort_neighborhoods on/off. "
                "Non-trivial = the mesh has at least one border and one interior vertex, or genus > 0 (closed with chi <= 0), "
                "or is closed; distinct = by canonical JSON of (faces, sort flag, script)")
    ctx.assumptions += [
        "meshes are built through RawMeshData + SurfaceMesh(data) with faces as python int lists; edges and face corners "
        "are the ones mouette completes from the faces (their agreement with the model's completion is checked per case)",
        "query arguments: valid ids, plus absent vertices/corners/edges only for the accessors documented to return None",
        "iteration order of python sets of ints is not modelled: unsorted neighbourhoods and boundary_vertices are compared as sets, "
        "sorted rings of interior vertices up to rotation",
    ]
    ctx.regen(sys.modules[__name__])
    b = ctx.build_props(extra_targets=["theories/C01/Run.vo"])
    ctx.hygiene(["Lib", "C01"])
    ctx.log("model/proofs built: model_ok=%s props_ok=%s" % (b["model_ok"], b["props_ok"]))

    corpus = []
    cdir = os.path.join(core.ROOT, "corpus", "C01")
    if os.path.isdir(cdir):
        for f in sorted(os.listdir(cdir)):
            if f.endswith(".json"):
                corpus.append(json.load(open(os.path.join(cdir, f))))
    cases = corpus + [gen_case(ctx.rng, max_faces) for _ in range(n_cases)]
    if not quick:
        # a few surfaces with more than 256 faces / corners / edges (identity vs equality of small ints), bare-list route
        for _ in range(10):
            mesh, info = G.gen_mesh(ctx.rng, size="big", max_faces=520)
            cases.append(dict(mesh, route="list", sort=ctx.rng.random() < 0.65, script_seed=ctx.rng.randrange(1 << 30), info=info,
                              argtype=ctx.rng.choice(["int", "np64"]), decoy=False, collide=None, dupwarn=False, coords="distinct"))
        sm = small_meshes()
        ctx.notes.append("support sweep (bounded, not the theorem): all %d oriented manifold triangle surfaces with <= 4 faces "
                         "over 5 labelled vertices, each with sorting on and off" % len(sm))
        for k, msh in enumerate(sm):
            cases.append(sweep_case(ctx.rng, msh, k % 2 == 0))
            cases.append(sweep_case(ctx.rng, msh, k % 2 == 1))
    ctx.log("generated %d cases (%d random, %d corpus)" % (len(cases), n_cases, len(corpus)))
    results = run_impl_cases(cases)
    ctx.log("implementation driven on all cases")

    for c, r in zip(cases, results):
        if "crash" in r:
            ctx.count("build crashed")
            ctx.case_seen([c["faces"], c.get("route"), c["sort"]], nontrivial=False)
            continue
        ctx.count("route=%s" % r.get("route"))
        ctx.count("ids as %s" % c.get("argtype", "int"))
        if c.get("collide"):
            ctx.count("colliding 'border' attribute (%s), duplicate warning %s" % (c["collide"], c.get("dupwarn")))
        if c.get("decoy"):
            ctx.count("second mesh in the session")
        if c.get("coords") == "zero":
            ctx.count("all vertices at the origin")
        if c.get("info", {}).get("spread"):
            ctx.count("vertex ids beyond 256")
        if r.get("note"):
            ctx.count("route output not manifold -> rebuilt from the bare list")
        fin = {"nv": r["nv"], "faces": r["faces"]}
        st = G.mesh_stats(fin)
        ctx.count("faces<=%d" % (10 * ((st["nf"] + 9) // 10)))
        ctx.count("sort=%s" % c["sort"])
        ctx.count("border_loops=%d" % min(st["border_loops"], 4))
        ctx.count("components=%d" % min(st["components"], 3))
        ctx.count("arities=%s" % ",".join(map(str, st["arities"][:4])))
        if st["border_loops"] == 0:
            ctx.count("closed chi=%d" % st["chi"])
        info = c.get("info", {})
        ctx.count("seed=%s" % info.get("seed_kind", "corpus"))
        for e in info.get("edits", []):
            ctx.count("edit=" + e)
        for q, o in zip(r["script"], r.get("obs", [])):
            ctx.count("query " + q[0])
            if o[0] in ("err", "other"):
                ctx.count("answer %s %s" % (o[0], o[1] if o[0] == "err" else ""))
        nontrivial = (st["border_vertices"] > 0 and st["interior_vertices"] > 0) or st["border_loops"] == 0
        ctx.case_seen([r["faces"], r.get("route"), c["sort"], r["script"]], nontrivial=nontrivial,
                      sample={"route": r.get("route"), "nv": r["nv"], "faces": r["faces"][:6], "sort": c["sort"],
                              "script": r["script"][:6], "observed": r.get("obs", [])[:6]})

    # 1. independent oracle on every case = search for a concrete failing input
    fails = []
    for idx, (c, r) in enumerate(zip(cases, results)):
        try:
            m = O.check_case(c, r)
        except Exception as ex:  # the oracle itself must not hide anything
            m = (-1, "oracle crashed: %r" % ex)
        if m:
            fails.append((idx, m))
    def fail_key(idx, msg):
        return classify(dict(cases[idx], script=results[idx].get("script", cases[idx].get("script", [])),
                             route=results[idx].get("route", cases[idx].get("route"))), msg, results[idx])
    unknown = [(i, m) for i, m in fails if not ctx.known(fail_key(i, m))]
    fails = unknown + [(i, m) for i, m in fails if ctx.known(fail_key(i, m))]     # unknown classes are reported first
    ctx.obligation("oracle: every answer of the implementation equals the brute-force recomputation from the face list",
                   "oracle-on-implementation", not unknown,
                   "%d failing cases, %d of them outside the recorded known findings" % (len(fails), len(unknown)))
    n_crash = sum(1 for r in results if "crash" in r)
    n_fallback = sum(1 for r in results if r.get("note"))
    ctx.obligation("harness: every generated case was built, driven and encoded (crashed builds: %d, routes whose output was "
                   "not manifold and were rebuilt from the bare list: %d of %d)" % (n_crash, n_fallback, len(cases)),
                   "harness", len(cases) > 0 and n_crash == 0 and n_fallback <= 0.05 * len(cases),
                   "evaluations=%d" % len(cases))

    ctx.log("oracle done: %d failing" % len(fails))
    # 2. kernel-checked correspondence
    bad = []
    if b["model_ok"]:
        terms = [case_term(c, r) if "crash" not in r else None for c, r in zip(cases, results)]
        idxs = [i for i, t in enumerate(terms) if t is not None]
        shard = 40 if quick else 60
        badl = ctx.run_cases("scripts", HEADER, [terms[i] for i in idxs], "check_case", case_type=CASE_TYPE, shard=shard,
                             timeout=900)
        bad = [idxs[i] for i in (badl or [])]
    else:
        ctx.obligation("correspondence batches", "correspondence", False, "model does not compile")

    ctx.log("correspondence done: %d disagreeing" % len(bad))
    # 3. verdicts
    reported = set()
    import time as _time
    t_shrink = _time.time()
    for idx, msg in fails[:50]:
        case = cases[idx]
        key = fail_key(idx, msg)
        if key in reported or len(reported) >= 3:
            continue
        reported.add(key)
        if ctx.known(key):
            ctx.report_known(key, ctx.known(key)["what"])
            continue
        small = shrink(case, budget_s=max(5.0, 45.0 - (_time.time() - t_shrink)))
        m2, res2 = fails_case(small)
        ctx.violation("surface connectivity (mesh built through route '%s'): " % small.get("route", "list") + (m2[1] if m2 else msg[1]),
                      {"case": small, "finished_faces": res2.get("faces"), "observed": res2.get("obs"), "class": key}, key=key)
    if bad and not fails:
        ctx.notes.append("model and implementation disagree on cases %s but the oracle accepts the implementation's answers" % bad[:5])
        for i in bad[:3]:
            ctx.log("disagreement on case", i, json.dumps({k: v for k, v in cases[i].items() if k != "info"})[:800],
                    "route", results[i].get("route"), "script", json.dumps(results[i].get("script"))[:400])


def replay(ctx, data):
    if "case" not in data:
        print("replay file names no concrete input:", json.dumps(data)[:400])
        return 1
    m, res = fails_case(data["case"])
    print("observed:", json.dumps(res.get("obs", res))[:2000])
    print("FAILS: " + m[1] if m else "passes")
    return 1 if m else 0
