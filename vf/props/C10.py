"""C10 - spanning trees and forests span, are acyclic, and respect exclusions."""
import itertools
import json
import math
import os
import sys

from .. import core
from ..core import zlit, coq_list, coq_bool

META = {
    "property_id": "C10",
    "design_ref": "DESIGN.md section 5, C10 (and Appendix B5)",
    "technique": "Coq proof (BFS invariants: sorted pair queue / frontier closure / parent-depth consistency; worklist "
                 "invariant for traverse in both pop disciplines; forest by closure of visited sets; Kruskal: spanning "
                 "forest by the partition invariant, minimality by the rank/threshold counting argument; orientation by "
                 "a rooted-forest witness) + translator-regenerated admissibility / loop tests / pop discipline / weight "
                 "selector / sort direction / call plumbing + kernel-checked correspondence through Gallina checkers "
                 "proved sound",
    "level_text": "see level text set at the end of this module",
    "level_note": "Trusted: Coq kernel + vm_compute; the trees translator; the correspondence harness (mesh generators, "
                  "driver extraction of the neighbour slots through mouette's public connectivity queries on a second mesh "
                  "object, canonicalisation). NOT verified here: that those queries deliver the mesh adjacency (C01/C03): "
                  "'tree edge is an adjacency of the mesh' is proved relative to the slots mouette reports; the oracle rebuilds "
                  "the adjacency from the element tables, and only oriented MANIFOLD surfaces / face-connected volumes are "
                  "generated (on a non-manifold edge opposite_face drops neighbours and neither model nor generator sees it). "
                  "The forest theorems need a symmetric admissible adjacency: checked per forest case inside Coq (symb, proved "
                  "sound), not proved of mouette. UnionFind enters as the abstract partition it refines (C20); Python's stable "
                  "list.sort, deque and set semantics; for weights='length' the float edge lengths are order-isomorphic to the "
                  "integer squared lengths given to the model (lattice coordinates). Crashes inside a shard are re-run alone, "
                  "counted in the evidence, and fail the run beyond 2%. "
                  "Tested only (oracle / correspondence, no theorem): that traverse('DFS') is a pre-order (the oracle "
                  "checks it; proved are only 'each once, parents first'); Kruskal is proved over the abstract partition, "
                  "not over the array union-find of unionfind.py (C20 proves that refinement separately; the two are not "
                  "composed inside Coq); the refusal paths of traverse (not computed / unknown order) and of the weights "
                  "validation are not modelled. "
                  "Deliberately left free (neither oracle nor checkers constrain it): the exception class and message of a "
                  "refusal (a starting element that is not an element may be refused with anything; a negative index may "
                  "instead be answered with the correct tree of element n+index); which of several breadth-first trees / "
                  "minimum forests is returned (tie-breaking, neighbour and sort order); the order of each children list, of "
                  "the edge lists, of the trees inside a forest and of forest.edges / forest.traverse across trees; the order "
                  "of siblings in a traversal (only: each element once, parents first, BFS level by level, DFS a pre-order); "
                  "how an object stores its exclusion set, what obj() returns, forest[k]; warnings, log output, extra "
                  "attributes, numpy vs python integers in the tables; last-bit differences of float weights (tolerance "
                  "1e-9(1+|x|)). The kernel-evaluated correspondence is stricter in one place (forest roots are compared with "
                  "the model's, i.e. least element of each component first): a change there is reported as unproved "
                  "(no-failing-input-found), never as a concrete violation.",
}

HEADER = """From Coq Require Import ZArith List Bool Arith.
Import ListNotations.
Require Import MV.C10.Prelude MV.C10.Gen MV.C10.Model MV.C10.Run.
Open Scope nat_scope.
"""

DRIVER = "vf.impl.c10_driver"


def gen(ctx):
    from ..translate import c10 as tr
    return tr.gen()


# ====================================================================== mesh generators
def _renumber(rng, nv, elems_lists):
    """random vertex renumbering applied to several element lists"""
    perm = list(range(nv))
    rng.shuffle(perm)
    return perm, [[[perm[v] for v in el] for el in L] for L in elems_lists]


def gen_polyline(rng, big=False, long=False):
    n = rng.choice([1, 2, 3, 4, 5, 6, 8, 10, 12] + ([20, 30] if big else []))
    style = rng.choice(["sparse", "path", "cycle", "dense", "empty", "two"])
    if long:
        # more than 256 elements: indices beyond the small-integer cache, roots and ids that do not fit 8 bits
        n = rng.choice([270, 300, 330])
        style = rng.choice(["path", "cycle", "two"])
    pairs = [(a, b) for a in range(n) for b in range(a + 1, n)]
    E = []
    if style == "path":
        E = [(i, i + 1) for i in range(n - 1)]
    elif style == "cycle" and n >= 3:
        E = [(i, (i + 1) % n) for i in range(n)]
    elif style == "dense":
        E = [p for p in pairs if rng.random() < 0.6]
    elif style == "sparse":
        E = [p for p in pairs if rng.random() < min(1.0, 1.5 / max(1, n))]
    elif style == "two":
        h = n // 2
        E = [(i, i + 1) for i in range(h - 1)] + [(i, i + 1) for i in range(h, n - 1)]
        E += [p for p in pairs if (p[0] < h) == (p[1] < h) and rng.random() < 0.2 and p not in E]
    E = list(dict.fromkeys(tuple(sorted(e)) for e in E))
    rng.shuffle(E)
    E = [e if rng.random() < 0.5 else (e[1], e[0]) for e in E]
    perm, (E,) = _renumber(rng, n, [E])
    V = [[rng.randint(-4, 4), rng.randint(-4, 4), rng.randint(-2, 2)] for _ in range(n)]
    return {"type": "polyline", "V": V, "E": E, "F": [], "C": [], "shape": "polyline/" + style}


def _grid_faces(nu, nv, tri):
    """faces of an (nu x nv)-vertex grid, counter-clockwise; vertex (i,j) -> i*nv+j"""
    F = []
    for i in range(nu - 1):
        for j in range(nv - 1):
            a, b, c, d = i * nv + j, (i + 1) * nv + j, (i + 1) * nv + j + 1, i * nv + j + 1
            if tri == "quad":
                F.append([a, b, c, d])
            elif tri == "diag" or (tri == "mixed" and (i + j) % 2 == 0):
                F += [[a, b, c], [a, c, d]]
            else:
                F += [[a, b, d], [b, c, d]]
    return F


def bigon(k1, k2, shared=2):
    """two polygons (k1- and k2-gons) glued along `shared` consecutive edges: the vertices strictly inside the shared
    chain are interior vertices of valence 2, and the two faces are adjacent through SEVERAL edges"""
    chain = list(range(shared + 1))                       # 0..shared : the shared chain
    a_rest = list(range(shared + 1, k1))                  # the remaining vertices of polygon A
    b_rest = list(range(k1, k1 + k2 - shared - 1))        # ... of polygon B
    A = chain + a_rest
    B = list(reversed(chain)) + b_rest
    nv = k1 + k2 - shared - 1
    V = [[int(round(5 * math.cos(2 * math.pi * i / nv))) + (i % 2), int(round(5 * math.sin(2 * math.pi * i / nv))), i % 3] for i in range(nv)]
    return nv, V, [A, B]


def gen_surface_piece(rng, big=False):
    """(n_vertices, coords, faces) of one oriented manifold piece"""
    kind = rng.choice(["grid", "grid", "grid", "tet", "octa", "cube", "torus", "single", "fan", "bigon"])
    if kind == "bigon":
        return bigon(rng.choice([4, 4, 5, 6]), rng.choice([4, 5, 6]), rng.choice([2, 2, 3]))
    if kind == "single":
        k = rng.choice([3, 3, 4, 5])
        return k, [[int(round(3 * math.cos(2 * math.pi * i / k))), int(round(3 * math.sin(2 * math.pi * i / k))), 0]
                   for i in range(k)], [list(range(k))]
    if kind == "fan":
        k = rng.choice([3, 4, 5, 6])
        closed = rng.random() < 0.5
        V = [[0, 0, 0]] + [[int(round(4 * math.cos(2 * math.pi * i / k))), int(round(4 * math.sin(2 * math.pi * i / k))), 1]
                           for i in range(k)]
        F = [[0, 1 + i, 1 + (i + 1) % k] for i in range(k if closed else k - 1)]
        return k + 1, V, F
    if kind == "tet":
        return 4, [[0, 0, 0], [2, 0, 0], [0, 2, 0], [0, 0, 2]], [[0, 2, 1], [0, 1, 3], [1, 2, 3], [0, 3, 2]]
    if kind == "octa":
        V = [[2, 0, 0], [-2, 0, 0], [0, 2, 0], [0, -2, 0], [0, 0, 2], [0, 0, -2]]
        F = [[0, 2, 4], [2, 1, 4], [1, 3, 4], [3, 0, 4], [2, 0, 5], [1, 2, 5], [3, 1, 5], [0, 3, 5]]
        return 6, V, F
    if kind == "cube":
        V = [[x, y, z] for x in (0, 2) for y in (0, 2) for z in (0, 2)]
        F = [[0, 1, 3, 2], [4, 6, 7, 5], [0, 4, 5, 1], [2, 3, 7, 6], [0, 2, 6, 4], [1, 5, 7, 3]]
        return 8, V, F
    if kind == "torus":
        a, b = rng.choice([(3, 3), (3, 4), (4, 3)] + ([(5, 6)] if big else []))
        V = [[3 * i, 3 * j, (i * j) % 3] for i in range(a) for j in range(b)]
        F = []
        for i in range(a):
            for j in range(b):
                p, q, r, s = i * b + j, ((i + 1) % a) * b + j, ((i + 1) % a) * b + (j + 1) % b, i * b + (j + 1) % b
                F += [[p, q, r], [p, r, s]] if rng.random() < 0.7 else [[p, q, r, s]]
        return a * b, V, F
    nu = rng.choice([2, 2, 3, 3, 4, 5] + ([7, 9] if big else []))
    nv = rng.choice([2, 3, 3, 4, 5] + ([7, 8] if big else []))
    tri = rng.choice(["quad", "diag", "mixed", "anti"])
    F = _grid_faces(nu, nv, tri)
    V = [[2 * i, 2 * j + (i % 2), 0] for i in range(nu) for j in range(nv)]
    return nu * nv, V, F


def gen_surface(rng, big=False):
    pieces = rng.choice([1, 1, 1, 2, 2, 3])
    V, F = [], []
    for k in range(pieces):
        n, v, f = gen_surface_piece(rng, big)
        off = len(V)
        V += [[x + 20 * k, y, z] for x, y, z in v]
        F += [[a + off for a in face] for face in f]
    # open holes: delete faces (a subset of an oriented manifold complex stays edge-manifold and oriented)
    p_del = rng.choice([0, 0, 0.15, 0.35])
    F2 = [f for f in F if rng.random() >= p_del]
    if not F2:
        F2 = F[:1]
    F = F2
    # isolated vertices
    for _ in range(rng.choice([0, 0, 0, 1, 2])):
        V.append([rng.randint(40, 50), rng.randint(0, 5), 0])
    if rng.random() < 0.3:
        F = [list(reversed(f)) for f in F]          # the whole surface with the other (clockwise) orientation
    F = [f[k:] + f[:k] for f in F for k in [rng.randrange(len(f))]]
    rng.shuffle(F)
    perm, (F,) = _renumber(rng, len(V), [F])
    V2 = [None] * len(V)
    for old, new in enumerate(perm):
        V2[new] = V[old]
    E = []
    if rng.random() < 0.1 and len(V2) >= 2:
        # an explicit dangling edge besides the completed ones
        a, b = rng.sample(range(len(V2)), 2)
        E = [[a, b]]
    return {"type": "surface", "V": V2, "E": E, "F": F, "C": [], "shape": "surface/%dpieces" % pieces}


KUHN = list(itertools.permutations(range(3)))


def gen_volume_piece(rng, big=False):
    kind = rng.choice(["tet", "two", "kuhn", "kuhn", "hex", "fan"])
    if kind == "tet":
        return [[0, 0, 0], [2, 0, 0], [0, 2, 0], [0, 0, 2]], [[0, 1, 2, 3]]
    if kind == "two":
        return [[0, 0, 0], [2, 0, 0], [0, 2, 0], [0, 0, 2], [2, 2, 2]], [[0, 1, 2, 3], [1, 2, 3, 4]]
    if kind == "fan":
        # k tets around the edge (0,1)
        k = rng.choice([3, 4, 5])
        closed = rng.random() < 0.5
        V = [[0, 0, -2], [0, 0, 2]] + [[int(round(4 * math.cos(2 * math.pi * i / k))), int(round(4 * math.sin(2 * math.pi * i / k))), 0]
                                        for i in range(k)]
        C = [[0, 1, 2 + i, 2 + (i + 1) % k] for i in range(k if closed else k - 1)]
        return V, C
    a, b, c = rng.choice([(1, 1, 1), (2, 1, 1), (2, 2, 1), (1, 2, 2)] + ([(2, 2, 2), (3, 2, 1)] if big else []))
    idx = {}
    V = []
    for i in range(a + 1):
        for j in range(b + 1):
            for k in range(c + 1):
                idx[(i, j, k)] = len(V)
                V.append([2 * i, 2 * j, 2 * k])
    C = []
    for i in range(a):
        for j in range(b):
            for k in range(c):
                if kind == "hex":
                    C.append([idx[(i + di, j + dj, k + dk)] for di, dj, dk in
                              [(0, 0, 0), (1, 0, 0), (1, 1, 0), (0, 1, 0), (0, 0, 1), (1, 0, 1), (1, 1, 1), (0, 1, 1)]])
                else:
                    for perm in KUHN:
                        p = [i, j, k]
                        tet = [idx[tuple(p)]]
                        for ax in perm:
                            p[ax] += 1
                            tet.append(idx[tuple(p)])
                        C.append(tet)
    return V, C


def _edge_rings_connected(C):
    by_edge = {}
    for ci, c in enumerate(C):
        for a in c:
            for b in c:
                if a < b:
                    by_edge.setdefault((a, b), []).append(ci)
    share = 3 if all(len(c) == 4 for c in C) else 4
    for (a, b), cs in by_edge.items():
        if len(cs) < 2:
            continue
        seen = {cs[0]}
        todo = [cs[0]]
        while todo:
            x = todo.pop()
            for y in cs:
                if y not in seen and len(set(C[x]) & set(C[y])) >= share:
                    seen.add(y)
                    todo.append(y)
        if len(seen) != len(cs):
            return False
    return True


def gen_volume(rng, big=False):
    pieces = rng.choice([1, 1, 2, 2, 3])
    V, C = [], []
    for k in range(pieces):
        v, c = gen_volume_piece(rng, big)
        off = len(V)
        V += [[x + 30 * k, y, z] for x, y, z in v]
        C += [[a + off for a in cell] for cell in c]
    p_del = rng.choice([0, 0, 0.2, 0.4])
    C2 = [c for c in C if rng.random() >= p_del]
    if not C2:
        C2 = C[:1]
    # keep the deletion only if the result is still a valid volume mesh for mouette: the cells around every
    # edge must be connected through shared faces (otherwise VolumeMesh's edge-ring sorting raises - C03's domain)
    if _edge_rings_connected(C2):
        C = C2
    # drop unused vertices half of the time (isolated vertices otherwise)
    if rng.random() < 0.5:
        used = sorted({v for c in C for v in c})
        ren = {v: i for i, v in enumerate(used)}
        V = [V[v] for v in used]
        C = [[ren[v] for v in c] for c in C]
    C = [rng.sample(c, 4) if len(c) == 4 else c for c in C]     # tetrahedra in any vertex order / orientation
    rng.shuffle(C)
    perm, (C,) = _renumber(rng, len(V), [C])
    V2 = [None] * len(V)
    for old, new in enumerate(perm):
        V2[new] = V[old]
    return {"type": "volume", "V": V2, "E": [], "F": [], "C": C, "shape": "volume/%dpieces" % pieces}


def mesh_counts(mesh):
    """(n_vertices, upper bounds for edge / face ids) without instantiating mouette"""
    nv = len(mesh["V"])
    return nv


def gen_case(rng, big=False):
    """one structured case: mesh + operation + parameters (mostly valid; a few out-of-range roots)"""
    what = rng.choices(["edge_tree", "face_tree", "cell_tree", "edge_forest", "face_forest", "cell_forest", "kruskal"],
                       [26, 18, 14, 8, 8, 6, 20])[0]
    if what.startswith("face"):
        mesh = gen_surface(rng, big)
    elif what.startswith("cell"):
        mesh = gen_volume(rng, big)
    else:
        mesh = rng.choice([gen_polyline, gen_surface, gen_surface, gen_volume])(rng, big)
    case = {"mesh": mesh, "what": what}
    nv, nf, nc = len(mesh["V"]), len(mesh["F"]), len(mesh["C"])
    # exclusion ids are drawn from (a little more than) the whole id range mouette will assign: explicit + face + cell
    # edges / faces; ids that do not exist are harmless members of the set
    max_eid = len(mesh["E"]) + sum(len(f) for f in mesh["F"]) + sum(6 if len(c) == 4 else 12 for c in mesh["C"]) + 3
    max_fid = nf + sum(4 if len(c) == 4 else 6 for c in mesh["C"]) + 2
    dens = rng.choice([None, 0.0, 0.1, 0.3, 0.6, 1.0])

    def excl(maxid):
        if dens is None:
            return None
        return sorted(i for i in range(maxid) if rng.random() < dens)
    if what == "edge_tree":
        case.update(op="tree", kind="edge", root=rng.randrange(nv), avoid_boundary=rng.random() < 0.35,
                    excl=excl(max_eid))
    elif what == "face_tree":
        case.update(op="tree", kind="face", root=rng.randrange(nf), excl=excl(max_eid))
    elif what == "cell_tree":
        case.update(op="tree", kind="cell", root=rng.randrange(nc), excl=excl(max_fid))
    elif what == "edge_forest":
        case.update(op="forest", kind="edge", excl=None)
    elif what == "face_forest":
        case.update(op="forest", kind="face", excl=excl(max_eid))
    elif what == "cell_forest":
        case.update(op="forest", kind="cell", excl=None)
    else:
        mode = rng.choice(["one", "length", "length", "dict", "dict", "attr_sparse"])
        if mode in ("one", "length"):
            w = mode
        else:
            style = rng.choice(["ties", "spread", "neg", "dyadic"])
            m = 8 * nv + 40  # more than the number of edges of any generated mesh
            if style == "ties":
                vals = [rng.choice([0, 1, 1, 2]) for _ in range(m)]
            elif style == "spread":
                vals = [rng.randint(0, 50) for _ in range(m)]
            elif style == "neg":
                vals = [rng.randint(-9, 9) for _ in range(m)]
            else:
                vals = [rng.randint(-20, 60) / 4.0 for _ in range(m)]
            w = {"as": mode, "values": vals}
            # stored as python float / int / numpy float32 / float64, under numpy keys, scaled by a power of two
            # (1e-7 .. 1e39: the minimum forests do not depend on the scale)
            w["num"] = rng.choice(["float", "float", "float32", "float64"] + (["int"] if style != "dyadic" else []))
            w["np_keys"] = mode == "dict" and rng.random() < 0.3
            if w["num"] != "int":
                w["scale_exp"] = rng.choice([0, 0, -23, 100 if w["num"] == "float32" else 130])
        case.update(op="kruskal", kind="edge", root=rng.randrange(nv), avoid_boundary=rng.random() < 0.35, weights=w)
    # every accessor is read twice, in an order chosen here
    case["read_order"] = rng.randrange(12)
    # the starting element in every integer representation (python int, numpy.int32/int64/uint8)
    case["root_repr"] = rng.choice(ROOT_REPRS)
    # multi-step scenarios: a persistent geometric attribute computed BEFORE the vertices move to their final place
    # (mesh["V"] is the final geometry, mesh["pre_V"] the one the mesh is built with), or a pre-existing attribute
    # with a colliding name holding arbitrary values
    r = rng.random()
    if r < (0.45 if what == "kruskal" else 0.12):
        mesh2 = dict(mesh)
        mesh2["pre_V"] = [[rng.randint(-6, 6), rng.randint(-6, 6), rng.randint(-3, 3)] for _ in range(nv)]
        case["mesh"] = mesh2
        case["pre"] = {"persist_length": True}
    elif r < (0.7 if what == "kruskal" else 0.2):
        case["pre"] = {"preset_length": [rng.choice([0.0, 1.0, 2.5, -3.0, 100.0, 7.25]) for _ in range(17)],
                       "dense": rng.random() < 0.5}
    # call form and argument representations: positional / keyword / mixed; exclusion set of python or numpy integers or
    # a frozenset; avoid_boundary as bool / numpy.bool_ / 0-1
    case["call_form"] = rng.choice(["mixed", "pos", "kw"])
    case["excl_repr"] = rng.choice(["set", "set", "np", "frozen"])
    case["flag_repr"] = rng.choice(["bool", "bool", "np", "int"])
    if rng.random() < 0.06:
        # degenerate geometry with valid combinatorics: all vertices at one point (every edge has length zero)
        case["mesh"] = dict(case["mesh"], V=[[3, 1, 2] for _ in case["mesh"]["V"]])
    # compute() / __call__ may be called again on the same object: the tables must be those of one computation
    case["calls"] = rng.choice([1, 1, 1, 2, 2, 3])
    if case["op"] in ("tree", "kruskal") and rng.random() < 0.06:
        # a starting element that is not an element (too large, or negative - which Python lists would wrap around):
        # it must be refused
        n_el = {"edge": nv, "face": nf, "cell": nc}[case["kind"]]
        case["root"] = n_el + rng.randrange(3) if rng.random() < 0.4 else -1 - rng.randrange(n_el + 2)
    elif case["op"] in ("tree", "kruskal") and rng.random() < 0.03:
        case["root"] = None                      # the constructor draws the root itself
    return case


ROOT_REPRS = ["int", "int", "int64", "int32", "uint8"]


def gen_session(rng):
    """several objects in one interpreter session: shared and different meshes, with / without the optional arguments,
    the caller adding ids to the exclusion sets of earlier objects between constructions"""
    fam = rng.choice(["surface", "surface", "volume"])
    meshes = [gen_surface(rng) if fam == "surface" else gen_volume(rng) for _ in range(rng.choice([1, 2]))]
    ops = (["edge_tree", "face_tree", "face_tree", "face_forest", "edge_forest", "kruskal"] if fam == "surface"
           else ["edge_tree", "cell_tree", "cell_tree", "cell_forest", "edge_forest", "kruskal"])
    steps = []
    nobj = 0
    for _ in range(rng.choice([2, 3, 4, 5])):
        mid = rng.randrange(len(meshes))
        mesh = meshes[mid]
        nv, nf, nc = len(mesh["V"]), len(mesh["F"]), len(mesh["C"])
        max_eid = len(mesh["E"]) + sum(len(f) for f in mesh["F"]) + sum(6 if len(c) == 4 else 12 for c in mesh["C"]) + 3
        max_fid = nf + sum(4 if len(c) == 4 else 6 for c in mesh["C"]) + 2
        what = rng.choice(ops)
        omit = rng.random() < 0.5
        dens = rng.choice([0.1, 0.3, 0.6])
        if rng.random() < 0.25:
            # the mesh is edited between two objects: vertices move
            newV = [[rng.randint(-6, 6), rng.randint(-6, 6), rng.randint(-3, 3)] for _ in mesh["V"]]
            steps.append({"do": "move", "mesh_id": mid, "V": newV})
        sub = {"mesh_id": mid, "what": what, "read_order": rng.randrange(12), "calls": rng.choice([1, 1, 2]),
               "call_form": rng.choice(["mixed", "pos", "kw"]), "excl_repr": rng.choice(["set", "np"]),
               "flag_repr": rng.choice(["bool", "np", "int"]),
               "root_repr": rng.choice(ROOT_REPRS),
               "omit_optional": omit, "excl": None}
        if what.endswith("_tree"):
            kind = what.split("_")[0]
            n_el = {"edge": nv, "face": nf, "cell": nc}[kind]
            sub.update(op="tree", kind=kind, root=rng.randrange(n_el), avoid_boundary=False)
            if not omit:
                sub["excl"] = sorted(i for i in range(max_fid if kind == "cell" else max_eid) if rng.random() < dens)
                sub["avoid_boundary"] = kind == "edge" and rng.random() < 0.3
        elif what.endswith("_forest"):
            kind = what.split("_")[0]
            sub.update(op="forest", kind=kind)
            if kind == "face" and not omit:
                sub["excl"] = sorted(i for i in range(max_eid) if rng.random() < dens)
        else:
            sub.update(op="kruskal", kind="edge", root=rng.randrange(nv), avoid_boundary=False, weights="length")
            if not omit:
                sub["avoid_boundary"] = rng.random() < 0.3
                sub["weights"] = rng.choice(["one", "length"])
        steps.append({"do": "build", "case": sub})
        nobj += 1
        # the caller adds cuts to the public exclusion set of an earlier object (whatever object that is)
        for _ in range(rng.choice([0, 1, 1, 2])):
            steps.append({"do": "mutate", "obj": rng.randrange(nobj),
                          "ids": sorted(rng.sample(range(max(max_eid, max_fid)), min(max(max_eid, max_fid), rng.choice([1, 3, 8, 20]))))})
        # ... or re-roots an earlier tree / adds cuts to it and calls compute() again
        if rng.random() < 0.5:
            steps.append({"do": "reconf", "obj": rng.randrange(nobj), "root": rng.randrange(1000), "read_order": rng.randrange(12),
                          "spelling": rng.choice(["call", "call", "compute"]), "root_repr": rng.choice(ROOT_REPRS),
                          "fail_first": rng.random() < 0.3,
                          "ids": sorted(rng.sample(range(max(max_eid, max_fid)), min(max(max_eid, max_fid), rng.choice([0, 1, 4, 10]))))})
    return {"op": "session", "kind": "session", "what": "session", "mesh": meshes[0], "meshes": meshes, "steps": steps}


def expand_sessions(cases, obs):
    """every object of a session (and every reconfiguration + recompute of one) becomes an ordinary case
    (same oracle, same Coq batches)"""
    out_c, out_o = [], []
    for c, o in zip(cases, obs):
        if c.get("op") != "session":
            out_c.append(c)
            out_o.append(o)
            continue
        rsteps = [st for st in c["steps"] if st["do"] in ("build", "reconf")]
        if "crash" in o or len(o.get("results", [])) != len(rsteps):
            out_c.append(dict(c, op="session"))
            out_o.append(o if "crash" in o else {"op": "session", "kind": "session", "crash": "session returned %d results for %d steps" % (len(o.get("results", [])), len(rsteps))})
            continue
        current = []
        cur_V = [m["V"] for m in c["meshes"]]
        k = -1
        for st in c["steps"]:
            if st["do"] == "move":
                cur_V[st["mesh_id"]] = st["V"]
                continue
            if st["do"] not in ("build", "reconf"):
                continue
            k += 1
            r = o["results"][k]
            if st["do"] == "build":
                cc = dict(st["case"])
                current.append(cc)
            else:
                if r.get("skipped"):
                    continue
                cc = dict(current[st["obj"]])
                cc.update(calls=1, omit_optional=False, what=cc["what"] + "+reconfigured")
                if "excl" in r["update"]:
                    cc["excl"] = r["update"]["excl"]
                if "root" in r["update"]:
                    cc["root"] = r["update"]["root"]
                current[st["obj"]] = cc
            cc = dict(cc)
            cc["mesh"] = dict(c["meshes"][cc["mesh_id"]], V=cur_V[cc["mesh_id"]])   # the geometry at that moment
            cc["session"] = {"meshes": c["meshes"], "steps": c["steps"], "object": k}
            out_c.append(cc)
            out_o.append(r)
    return out_c, out_o


def bigon_cases(rng):
    """two faces joined by several edges: each single edge excluded in turn (and each pair), every root, trees and forests"""
    out = []
    for k1, k2, sh in ((4, 4, 2), (5, 4, 2), (5, 6, 3)):
        nv, V, F = bigon(k1, k2, sh)
        if rng.random() < 0.5:
            F = [F[1], F[0]]
        mesh = {"type": "surface", "V": V, "E": [], "F": F, "C": [], "shape": "surface/bigon%d-%d-%d" % (k1, k2, sh)}
        n_edges = k1 + k2 - sh
        sets = [[e] for e in range(n_edges)] + [sorted(rng.sample(range(n_edges), 2)) for _ in range(3)]
        for ex in sets:
            out.append({"mesh": mesh, "what": "face_forest", "op": "forest", "kind": "face", "excl": ex,
                        "read_order": rng.randrange(12), "calls": 1})
            for r in (0, 1):
                out.append({"mesh": mesh, "what": "face_tree", "op": "tree", "kind": "face", "root": r, "excl": ex,
                            "read_order": rng.randrange(12), "calls": 1})
    return out


def all_roots_cases(rng, count):
    """all roots on small meshes, every kind"""
    out = []
    while len(out) < count:
        what = rng.choice(["edge", "face", "cell", "kruskal"])
        if what == "face":
            mesh = gen_surface(rng)
            n_el = len(mesh["F"])
        elif what == "cell":
            mesh = gen_volume(rng)
            n_el = len(mesh["C"])
        else:
            mesh = rng.choice([gen_polyline, gen_surface, gen_volume])(rng)
            n_el = len(mesh["V"])
        if n_el > 14:
            continue
        ab = rng.random() < 0.3
        for r in list(range(n_el)) + [-1, -n_el, -n_el - 1]:
            if what == "kruskal":
                out.append({"mesh": mesh, "what": "kruskal", "op": "kruskal", "kind": "edge", "root": r,
                            "avoid_boundary": ab, "weights": "length"})
            else:
                out.append({"mesh": mesh, "what": what + "_tree", "op": "tree", "kind": what, "root": r,
                            "avoid_boundary": ab, "excl": None})
    out = out[:count]
    for k, c in enumerate(out):
        c["root_repr"] = ROOT_REPRS[k % len(ROOT_REPRS)]
    return out


# ====================================================================== encoders (case + observation -> Gallina)
def nlist(xs):
    return "[" + "; ".join(str(int(x)) for x in xs) + "]"


def onat(x):
    return "None" if x is None else "(Some %d)" % x


def olist(xs):
    return "[" + "; ".join(onat(x) for x in xs) + "]"


def plist(ps):
    return "[" + "; ".join("(%d, %d)" % (a, b) for a, b in ps) + "]"


def elist(es):
    return "[" + "; ".join("(%d, %s)" % (a, onat(b)) for a, b in es) + "]"


def raw_term(raw):
    return "[" + "; ".join("[" + "; ".join("mkArc %s %s %s" % (onat(t), coq_bool(f), coq_bool(b)) for t, f, b in row) + "]"
                           for row in raw) + "]"


def tobs_term(o):
    return "(mkTO %s %s %s %s %s)" % (olist(o["parent"]), "[" + "; ".join(nlist(c) for c in o["children"]) + "]",
                                      plist(o["edges"]), elist(o["bfs"]), elist(o["dfs"]))


EMPTY_OBS = {"parent": [], "children": [], "edges": [], "bfs": [], "dfs": []}
KIND = {"edge": "KEdge", "face": "KFace", "cell": "KCell"}


def eff_root(case, res):
    """the root: given, or (starting element None) the one the constructor drew at random"""
    r = case.get("root")
    return res.get("root") if r is None else r


def tree_term(case, res):
    cfg = "(mkCfg %s %s %s %s)" % (KIND[case["kind"]], coq_bool(case.get("excl") is not None),
                                   coq_bool(bool(case.get("avoid_boundary", False))), coq_bool(res["polyline"]))
    err = res["err"] is not None
    root = eff_root(case, res) if not err else (case["root"] if case["root"] is not None else 0)
    return "(mkTC %s %s %s %d %s %s)" % (cfg, raw_term(res["raw"]), zlit(root), max(1, case.get("calls", 1)), coq_bool(err),
                                         tobs_term(EMPTY_OBS if err else res))


def forest_term(case, res):
    return "(mkFC %s %s %s %d %s %s %s %s %s)" % (
        KIND[case["kind"]], coq_bool(res["polyline"]), raw_term(res["raw"]), max(1, case.get("calls", 1)), nlist(res["roots"]),
        "[" + "; ".join(tobs_term(t) for t in res["trees"]) + "]", plist(res["edges"]), elist(res["bfs"]),
        elist(res["dfs"]))


def int_weight_image(case, res):
    """order-preserving integer images of the keys: squared lattice lengths; custom weights scaled by 4"""
    V = case["mesh"]["V"]
    sq = [sum((V[a][k] - V[b][k]) ** 2 for k in range(3)) for a, b in res["edges_tab"]]
    cust = [0] * len(sq)
    if "custom" in res:
        cust = [int(round(4 * x)) for x in res["custom"]]
        assert all(abs(c - 4 * x) < 1e-12 for c, x in zip(cust, res["custom"]))
    return sq, cust


def kruskal_term(case, res):
    sq, cust = int_weight_image(case, res)
    w = case["weights"]
    err = res["err"] is not None
    root = eff_root(case, res) if not err else (case["root"] if case["root"] is not None else 0)
    ki = "(mkKI %d %s %s %s %s %s %s %s %s %d)" % (
        res["n"], plist(res["edges_tab"]), "[" + "; ".join(coq_bool(b) for b in res["bord"]) + "]",
        "[" + "; ".join(zlit(x) for x in sq) + "]", "[" + "; ".join(zlit(x) for x in cust) + "]",
        coq_bool(w == "one"), coq_bool(w == "length"), coq_bool(bool(case.get("avoid_boundary", False))),
        coq_bool(res["polyline"]), max(0, root))
    return "(mkKC %s %s %d %s %s)" % (ki, zlit(root), max(1, case.get("calls", 1)), coq_bool(err),
                                      tobs_term(EMPTY_OBS if err else res))


# ====================================================================== independent oracle (property restated)
def _border_edges(res, mesh_type):
    """edge ids on the border, rebuilt from the element tables"""
    E = [tuple(sorted(e)) for e in res["edges_tab"]]
    if mesh_type == "polyline":
        return set()
    if mesh_type == "surface":
        cnt = {}
        for f in res["faces_tab"]:
            for i in range(len(f)):
                k = tuple(sorted((f[i], f[(i + 1) % len(f)])))
                cnt[k] = cnt.get(k, 0) + 1
        return {i for i, e in enumerate(E) if cnt.get(e, 0) < 2}
    cells = [set(c) for c in res["cells_tab"]]
    out = set()
    for f in res["faces_tab"]:
        if sum(1 for c in cells if set(f) <= c) < 2:
            for i in range(len(f)):
                out.add(tuple(sorted((f[i], f[(i + 1) % len(f)]))))
    return {i for i, e in enumerate(E) if e in out}


def oracle_graph(case, res):
    """admissible adjacency (dict element -> set of elements), from the element tables only"""
    kind = case["kind"]
    mt = case["mesh"]["type"]
    excl = set(case.get("excl") or [])
    if case["op"] == "forest" and kind != "face":
        excl = set()
    if kind == "edge":
        n = len(case["mesh"]["V"])
        adj = {v: set() for v in range(n)}
        bord = _border_edges(res, mt) if case.get("avoid_boundary") and case["op"] != "forest" else set()
        for i, (a, b) in enumerate(res["edges_tab"]):
            if i in excl or i in bord:
                continue
            adj[a].add(b)
            adj[b].add(a)
        return adj
    if kind == "face":
        F = res["faces_tab"]
        eid = {tuple(sorted(e)): i for i, e in enumerate(res["edges_tab"])}
        adj = {f: set() for f in range(len(F))}
        by_edge = {}
        for fi, f in enumerate(F):
            for i in range(len(f)):
                by_edge.setdefault(tuple(sorted((f[i], f[(i + 1) % len(f)]))), []).append(fi)
        for k, fs in by_edge.items():
            if eid[k] in excl:
                continue
            for a in fs:
                for b in fs:
                    if a != b:
                        adj[a].add(b)
        return adj
    C = [set(c) for c in res["cells_tab"]]
    adj = {c: set() for c in range(len(C))}
    for fi, f in enumerate(res["faces_tab"]):
        if fi in excl:
            continue
        cs = [ci for ci, c in enumerate(C) if set(f) <= c]
        for a in cs:
            for b in cs:
                if a != b:
                    adj[a].add(b)
    return adj


def hop_dist(adj, root):
    dist = {root: 0}
    frontier = [root]
    while frontier:
        nxt = []
        for u in frontier:
            for w in adj[u]:
                if w not in dist:
                    dist[w] = dist[u] + 1
                    nxt.append(w)
        frontier = nxt
    return dist


def components(adj):
    comp = {}
    for v in adj:
        if v not in comp:
            for w in hop_dist(adj, v):
                comp[w] = v
    return comp


def check_table_and_traverse(n, root, reach, o, need_depth=None, adj=None):
    """the parts of the sentence common to BFS trees and to the oriented Kruskal tree"""
    par, ch = o["parent"], o["children"]
    if len(par) != n or len(ch) != n:
        return "parent/children tables have the wrong length"
    if par[root] is not None:
        return "the root has a parent"
    for v in range(n):
        p = par[v]
        if v in reach and v != root:
            if p is None:
                return "reached element %d has no parent" % v
            if adj is not None and p not in adj[v]:
                return "tree edge (%d,%d) is not an admissible adjacency" % (p, v)
            # climbing parents reaches the root (acyclic) in exactly hop-distance steps (BFS trees)
            x, steps = v, 0
            while x != root:
                x = par[x]
                steps += 1
                if x is None or steps > n:
                    return "parents of %d do not lead to the root (cycle or dangling)" % v
            if need_depth is not None and steps != need_depth[v]:
                return "element %d is at depth %d in the tree, its hop distance to the root is %d" % (v, steps, need_depth[v])
        elif v not in reach and p is not None:
            return "element %d outside the root's component has parent %d" % (v, p)
    for p in range(n):
        want = sorted(v for v in range(n) if par[v] == p)
        if sorted(ch[p]) != want:
            return "children[%d] = %s is not the inverse of parent (%s)" % (p, ch[p], want)
    for order in ("bfs", "dfs"):
        out = o[order]
        nodes = [a for a, _ in out]
        if len(set(nodes)) != len(nodes):
            return "traverse(%s) visits an element twice" % order
        if set(nodes) != set(reach):
            return "traverse(%s) visits %s, reached set is %s" % (order, sorted(nodes), sorted(reach))
        seen = set()
        for a, b in out:
            if b != par[a]:
                return "traverse(%s) reports parent %s for %d, table says %s" % (order, b, a, par[a])
            if b is not None and b not in seen:
                return "traverse(%s) yields %d before its parent %d" % (order, a, b)
            seen.add(a)
        # the two orders are what their names say: BFS = level by level, DFS = each new element hangs below the
        # previous one or below one of its ancestors (pre-order)
        def depth(x):
            d = 0
            while par[x] is not None and d <= n:
                x = par[x]
                d += 1
            return d
        if order == "bfs":
            ds = [depth(a) for a, _ in out]
            if any(ds[i] > ds[i + 1] for i in range(len(ds) - 1)):
                return "traverse(BFS) is not level by level: depths %s" % ds
        else:
            for (x, _), (a, b) in zip(out, out[1:]):
                anc = {x}
                while par[x] is not None and len(anc) <= n:
                    x = par[x]
                    anc.add(x)
                if b not in anc:
                    return "traverse(DFS) is not a pre-order: %d (child of %s) follows %d" % (a, b, out[[k for k, _ in out].index(a) - 1][0])
    return None


def oracle_tree_obs(case, res, o, root, adj):
    n = len(adj)
    dist = hop_dist(adj, root)
    m = check_table_and_traverse(n, root, set(dist), o, need_depth=dist, adj=adj)
    if m:
        return m
    es = [tuple(e) for e in o["edges"]]
    want = sorted(tuple(sorted((o["parent"][v], v))) for v in dist if v != root)
    if len(es) != len(dist) - 1:
        return "%d tree edges for %d reached elements" % (len(es), len(dist))
    if sorted(es) != want:
        return "edge list %s is not {keyify(parent v, v)} = %s" % (sorted(es), want)
    return None


def oracle(case, res):
    """None, or a sentence describing how the implementation's answer violates C10"""
    if "crash" in res:
        return "implementation crashed: " + res["crash"]
    n_el = {"edge": len(case["mesh"]["V"]), "face": len(res.get("faces_tab", [])), "cell": len(res.get("cells_tab", []))}[case["kind"]]
    if case["op"] in ("tree", "kruskal") and case.get("root") is None:
        if res["err"] is not None:
            return "no starting element given: construction failed with " + res["err"]
        if not (0 <= res["root"] < n_el):
            return "no starting element given: the root drawn (%s) is not an element" % res["root"]
    elif case["op"] in ("tree", "kruskal"):
        bad_root = not (0 <= case["root"] < n_el)
        if bad_root:
            if res["err"] is not None:
                return None                      # refused: legitimate, whatever the exception class / message
            if -n_el <= case["root"] < 0:
                # accepted as Python's negative index: fine if it IS the tree of element n + root
                norm = lambda x: x + n_el if isinstance(x, int) and x < 0 else x
                res2 = dict(res, root=norm(res.get("root")), bfs=[[norm(a), norm(b2)] for a, b2 in res["bfs"]],
                            dfs=[[norm(a), norm(b2)] for a, b2 in res["dfs"]])
                m = oracle(dict(case, root=case["root"] + n_el), res2)
                return None if m is None else "a negative starting element was accepted but the answer is not the tree of element %d: %s" % (case["root"] + n_el, m)
            return "a root that is not an element was accepted"
        if res["err"] is not None:
            return "valid root rejected with " + res["err"]
        if res.get("root") != case["root"]:
            return "the tree is rooted at %s, the starting element given was %s (%s)" % (res.get("root"), case["root"], case.get("root_repr", "int"))
    if res.get("unstable"):
        return "reading the public tables twice / in another order changes the answers: " + "; ".join(res["unstable"][:2])
    adj = oracle_graph(case, res)
    if case["op"] == "tree":
        return oracle_tree_obs(case, res, res, eff_root(case, res), adj)
    if case["op"] == "forest":
        comp = components(adj)
        ncomp = len(set(comp.values()))
        if res["n_trees"] != ncomp or len(res["roots"]) != ncomp or len(res["trees"]) != ncomp:
            return "%d trees / %d roots for %d connected components" % (res["n_trees"], len(res["roots"]), ncomp)
        if sorted(res["roots"]) != sorted(res["tree_roots"]):
            return "forest.roots differs from the roots of forest.trees"
        if len({comp[r] for r in res["roots"]}) != ncomp:
            return "two roots in the same component"
        cover = {}
        for r, t in zip(res["roots"], res["trees"]):
            m = oracle_tree_obs(case, res, t, r, adj)
            if m:
                return "tree rooted at %d: %s" % (r, m)
            for a, _ in t["bfs"]:
                cover[a] = cover.get(a, 0) + 1
        if any(cover.get(v, 0) != 1 for v in adj):
            return "elements not covered exactly once: %s" % [v for v in adj if cover.get(v, 0) != 1]
        # forest.edges / forest.traverse: the edges / visits of the trees, each once (their order across trees is free)
        if sorted(tuple(e) for e in res["edges"]) != sorted(tuple(e) for t in res["trees"] for e in t["edges"]):
            return "forest.edges is not the union of the trees' edges (each once)"
        for order in ("bfs", "dfs"):
            if sorted((tuple(x) for x in res[order]), key=repr) != sorted((tuple(x) for t in res["trees"] for x in t[order]), key=repr):
                return "forest.traverse(%s) does not visit what the trees' traversals visit, each element once" % order
            seen_f = set()
            for a, b2 in res[order]:
                if b2 is not None and b2 not in seen_f:
                    return "forest.traverse(%s) yields %d before its parent %d" % (order, a, b2)
                seen_f.add(a)
        return None
    # ---- kruskal
    n = n_el
    E = [tuple(sorted(e)) for e in res["edges_tab"]]
    bord = _border_edges(res, case["mesh"]["type"]) if case.get("avoid_boundary") else set()
    cand = [i for i in range(len(E)) if i not in bord]
    w = case["weights"]
    if w == "one":
        wt = [1.0] * len(E)
    elif w == "length":
        wt = res["len_float"]
    else:
        wt = [float(x) for x in (res.get("custom_float") or res["custom"])]
    T = [tuple(e) for e in res["edges"]]
    eid = {e: i for i, e in enumerate(E)}
    if len(set(T)) != len(T):
        return "an edge is listed twice"
    for e in T:
        if e not in eid or eid[e] not in cand:
            return "tree edge %s is not an admissible edge" % (e,)
    tadj = {v: set() for v in range(n)}
    for a, b in T:
        tadj[a].add(b)
        tadj[b].add(a)
    cadj = {v: set() for v in range(n)}
    for i in cand:
        a, b = E[i]
        cadj[a].add(b)
        cadj[b].add(a)
    ct, cc = components(tadj), components(cadj)
    if any((ct[a] == ct[b]) != (cc[a] == cc[b]) for a in range(n) for b in range(n)):
        return "the edge list does not span the components of the admissible edges"
    ncomp = len(set(cc.values()))
    if len(T) != n - ncomp:
        return "%d edges for %d vertices in %d components: not a forest" % (len(T), n, ncomp)
    # minimum weight by Prim's algorithm on every component (independent of the sorted-edge scan)
    best = 0.0
    inc = {v: [] for v in range(n)}
    for i in cand:
        a, b = E[i]
        inc[a].append((wt[i], b))
        inc[b].append((wt[i], a))
    done = set()
    for s in range(n):
        if s in done:
            continue
        done.add(s)
        key = {}
        for ww, b in inc[s]:
            key[b] = min(key.get(b, math.inf), ww)
        while key:
            v = min(key, key=lambda x: key[x])
            best += key.pop(v)
            done.add(v)
            for ww, b in inc[v]:
                if b not in done:
                    key[b] = min(key.get(b, math.inf), ww)
    got = sum(wt[eid[e]] for e in T)
    if abs(got - best) > 1e-9 * (1 + abs(best)):
        return "edge list weighs %r, the minimum spanning forest weighs %r" % (got, best)
    root = eff_root(case, res)
    reach = set(hop_dist(tadj, root))
    return check_table_and_traverse(n, root, reach, res, need_depth=None, adj=tadj)


# ====================================================================== shrinking
def same_class(m0, m1):
    """two oracle messages describe the same kind of failure"""
    if m1 is None:
        return False
    crash0, crash1 = m0.startswith("implementation crashed"), m1.startswith("implementation crashed")
    if crash0 or crash1:
        return crash0 and crash1 and m0.split(":")[1:2] == m1.split(":")[1:2]
    return True


def shrink_case(case, msg, max_rounds=14):
    """greedy one-element deletions (cells / faces / edges / exclusion ids), one driver batch per round;
    a candidate is kept only if the oracle still rejects it for the same kind of reason"""
    cur = json.loads(json.dumps(case))
    for _ in range(max_rounds):
        cands = []
        for key in ("C", "F", "E"):
            L = cur["mesh"][key]
            if len(L) <= 1:
                continue
            for i in range(len(L)):
                c = json.loads(json.dumps(cur))
                del c["mesh"][key][i]
                if c["op"] == "tree" and c.get("root") is not None and c["kind"] in ("face", "cell") and key == ("F" if c["kind"] == "face" else "C"):
                    if c["root"] == i:
                        continue
                    if c["root"] > i:
                        c["root"] -= 1
                cands.append(c)
        for x in (cur.get("excl") or []):
            c = json.loads(json.dumps(cur))
            c["excl"].remove(x)
            cands.append(c)
        if cur.get("avoid_boundary"):
            c = json.loads(json.dumps(cur))
            c["avoid_boundary"] = False
            cands.append(c)
        if cur.get("pre"):
            c = json.loads(json.dumps(cur))
            c.pop("pre")
            c["mesh"].pop("pre_V", None)
            cands.append(c)
        if not cands:
            break
        cands = cands[:80]
        try:
            rs = core.run_impl(DRIVER, {"cases": cands, "case_timeout": 60}, timeout=900)["results"]
        except Exception:
            break
        nxt = None
        for c, r in zip(cands, rs):
            try:
                m = oracle(c, r)
            except Exception:
                m = None
            if same_class(msg, m):
                nxt = c
                break
        if nxt is None:
            break
        cur = nxt
    return cur


def run_one(case, timeout=300):
    if case.get("session"):
        se = case["session"]
        r = core.run_impl(DRIVER, {"cases": [{"op": "session", "kind": "session", "meshes": se["meshes"], "steps": se["steps"]}],
                                   "case_timeout": 120}, timeout=timeout)["results"][0]
        if "crash" in r:
            return r
        return r["results"][se["object"]]
    return core.run_impl(DRIVER, {"cases": [case], "case_timeout": 120}, timeout=timeout)["results"][0]


def shrink_session(case, msg):
    """an object that fails inside a session: alone if that still fails, else the session with as few other steps as possible"""
    alone = {k: v for k, v in case.items() if k != "session"}
    try:
        if same_class(msg, oracle(alone, run_one(alone))):
            return shrink_case(alone, msg)
    except Exception:
        pass
    cur = json.loads(json.dumps(case))
    # drop everything after the failing step, then the `mutate` steps one at a time (they produce no result of their own,
    # so the index of the failing step among the result-producing steps is unchanged)
    def result_step_pos(steps, obj):
        pos = [i for i, st in enumerate(steps) if st["do"] in ("build", "reconf")]
        return pos[obj]
    se = cur["session"]
    last = result_step_pos(se["steps"], se["object"])
    tail_kept = [st for st in se["steps"][last + 1:] if st["do"] == "mutate"]
    for cand_steps in (se["steps"][:last + 1], se["steps"][:last + 1] + tail_kept):
        cand = json.loads(json.dumps(cur))
        cand["session"]["steps"] = cand_steps
        try:
            if same_class(msg, oracle(cand, run_one(cand))):
                cur = cand
                break
        except Exception:
            pass
    changed = True
    while changed:
        changed = False
        steps = cur["session"]["steps"]
        for i, st in enumerate(steps):
            if st["do"] != "mutate":
                continue
            cand = json.loads(json.dumps(cur))
            cand["session"]["steps"].pop(i)
            try:
                ok = same_class(msg, oracle(cand, run_one(cand)))
            except Exception:
                ok = False
            if ok:
                cur = cand
                changed = True
                break
    return cur


SLUGS = [("implementation crashed", "crash"), ("reading the public tables twice", "unstable-reads"),
         ("a root that is not an element was accepted", "bad-root-accepted"), ("a negative starting element", "bad-root-accepted"), ("valid root rejected", "valid-root-rejected"),
         ("no starting element given", "drawn-root"), ("the tree is rooted at", "wrong-root"), ("parent/children tables have the wrong length", "table-length"),
         ("the root has a parent", "root-has-parent"), ("reached element", "reached-without-parent"),
         ("tree edge", "inadmissible-edge"), ("parents of", "cycle-or-dangling"), ("is at depth", "depth-not-hop-distance"),
         ("outside the root's component", "parent-outside-component"), ("children[", "children-not-inverse"),
         ("traverse(", "traverse"), ("tree edges for", "edge-count"), ("edge list", "edge-list"),
         ("trees /", "tree-count"), ("forest.roots", "forest-roots"), ("two roots", "roots-same-component"),
         ("tree rooted at", "forest-tree"), ("elements not covered", "cover"), ("forest.edges", "forest-edges"),
         ("forest.traverse", "forest-traverse"), ("an edge is listed twice", "duplicate-edge"),
         ("the edge list does not span", "not-spanning"), ("edges for", "not-a-forest")]


def classify(case, msg):
    """finding key: call site (operation, element kind), input class (exclusions / avoid_boundary / scenario / repeated
    compute / kind of root) and mechanism (which clause of the sentence fails)"""
    m = msg or ""
    if m.startswith("tree rooted at") and ": " in m:
        m = m.split(": ", 1)[1]
    slug = next((s2 for pre, s2 in SLUGS if m.startswith(pre)), "other")
    root = case.get("root")
    inp = []
    if case.get("excl"):
        inp.append("excl")
    if case.get("avoid_boundary"):
        inp.append("avoid_boundary")
    if case.get("pre"):
        inp.append("persist-then-move" if case["pre"].get("persist_length") else "preset-length")
    if case.get("calls", 1) > 1:
        inp.append("recompute")
    if case.get("session"):
        inp.append("session" + ("-defaults" if case.get("omit_optional") else ""))
    if "+reconfigured" in case.get("what", ""):
        inp.append("reconfigured")
    if case.get("root_repr", "int") != "int" and case.get("root") is not None:
        inp.append("root-as-" + case["root_repr"])
    if case["op"] in ("tree", "kruskal"):
        inp.append("root-none" if root is None else ("root-negative" if root < 0 else "root"))
    if case["op"] == "kruskal":
        w = case["weights"]
        inp.append("w-" + (w if isinstance(w, str) else w["as"]))
    return "%s/%s/%s/%s" % (case["op"], case["kind"], "+".join(inp) or "plain", slug)


# ====================================================================== the check
def run(ctx):
    quick = ctx.tier == "quick"
    n_rand = 310 if quick else 14000
    n_sessions = 45 if quick else 1200
    n_roots = 150 if quick else 3000
    ctx.rule = ("meshes built through RawMeshData: polylines (random graphs incl. empty, paths, cycles, two components, "
                "isolated vertices), oriented manifold surfaces (tri/quad/mixed grids, tetrahedron, octahedron, cube, tori, "
                "fans, single polygons; 1-3 pieces, random face deletions, isolated vertices, dangling explicit edges), "
                "tetrahedral and hexahedral volumes (single, pairs, fans around an edge, Kuhn grids; 1-3 pieces, deletions); "
                "random renumbering / rotation / shuffling; operations: edge/face/cell trees with random roots, exclusion "
                "sets of density 0-60% or None, avoid_boundary; forests; Kruskal with weights one/length/dict/Attribute "
                "(ties, negatives, dyadic); all roots on meshes of <= 14 elements. Non-trivial = the root's component has "
                ">= 3 elements (trees, Kruskal) or the forest has >= 2 trees or >= 3 elements; distinct = canonical JSON of the case. "
                "Every public table/accessor of trees and forests is read twice in two case-chosen orders and each tree is "
                "re-inspected after the forest-level reads (answers must not change); 12-45% of the cases are multi-step: "
                "attributes.edge_length computed persistently before the vertices move to their final position, or a "
                "pre-existing 'length' edge attribute with arbitrary values; sessions: 2-5 tree/forest objects built in one "
                "interpreter on shared / different meshes, half of them without their optional arguments, the caller adding "
                "ids to the exclusion sets of earlier objects in between - each object is checked against the exclusions it "
                "was given and re-inspected at the end; vertices moved between objects; objects re-rooted / given more cuts and "
                "run again as obj() or obj.compute(), sometimes after a run that raises; call forms positional / keyword / "
                "mixed; roots as int / numpy int32, int64, uint8; exclusion sets of python or numpy ints or frozenset; flags as "
                "bool / numpy.bool_ / 0-1; custom weights as float / int / float32 / float64 scaled by 2^-23 .. 2^130; "
                "traverse called positionally, by keyword and with its default; a few polylines with > 256 vertices; surfaces "
                "in both orientations, tetrahedra in any vertex order, all-coincident vertices")
    ctx.assumptions += [
        "elements are 0..n-1; the model receives the neighbour slots of every element as the implementation's own public "
        "connectivity queries return them (order included); the oracle rebuilds the adjacency from mesh.edges/faces/cells",
        "UnionFind answers `connected` as the partition generated by the unions (this is property C20)",
        "weights='length': coordinates are small integers, so float lengths are ordered like the integer squared lengths "
        "given to the model (minimum spanning forests depend on the order of the weights only); custom weights are "
        "integers or multiples of 1/4 (scaled by 4 for the model)",
        "roots that are not elements (too large or negative) must be rejected with IndexError/KeyError",
    ]
    ctx.regen(sys.modules[__name__])
    b = ctx.build_props(extra_targets=["theories/C10/Run.vo"])
    ctx.hygiene(["Lib", "C10"])

    cases = []
    cdir = os.path.join(core.ROOT, "corpus", "C10")
    if os.path.isdir(cdir):
        for f in sorted(os.listdir(cdir)):
            if f.endswith(".json"):
                cases.append(json.load(open(os.path.join(cdir, f))))
    big = not quick
    cases += [gen_case(ctx.rng, big and k % 10 == 0) for k in range(n_rand)]
    cases += all_roots_cases(ctx.rng, n_roots)
    cases += [gen_session(ctx.rng) for _ in range(n_sessions)]
    bc = bigon_cases(ctx.rng)
    cases += bc if not quick else ctx.rng.sample(bc, 40)
    for _ in range(4 if quick else 60):
        mesh = gen_polyline(ctx.rng, long=True)
        nvx = len(mesh["V"])
        what = ctx.rng.choice(["edge_tree", "kruskal", "edge_forest"])
        # (unary-nat arithmetic makes 300 elements too slow for the kernel-evaluated batches: these few cases are checked
        #  by the oracle only, and counted as such)
        c = {"mesh": mesh, "what": what, "kind": "edge", "read_order": ctx.rng.randrange(12), "calls": 1, "oracle_only": True,
             "root_repr": ctx.rng.choice(["int", "int64", "int32"])}
        if what == "edge_tree":
            c.update(op="tree", root=ctx.rng.randrange(256, nvx), avoid_boundary=False,
                     excl=sorted(ctx.rng.sample(range(nvx), 3)) + [nvx - 2])
        elif what == "kruskal":
            c.update(op="kruskal", root=ctx.rng.randrange(256, nvx), avoid_boundary=False, weights=ctx.rng.choice(["one", "length"]))
        else:
            c.update(op="forest", excl=None)
        cases.append(c)
    if not quick:
        # support only (bounded): every graph on <= 4 vertices as a polyline, every root
        for nvx in range(1, 5):
            pairs = [(a, b2) for a in range(nvx) for b2 in range(a + 1, nvx)]
            for mask in range(1 << len(pairs)):
                E = [list(pq) for k, pq in enumerate(pairs) if mask >> k & 1]
                mesh = {"type": "polyline", "V": [[k, k * k, 0] for k in range(nvx)], "E": E, "F": [], "C": [],
                        "shape": "polyline/exhaustive<=4"}
                cases.append({"mesh": mesh, "what": "edge_forest", "op": "forest", "kind": "edge", "excl": None})
                for r in range(nvx):
                    cases.append({"mesh": mesh, "what": "edge_tree", "op": "tree", "kind": "edge", "root": r,
                                  "avoid_boundary": False, "excl": None})
                    cases.append({"mesh": mesh, "what": "kruskal", "op": "kruskal", "kind": "edge", "root": r,
                                  "avoid_boundary": False, "weights": "length"})

    fails, replaced, disagree, total, disagree_unknown = [], [], [], [0], [0]

    def process(cases, tag):
        """one chunk: run the implementation, oracle, kernel-checked correspondence (bounded memory in the thorough tier)"""
        nsh = max(1, min(core.NCPU, len(cases) // 40))
        payloads = [{"cases": cases[i::nsh], "case_timeout": 90} for i in range(nsh)]
        results = core.run_impl_parallel(DRIVER, payloads, timeout=1500)
        obs = [None] * len(cases)
        for i, r in enumerate(results):
            for j, o in zip(range(i, len(cases), nsh), r["results"]):
                obs[j] = o

        # a crash / timeout inside a shared shard can be an artefact of machine load: such cases are re-run alone; every
        # replaced crash is kept in the evidence and more than 2% of them fails the run
        for idx, o in enumerate(obs):
            if o is None or "crash" in o:
                first = "no result" if o is None else o["crash"]
                for attempt in range(2):
                    try:
                        o2 = core.run_impl(DRIVER, {"cases": [cases[idx]], "case_timeout": 240}, timeout=400)["results"][0]
                    except Exception as ex:  # noqa
                        o2 = {"op": cases[idx]["op"], "kind": cases[idx]["kind"], "crash": "driver failed: %r" % ex}
                    obs[idx] = o2
                    if "crash" not in o2:
                        replaced.append((cases[idx]["what"], first))
                        break
                ctx.count("re-run alone after a crash/timeout in a shard")
        total[0] += len(cases)

        n_sess = sum(1 for c in cases if c.get("op") == "session")
        cases, obs = expand_sessions(cases, obs)
        ctx.count("sessions (several objects in one interpreter, mutated exclusion sets in between)", n_sess)

        # ---- bookkeeping + oracle (search for a concrete failing input)
        for idx, (c, o) in enumerate(zip(cases, obs)):
            ctx.count("op " + c["what"])
            ctx.count("mesh " + c["mesh"]["type"])
            ctx.count("shape " + c["mesh"].get("shape", "?"))
            if c.get("session"):
                ctx.count("object built inside a session" + (" without its optional arguments" if c.get("omit_optional") else ""))
            if c.get("excl") is not None:
                ctx.count("with exclusion set")
            if c.get("avoid_boundary"):
                ctx.count("avoid_boundary")
            if c.get("pre"):
                ctx.count("scenario " + ("persistent edge_length then vertices moved" if c["pre"].get("persist_length")
                                         else "pre-existing 'length' attribute with arbitrary values"))
            if c["op"] == "kruskal":
                w = c["weights"]
                ctx.count("weights " + (w if isinstance(w, str) else w["as"]))
            nontriv = False
            if "crash" not in o:
                n_el = o.get("n", 0)
                ctx.count("elements<=%d" % (10 * ((n_el + 9) // 10)))
                if o.get("err"):
                    ctx.count("rejected root")
                elif c["op"] == "forest":
                    ctx.count("forest trees=%s" % (o["n_trees"] if o["n_trees"] < 4 else ">=4"))
                    nontriv = o["n_trees"] >= 2 or n_el >= 3
                else:
                    nontriv = len(o["bfs"]) >= 3
                    ctx.count("reached whole mesh" if len(o["bfs"]) == n_el else "reached a proper part")
            if c["op"] in ("tree", "kruskal") and c.get("root") is None:
                ctx.count("root drawn by the constructor")
            if c["op"] in ("tree", "kruskal") and c.get("root") is not None and c["root"] < 0:
                ctx.count("negative root")
            ctx.count("compute() called %d time(s)" % c.get("calls", 1))
            if c["op"] in ("tree", "kruskal") and c.get("root") is not None:
                ctx.count("root given as " + c.get("root_repr", "int"))
            ctx.count("call form " + c.get("call_form", "mixed"))
            if c.get("excl") is not None:
                ctx.count("exclusion set as " + c.get("excl_repr", "set"))
            if isinstance(c.get("weights"), dict):
                ctx.count("custom weights as %s, scale 2^%s" % (c["weights"].get("num", "float"), c["weights"].get("scale_exp", 0)))
            ctx.case_seen([c["mesh"]["V"], c["mesh"]["E"], c["mesh"]["F"], c["mesh"]["C"], c["op"], c["kind"], c.get("root"),
                           c.get("excl"), c.get("avoid_boundary"), c.get("weights") if isinstance(c.get("weights"), str) else "custom",
                           c.get("pre"), c["mesh"].get("pre_V"), c.get("read_order"), c.get("calls", 1), c.get("omit_optional"), c.get("root_repr"), c.get("call_form"), c.get("excl_repr"),
                           c.get("flag_repr"),
                           json.dumps(c["session"]["steps"]) if c.get("session") else None],
                          nontrivial=nontriv,
                          sample={"op": c["what"], "mesh": c["mesh"]["shape"], "root": c.get("root"),
                                  "n": o.get("n"), "edges": o.get("edges", [])[:8]} if nontriv else None)
            m = oracle(c, o)
            if m:
                fails.append((c, m))

        # ---- kernel-checked correspondence
        bad = {}
        if b["model_ok"]:
            groups = {"tree": ([], [], "check_tree", "tcase", tree_term),
                      "forest": ([], [], "check_forest", "fcase", forest_term),
                      "kruskal": ([], [], "check_kruskal", "kcase", kruskal_term)}
            for idx, (c, o) in enumerate(zip(cases, obs)):
                if "crash" in o:
                    continue
                if c.get("oracle_only"):
                    ctx.count("checked by the oracle only (more than 256 elements)")
                    continue
                g = groups[c["op"]]
                g[0].append(idx)
                g[1].append(g[4](c, o))
            for name, (idxs, terms, fn, ty, _) in groups.items():
                r = ctx.run_cases(name + tag, HEADER, terms, fn, case_type=ty, shard=60 if quick else 120, timeout=900)
                for i in (r or [])[:3]:
                    disagree.append((cases[idxs[i]], obs[idxs[i]]))
                if r is None:
                    disagree_unknown[0] += 1


    CH = 3000
    if not b["model_ok"]:
        ctx.obligation("correspondence batches", "correspondence", False, "model does not compile")
    for k in range(0, len(cases), CH):
        process(cases[k:k + CH], "" if len(cases) <= CH else "_%02d" % (k // CH))
    n_all = total[0]
    for what, first in replaced[:10]:
        ctx.notes.append("a case (%s) crashed inside its shard with `%s` and ran cleanly alone" % (what, first[:120]))
    ctx.obligation("harness: at most 2%% of the cases needed a re-run after a crash/timeout in their shard (%d of %d)"
                   % (len(replaced), n_all), "harness", len(replaced) * 50 <= max(1, n_all),
                   "; ".join("%s: %s" % (w, f[:80]) for w, f in replaced[:5]))
    ctx.obligation("oracle: every tree / forest returned by the implementation satisfies the C10 sentence "
                   "(brute-force components, hop distances, Prim minimum)", "oracle-on-implementation", not fails,
                   "%d failing cases" % len(fails))

    # ---- verdicts
    for case, msg in fails:
        ctx.count("FAILING " + classify(case, msg))
    reported = set()
    for case, msg in fails[:200]:
        key = classify(case, msg)
        site = (case["op"], case["kind"])
        if site in reported or len(reported) >= 3:      # a few minimised witnesses are enough; all failing keys are in the evidence
            continue
        reported.add(site)

        small = case if case.get("op") == "session" else (shrink_session(case, msg) if case.get("session") else shrink_case(case, msg))
        o2 = run_one(small)
        m2 = oracle(small, o2) or msg
        ctx.violation("%s on %s: %s" % (case["what"], case["mesh"]["shape"], m2),
                      {"case": small, "observed": {k: v for k, v in o2.items() if k not in ("raw", "tb")},
                       "class": classify(small, m2)}, key=classify(small, m2))
    if disagree and not fails:
        ctx.notes.append("model and implementation disagree on %d case(s) but the oracle accepts the implementation's answers" % len(disagree))
        for c, o in disagree[:3]:
            ctx.log("disagreement on case", json.dumps({k: v for k, v in c.items() if k not in ("mesh", "session")}),
                    json.dumps(c["mesh"])[:600])
            ctx.log("   observed", json.dumps({k: v for k, v in o.items() if k not in ("raw", "tb", "edges_tab", "faces_tab", "cells_tab")})[:900])




def replay(ctx, data):
    case = data.get("case")
    if not case:
        print("replay file names no concrete input:", json.dumps(data)[:400])
        return 1
    o = run_one(case)
    print("observed:", json.dumps({k: v for k, v in o.items() if k not in ("raw", "tb")})[:3000])
    m = oracle(case, o)
    print("FAILS: " + m if m else "passes")
    return 1 if m else 0


META["level_text"] = (
    "Machine-checked Coq theorems, all closed under the global context (no axiom), about an executable model of "
    "mouette/processing/trees: the BFS of edge_sp/face_sp/cell_sp with its (parent, child) pair queue and seen-at-pop "
    "test, the children/edges derivation, traverse with both pop sides, the forests, Kruskal over the abstract "
    "partition and its orientation pass. Every decision of that code (admissibility tests incl. _avoid_edge, loop "
    "tests, pop sides, distance update, weight selector, candidate filter, sort direction, accept test, forest call "
    "plumbing) is regenerated from the source on every run (Gen.v) and its meaning is itself a theorem "
    "(C10_generated_decisions, C10_admissibility). FULL, for all graphs / roots / exclusion sets / integer weights: "
    "C10_all_roots / C10_kruskal_all_roots (the starting element is a Python integer: exactly 0..n-1 accepted, "
    "negatives refused), C10_recompute_idempotent (compute() called again leaves the tables of one computation), "
    "C10_bfs_tree (ends within its fuel; reached = reachable from the root in the admissible graph; BFS depth = hop "
    "distance, attained and minimal; parent/children mutually inverse; tree edges are admissible adjacencies one level "
    "down; |edges|+1 = |reached|), C10_bfs_acyclic, C10_traverse (both orders: each element exactly once, reported parent, "
    "parents first, fuel not hit), C10_forest (every element in exactly one tree, each tree spans the component of its "
    "root, roots are the least elements of distinct components), C10_forest_one_tree_per_component (every element is "
    "connected to exactly one root; a forest of k trees on n elements has n-k edges; connectivity is an equivalence on "
    "the symmetric adjacency), C10_forest_traverse (every element exactly once), C10_traverse_bfs_level_by_level / "
    "C10_traverse_bfs_by_hop_distance (traverse('BFS') never decreases the depth = hop distance), "
    "C10_kruskal_traverse, C10_kruskal (edge list is a spanning forest of the "
    "admissible edges in every component, every edge a bridge; parent/children orient exactly the root's component; "
    "orientation fuel not hit), C10_kruskal_minimal (minimum weight among all spanning forests, ties and negative weights "
    "included), and the soundness of the Gallina checkers (is_bfs_tree, is_tree_table, is_edge_list, is_spanning_forest + "
    "equal weight, recomputed orientation) through which kernel-evaluated correspondence batches accept the "
    "implementation's answers. Only tested, not proved: that mouette's connectivity queries deliver the mesh adjacency "
    "(the oracle rebuilds it from the element tables), the order-isomorphism float length / integer squared length, "
    "that UnionFind refines the partition (C20)."
)
